"""C42 — AFC shared-memory channel tables stay consistent.
MC AfcShm.tla + SCHED replay on the real WriteState/ReadState with the verification snapshot
(DESIGN §5 C42)."""
import json
import afc_util
import verif

META = {
    "level": "model_checking",
    "engine": "afc",
    "technique": "TLA+ spec AfcShm (two mirrored channel lists with generation counters and read/write offsets, one action per yield point) model-checked with TLC for the table-consistency invariants; edge-covering schedules of its state graph replayed on the real shm WriteState/ReadState under the yield-point scheduler, the verdict coming from an unsynchronised verification snapshot of both lists and from the writer's call results; call/return history validated against AfcAbs",
    "text": "TLC checks, for every interleaving of a writer running scripts of add/remove/remove_if/remove_all up to and beyond the capacity with readers that lock and search the lists: a list that can be locked holds the table before or after the writer call in progress, both lists are equal (order and generation) with opposite offsets and equal to the abstract table whenever the writer is idle, no duplicates, ids strictly increase (a failed add consumes one), OutOfSpace exactly when the table is full, the index-based update of the second list hits the same channel. Every transition of the schedule graphs is executed on real WriteState/ReadState over POSIX shared memory; after each step a snapshot (offsets, next id, per list: lock word, generation, len, ids in order) is compared with the spec. VIOLATION only if on the real code an unlocked list holds a set the writer never produced, the lists differ or differ from the calls' abstract table while the writer is idle, an id is reused, add fails/succeeds contrary to fullness, a reader's sealed message does not open with the key of the channel it asked for, or the history is rejected by AfcAbs (C42 guards).",
    "note": "Bounds: capacity 2; design run 5 writer scripts of 4 calls x 2 readers x 1 call (thorough: 17 scripts of 3-5 calls x 2 readers x 2 calls, and capacity 1 with 3 scripts of 4 calls); schedule graphs as for C41. Sequentially consistent interleavings only (DESIGN §9). The snapshot hook reads the lists without locking (the scheduler serialises all threads).",
}


def run(ctx):
    vh = ctx.build("afc")
    if ctx.replay:
        ctx.absorb(ctx.run_engine(vh, "shm", [afc_util.load_replay(ctx)], opts={"only": "C42"}))
        return
    cfgs = ["MC_AfcShm_c42_thorough.cfg", "MC_AfcShm_cap1.cfg"] if ctx.thorough else ["MC_AfcShm_c42.cfg"]
    (beh, trace), sel = afc_util.shm_check(ctx, vh, "C42", cfgs, None,
                                            actions=[a for a in afc_util.SHM_ACTIONS if a != "e2" or ctx.thorough])
    if ctx.nviol:
        # self-tests use the recorded results of this run; with violations present they prove nothing
        ctx.cov["selftests"] = ["skipped: the run found violations"]
        return
    # binding self-tests: (a) a history in which add returns a used id must be rejected
    evs = [json.loads(l) for l in open(trace).read().splitlines()]
    ks = [i for i, e in enumerate(evs) if e["ev"] == "ret" and e["th"] == 0 and e["what"] == "add" and e["res"] == "ok"]
    k = next((b for a, b in zip(ks, ks[1:]) if not any(e["ev"] == "reset" for e in evs[a:b])), None)
    if k is None:
        raise verif.ToolError("binding self-test impossible: no run with two successful adds in the recorded history")
    evs[k]["id"] = 0
    bad = ctx.write_ndjson("selftest.trace.ndjson", evs[:k + 1])
    ok, n, _ = ctx.validate_trace("Trace_AfcAbs", "Trace_AfcAbs.cfg", bad, env={"PROP": "C42"}, tag="trace-selftest")
    if ok or n != k + 1:
        raise verif.ToolError("binding self-test failed: history with a reused id accepted (ok=%s at=%s)" % (ok, n))
    # (b) a stale abstract table must show as a table mismatch
    st = ctx.run_engine(vh, "shm", beh[:300], opts={"selftest": "stale-table", "only": "C42"}, tag="selftest-stale")
    if not any(str(x.get("key", "")).startswith("C42:") for x in st):
        raise verif.ToolError("binding self-test failed: a stale abstract table was not noticed")
    ctx.cov["selftests"] = sel + ["trace: add returning a used id rejected at the corrupted event",
                                  "engine: stale abstract table reported"]
