"""C44 — channel loans are exclusive and freed exactly once.
MC BiArc.tla + SCHED replay of every transition of its state graph on the real Lender/Loan with a
drop-recording payload and the tracking allocator (DESIGN §5 C44)."""
import afc_util
import verif

META = {
    "level": "model_checking",
    "engine": "afc",
    "technique": "TLA+ spec BiArc (one action per atomic access of BiArc::try_clone/get_if_shared/drop) model-checked with TLC; edge-covering schedules of its state graph replayed on the real Lender/Loan under the yield-point scheduler with a tracking allocator as memory-safety oracle (spec->impl conformance); complemented by free-running races of the same operations on real unscheduled threads with the same oracle (stress, not exhaustive)",
    "text": "TLC checks the two-handle arc (lender thread: lend x3, drop; two loan threads: get_mut, use, get_mut, use, drop; every interleaving) for: at most one live loan, exclusive use of the exclusive data, no access after the free, no access for a get_mut after drop(Lender) returned, freed at most once and not before both handles are gone, freed exactly once at the end; the spec mutant 'free when the old state was SHARED' must be rejected. Every transition of the state graph is executed on the real types: each path is a schedule of yield points (swap in try_clone, load in get_if_shared, swap and free in drop); payloads record their drop, freed blocks are poisoned and quarantined by the harness allocator. VIOLATION on: second live loan, concurrent exclusive use, access granted after revocation, touching or reading freed data, double free, leak / payload not dropped exactly once.",
    "note": "Bounds: 1 lender thread with <=3 lend() calls, 2 loan threads with 2 get_mut() each; thorough adds 3 loan threads x 4 lends; additionally free-running races (real unscheduled threads, spin barrier with jitter, 4 s per pair quick / 20 s thorough) of the pairs drop(Lender)||drop(Loan), lend||lend, lend||drop(Loan) with the payload-drop oracle, which reach interleavings inside a read-modify-write split into separate accesses (not exhaustive: a stress complement to the schedules); and the AfcMem schedules (memory::State, 2 readers) with the allocator verdict. Sequentially consistent interleavings only (DESIGN §9). Trusts the yield points in lender.rs and the allocator's quarantine (no reuse of a freed block during a schedule).",
}

ACTIONS = ["lend", "ldrop", "lfree", "wait", "get", "use", "used", "drop", "free"]


def project(a, args, s):
    return {"a": a, "t": args[0] if args else 0, "shared": s["shared"], "freed": s["freed"],
            "slot": s["slot"], "pc": s["pc"]}


def run(ctx):
    vh = ctx.build("afc")
    if ctx.replay:
        ctx.absorb(ctx.run_engine(vh, "biarc", [afc_util.load_replay(ctx)]))
        return
    cfgs = ["MC_BiArc.cfg"] + (["MC_BiArc_thorough.cfg"] if ctx.thorough else [])
    rm = ctx.tlc("BiArc", "MC_BiArc_mutant.cfg", allow_violation=True, cache=True)
    if not rm.violated:
        raise verif.ToolError("self-test failed: TLC accepted the spec mutant 'free when the old state was SHARED'")
    graphs = {}
    allbeh = []
    for cfg in cfgs:
        info, steps = afc_util.schedules(ctx, "BiArc", cfg, project)
        afc_util.require_graph_actions(info, ACTIONS)
        c = afc_util.cfg_constants(cfg)
        nloans = len(info["init"]["slot"])
        beh = [{"loans": nloans, "lends": int(c["Lends"]), "gets": int(c["Gets"]), "steps": st} for st in steps]
        if len(beh) > 6000 and not ctx.thorough:
            beh = verif.sample(ctx.rng, beh, 6000)
        res = afc_util.replay(ctx, vh, "biarc", beh, tag="biarc-" + cfg[3:-4])
        ctx.absorb(res)
        allbeh += beh
        graphs[cfg] = {"constants": c, "states": info["states"], "transitions": info["transitions"],
                       "cover_paths": info["cover_paths"], "replayed": len(beh),
                       "steps_executed": sum(x.get("steps", 0) for x in res)}
    # free-running races of the operation pairs the state graph has enabled together (the SCHED
    # replay preempts only at yield points; here the hardware interleaves single accesses)
    ms = 20000 if ctx.thorough else 4000
    races = [{"race": m, "rounds": 2000000 if ctx.thorough else 400000, "ms": ms}
             for m in ("drop-drop", "lend-lend", "lend-drop")]
    rres = ctx.run_engine(vh, "biarc", races, tag="biarc-race")
    ctx.absorb(rres)
    ctx.cov["free_running_races"] = {r["_in"]["race"]: r.get("steps", 0) for r in rres if r.get("_in")}
    # the same cell inside memory::State (Lender per channel, Loan per context): allocator verdict only
    afc_util.mem_check(ctx, vh, "C44", validate=False)
    if ctx.nviol:
        # self-tests use the recorded results of this run; with violations present they prove nothing
        ctx.cov["selftests"] = ["skipped: the run found violations"]
        return
    # binding self-tests
    st = ctx.run_engine(vh, "biarc", allbeh[:50], opts={"selftest": "forget"}, tag="selftest-forget")
    if not any(x.get("key") == "C44:leak" for x in st):
        raise verif.ToolError("binding self-test failed: a forgotten lender (leak) was not reported")
    st = ctx.run_engine(vh, "biarc", [{"race": "drop-drop", "rounds": 50, "ms": 2000}],
                        opts={"selftest": "forget"}, tag="selftest-race-forget")
    if not any(x.get("key") == "C44:leak" for x in st):
        raise verif.ToolError("binding self-test failed: a forgotten lender in the free-running race was not reported")
    bad = [dict(allbeh[0])]
    bad[0]["steps"] = [dict(s) for s in bad[0]["steps"]]
    bad[0]["steps"][0]["freed"] = 1
    st = ctx.run_engine(vh, "biarc", bad, tag="selftest-perturbed")
    if not st or not st[0].get("drift"):
        raise verif.ToolError("binding self-test failed: a perturbed expected state was not noticed")
    ctx.cov.update({
        "exhaustive": True,
        "schedule_graphs": graphs,
        "selftests": ["spec mutant FreeWhenOld=TRUE rejected by TLC (%s)" % rm.violated,
                      "engine: forgotten lender reported as leak (scheduled and free-running)", "engine: perturbed expected state counted as drift"],
    })
    ctx.assumptions += [
        "yield points precede every access of BiArcInner::state and the free in lender.rs",
        "sequentially consistent interleavings only (memory-ordering weakening out of scope, DESIGN §9)",
    ]
