"""C21 — the traversal queue keeps its ordering and coverage rules.

MC of TraversalQueue.tla (concrete swap-based vector refines the documented rules; PopMax,
DedupUnique, PartitionSep, DrainExact as invariants/action properties) + S2I replay of one
behaviour per transition of the concrete state graph into the real
`aranya_runtime::TraversalQueue` + I2S validation of observed results for histories on which the
rules are ambiguous (DESIGN §5 C21)."""
import json
import os
import verif
import storage_util

META = {
    "level": "model_checking",
    "engine": "storage",
    "technique": "TLA+ spec TraversalQueue (concrete vector layer refining the documented bag rules) model-checked with TLC; one TLC behaviour per transition replayed into the real TraversalQueue (spec->impl), observed results of rule-ambiguous histories validated by Trace_TraversalQueue (impl->spec)",
    "text": "TLC explores the complete state graph of the swap-based partitioned vector for every operation sequence that keeps at most MaxEntries entries, checking on every transition that a pop returns a maximum location and removes exactly it, that the de-duplicating path keeps one entry per segment at the highest max cut seen, that the partition separates covered from uncovered, that drains return exactly the uncovered entries above the threshold, that no internal `assume` fires, and that every step is an outcome the documented rules allow. One behaviour per transition is replayed into the real queue comparing every return value, is_empty/all_covered/peek and the whole content (obtained by popping a fresh replay of the prefix) after every step; the thorough tier adds larger constants and seeded simulation of long operation sequences.",
    "note": "Bounds: segments {0,1,2}, max cuts {1,2,3}, <=3 entries (quick) / <=4 entries and random sequences of 40 operations with up to 8 entries (thorough). Content after a step is read by replaying the prefix into a fresh queue and popping it empty (the queue has no iterator). For histories that passed a rule-ambiguous step (several entries of one segment after push_duplicate) a difference from the spec's concrete layer is drift and the verdict comes from trace validation of the observed results against the abstract rules.",
}

ACTIONS = ["Push", "PushDuplicate", "Pop", "PopCovered", "PopDuplicates", "DrainAbove",
           "CoverUpTo", "DrainAll", "Clear"]


def _validate_observed(ctx, results, tag):
    """I2S: run the observed traces of `results` through Trace_TraversalQueue.
    Returns list of indexes (into results) whose trace was rejected."""
    rejected = []
    todo = [r for r in results if r.get("trace")]
    rounds = 0
    while todo and rounds < 6:
        rounds += 1
        lines, owner = [], []
        for r in todo:
            lines.append({"o": "reset"})
            owner.append(None)
            for ev in r["trace"]:
                lines.append(ev)
                owner.append(r)
        path = ctx.write_ndjson("%s-trace-%d.ndjson" % (tag, rounds), lines)
        ok, at, _ = ctx.validate_trace("Trace_TraversalQueue", "Trace_TraversalQueue.cfg", path,
                                       tag="%s-trace-%d" % (tag, rounds), timeout=600)
        if ok:
            break
        if at is None or at < 1 or at > len(lines) or owner[at - 1] is None:
            raise verif.ToolError("trace validation failed without a usable position (%r)" % at)
        bad = owner[at - 1]
        rejected.append((bad, at))
        todo = todo[todo.index(bad) + 1:]
    return rejected


def run(ctx):
    vh = ctx.build("storage")
    if ctx.replay:
        case = json.load(open(ctx.replay))["case"]["input"]
        res = ctx.run_engine(vh, "queue", [case], opts={"trace": 1})
        for bad, at in _validate_observed(ctx, [r for r in res if r.get("drift")], "replay"):
            bad["ok"] = False
            bad.setdefault("key", "C21:rules:observed-outcome-not-allowed")
            bad.setdefault("msg", "observed results are not an outcome the documented rules allow")
        ctx.absorb(res)
        return

    # ---- MC + S2I emission: one behaviour per transition
    r = ctx.tlc("MC_TraversalQueue", "MC_TraversalQueue.cfg", timeout=1500)
    ctx.require_actions(storage_util.parse_action_coverage(r), ACTIONS)
    beh = r.replays
    if not beh:
        raise verif.ToolError("TLC emitted no behaviours")
    runs = [("cover", beh)]
    if ctx.thorough:
        r2 = ctx.tlc("MC_TraversalQueue", "MC_TraversalQueue_thorough.cfg", timeout=3000)
        ctx.require_actions(storage_util.parse_action_coverage(r2), ACTIONS)
        r4 = ctx.tlc("MC_TraversalQueue", "MC_TraversalQueue_wide.cfg", timeout=3000)
        ctx.require_actions(storage_util.parse_action_coverage(r4), ACTIONS)
        r3 = ctx.tlc("MC_TraversalQueue", "Sim_TraversalQueue.cfg", simulate=750, depth=41, workers=4,
                     timeout=1200)
        sim = storage_util.dedupe_by_prefix(r3.replays)
        if len(sim) < 1000:
            raise verif.ToolError("simulation produced only %d behaviours" % len(sim))
        runs.append(("sim", sim))
    n_amb = n_drift = n_i2s = 0
    for tag, items in runs:
        res = ctx.run_engine(vh, "queue", items, tag="queue-" + tag)
        if len([x for x in res if x.get("i", -1) >= 0]) < len(items):
            raise verif.ToolError("engine returned %d results for %d behaviours" % (len(res), len(items)))
        drifted = [x for x in res if x.get("drift") and x.get("ok")]
        n_drift += len(drifted)
        for bad, at in _validate_observed(ctx, drifted, tag):
            bad["ok"] = False
            bad["key"] = "C21:rules:observed-outcome-not-allowed"
            bad["msg"] = ("history with several entries per segment: the observed results (event %d of the "
                          "validated trace) are not an outcome the documented rules allow" % at)
        n_i2s += len(drifted)
        n_amb += sum(1 for b in items if b["h"] and b["h"][-1]["m"])
        ctx.absorb(res)

    # ---- I2S path kept alive on the unchanged tree: validate a seeded sample of observed
    # traces of ambiguous histories, and require a corrupted one to be rejected (self-test)
    amb = [b for b in beh if b["h"] and b["h"][-1]["m"]]
    samp = verif.sample(ctx.rng, amb, 150 if not ctx.thorough else 600)
    obs = ctx.run_engine(vh, "queue", samp, opts={"trace": 1}, tag="queue-i2s")
    rej = _validate_observed(ctx, obs, "i2s")
    for bad, at in rej:
        ctx.violation("C21:rules:observed-outcome-not-allowed",
                      "observed results are not an outcome the documented rules allow (event %d)" % at,
                      {"input": bad.get("_in"), "result": {k: v for k, v in bad.items() if k != "_in"}})
    ctx.traces += len(obs)
    # self-tests of the binding
    good = next((b for b in beh if len(b["h"]) >= 2 and b["h"][-1]["k"] == "loc" and not b["h"][-1]["m"]), None)
    if good is None:
        raise verif.ToolError("no behaviour usable for the self-test")
    bad = json.loads(json.dumps(good))
    bad["h"][-1]["l"] += 100
    st = ctx.run_engine(vh, "queue", [bad], tag="selftest")
    if st[0].get("ok"):
        raise verif.ToolError("binding self-test failed: perturbed expected return value accepted")
    withtrace = next((o for o in obs if o.get("trace") and len(o["trace"]) >= 2), None)
    if withtrace is not None:
        cor = json.loads(json.dumps({"trace": withtrace["trace"]}))
        ev = cor["trace"][-1]
        ev["s"] = sorted(ev["s"] + [999])
        if not _validate_observed(ctx, [cor], "selftest"):
            raise verif.ToolError("binding self-test failed: corrupted observed trace accepted")
    cfgtxt = open(os.path.join(verif.TLA, "MC_TraversalQueue.cfg")).read()
    ctx.cov.update({
        "exhaustive": True,
        "constants": cfgtxt.split("CONSTANTS")[1].split("ACTION_CONSTRAINT")[0].split("\n")[1:-1],
        "behaviours_replayed": sum(len(i) for _, i in runs),
        "one_behaviour_per_transition": len(beh),
        "ambiguous_histories": n_amb,
        "drifted_histories_decided_by_i2s": n_drift,
        "observed_traces_validated": len(obs) + n_i2s,
        "selftest": "perturbed expected return rejected by engine; corrupted observed trace rejected by Trace_TraversalQueue",
    })
    ctx.assumptions += [
        "content after each step is read by replaying the prefix into a fresh queue and popping it empty (deterministic code)",
        "the capacity constant QUEUE_CAPACITY is not enforced by the code (its tests are #[ignore]d) and is not modelled",
    ]
