"""C15 — file-backed graph storage survives crashes.

MC   LinearFile.tla: the graph file as cache/durable images, one action per I/O call of
     `Writer` (create, fallocate, fsync, length prefix, value, sync-if-dirty, root prefix, root,
     sync, close, open) and Crash(plan) = every assignment of {lost, kept, torn at each prefix}
     to the writes issued since the last sync; invariants Recoverable, DurableRootsSound,
     CleanReopen, NothingNewerVisible, WithinAlloc.  Spec mutants (no first sync, no slot
     alternation, no checksum, generation not incremented, no wipe of an invalid slot on open,
     data_dirty not set by the commit's own head-set record) must be rejected by TLC.
I2S  the I/O log recorded from the real `LinearStorageProvider<FileManager>` (hook
     storage/linear/libc/verif.rs) while a real multi-commit workload runs must be a behaviour
     of Trace_LinearFile (same actions, real constants, logged offsets / decoded root bound).
S2I  LinearFileCrash.tla reads the abstract recorded log; TLC enumerates every crash point x
     crash plan and the set of commits the reopened file may show; `vh-crash replay`
     materialises each crash image, reopens it with the real open path and DECIDES.
"""
import json
import os

import verif

META = {
    "level": "model_checking",
    "engine": "crash",
    "technique": "TLA+ spec LinearFile model-checked with TLC (all crash points x all lost/kept/torn plans); "
                 "recorded I/O log of the real file storage validated against Trace_LinearFile (impl->spec); "
                 "TLC-enumerated crash plans (LinearFileCrash) over the recorded log materialised as crash images "
                 "and reopened through the real open path (spec->impl)",
    "text": "TLC checks Recoverable/DurableRootsSound on the LinearFile spec for <=3 commits x <=2 appends, every crash "
            "point, every plan (and rejects four mutated specs). The same crash semantics is then applied by TLC to "
            "the I/O log recorded from a real multi-commit workload on LinearStorageProvider<FileManager>: for every "
            "crash point and every plan (exhaustive up to 6 unsynced writes, structured + seeded beyond) the engine "
            "builds the crash image, reopens it with FileManager/LinearStorage::open and requires the state of the "
            "last completed commit or of the commit in progress (error only before the first commit), every "
            "reachable head/segment/command/fact readable and equal to that commit's state, nothing newer visible, "
            "and a further commit + reopen to work.",
    "note": "Bounds: MC 3 commits x 2 appends x 1 crash (+1 commit after recovery), record body 2 units, root 2 units; "
            "recorded workload 15 commit calls quick / ~50 thorough + a 40k-command bulk run crossing a second fallocate "
            "chunk (sampled crash points). Tear candidates: every byte of the root, midpoint (thorough: also first/last "
            "byte and sector boundaries) of data writes. Trusted: the recorder hook sees every pwrite/fdatasync/"
            "fallocate/fsync of the graph file; OS assumptions listed in the evidence.",
}

ASSUMPTIONS = [
    "a completed fdatasync/fsync makes every earlier write and size change of the file durable",
    "writes issued since the last sync may persist in any subset and order; a single pwrite may persist as any byte prefix (torn); nothing else alters the file",
    "a torn root (any mix of new prefix and old suffix bytes) fails the SipHash checksum",
    "the directory entry of the graph file is durable once the file's first fsync returned (true on ext4/xfs/btrfs; POSIX does not promise it and the code never fsyncs the directory)",
    "S2I crash images come from one crash per recorded history; a second crash after recovery is covered by MC_LinearFile_recrash.cfg (spec) and the directed `recrash` scenarios (real code)",
]

MC_ACTIONS = ["Create", "Fallocate", "Fsync", "AppendGrow", "AppendHdr", "AppendHdrAfterGrow", "AppendBody",
              "Sync1", "RootHdr", "RootBody", "Sync2", "Crash", "Open", "Scrub", "ScrubSync"]
ORDER = {"commit": 0, "ret": 1, "plan": 2}


def sort_items(items):
    return sorted(items, key=lambda x: (x["sync"], ORDER[x["t"]], x.get("pt", 0)))


def record(ctx, vh, workload, dense, tag):
    d = os.path.join(ctx.workdir, tag)
    os.makedirs(d, exist_ok=True)
    res = ctx.run_engine(vh, "record", [{"workload": workload}],
                         opts={"workload": workload, "outdir": d, "dense": int(dense)}, tag=tag + "-record")
    if len(res) != 1 or not res[0].get("ok"):
        raise verif.ToolError("recording the %s workload failed: %s" % (workload, res[:1]))
    return d, res[0]["obs"]


def plans(ctx, d, tag, exhaustive=6, cap=6000, samples=8):
    r = ctx.tlc("LinearFileCrash", "MC_LinearFileCrash.cfg", env={"CRASHLOG": os.path.join(d, "crashlog.ndjson")},
                subst={"Seed = 0": "Seed = %d" % (ctx.seed % 9973), "Exhaustive = 6": "Exhaustive = %d" % exhaustive,
                       "Cap = 6000": "Cap = %d" % cap, "Samples = 8": "Samples = %d" % samples},
                tag="crashplans-" + tag, timeout=900)
    ctx.require_actions(r, ["Step", "Crash"])
    return sort_items(r.replays)


def replay(ctx, vh, items, workload, dense, digest, tag):
    for it in items:
        it["workload"] = workload
        it["dense"] = int(dense)
    res = ctx.run_engine(vh, "replay", items, opts={"workload": workload, "dense": int(dense), "digest": digest},
                         tag=tag + "-replay", timeout=1500)
    if len(res) < len(items) and all(r.get("ok") for r in res):
        raise verif.ToolError("engine returned %d results for %d items" % (len(res), len(items)))
    return res


def i2s(ctx, d, tag):
    ok, at, r = ctx.validate_trace("Trace_LinearFile", "Trace_LinearFile.cfg", os.path.join(d, "trace.ndjson"),
                                   tag="trace-" + tag, timeout=900)
    n = sum(1 for _ in open(os.path.join(d, "trace.ndjson")))
    info = {"events": n, "accepted": ok}
    if ok:
        ctx.traces += 1
        return info
    inv = r.violated if r.violated and not r.violated.startswith("Deadlock") else None
    info["rejected_at"] = at
    if inv and inv in ("DurableRootsSound", "CleanReopen", "NothingNewerVisible", "FailOnlyBeforeFirstCommit"):
        # the recorded I/O sequence itself breaks a property-level invariant of the spec
        ctx.violation("C15:i2s:" + inv, "the recorded I/O log of the real storage violates %s of LinearFile" % inv,
                      {"input": {"t": "trace", "workload": tag}, "result": {"invariant": inv}})
    else:
        # different I/O shape than the spec's actions: not a verdict (the crash images decide)
        ctx.drift += 1
        ctx.log("I2S: trace of %s rejected at event %s (%s) - recorded as drift; S2I decides" % (tag, at, r.violated))
        info["drift"] = "rejected at %s (%s)" % (at, r.violated)
    return info


def run(ctx):
    vh = ctx.build("crash")
    dense = ctx.thorough

    if ctx.replay:
        case = json.load(open(ctx.replay))["case"]["input"]
        if "p1" in case:
            ctx.absorb(ctx.run_engine(vh, "recrash", [case], tag="recrash"))
            return
        if case.get("t") == "trace":
            d, obs = record(ctx, vh, case["workload"], dense, case["workload"])
            ctx.cov["i2s"] = i2s(ctx, d, case["workload"])
            return
        wl, dn = case.get("workload", "quick"), bool(case.get("dense", 0))
        d, obs = record(ctx, vh, wl, dn, wl)
        items = [it for it in plans(ctx, d, wl) if it["t"] == "commit"]
        items = sort_items(items + [{k: v for k, v in case.items() if k not in ("workload", "dense")}])
        ctx.absorb(replay(ctx, vh, items, wl, dn, obs["digest"], wl))
        return

    # ---- MC: the design admits no bad crash --------------------------------------------
    r = ctx.tlc("LinearFile", "MC_LinearFile_thorough.cfg" if ctx.thorough else "MC_LinearFile.cfg", timeout=1500)
    ctx.require_actions(r, MC_ACTIONS + (["Close"] if ctx.thorough else []))
    mutants = ["nosync1", "noalt", "nochecksum", "nogen", "noscrub", "dirtyappend"] if ctx.thorough else []
    rejected = []
    for m in mutants:
        mr = ctx.tlc("LinearFile", "MC_LinearFile_mut_%s.cfg" % m, allow_violation=True, coverage=False, timeout=600)
        if mr.violated != "Recoverable":
            raise verif.ToolError("non-vacuity self-test failed: mutated spec '%s' was not rejected by Recoverable (%s)"
                                  % (m, mr.violated))
        rejected.append(m)
    ctx.cov["spec_mutants_rejected"] = rejected
    if ctx.thorough:
        # reachability witness: a commit whose own head-set record is the only dirty data
        wr = ctx.tlc("LinearFile", "MC_LinearFile_barecommit.cfg", allow_violation=True, coverage=False, timeout=300)
        if wr.violated != "BareCommitReached":
            raise verif.ToolError("vacuity: no bare commit (commit without a preceding append) is reachable in the model")
        ctx.cov["bare_commit_reachable"] = True
    if ctx.thorough:
        # two crashes (crash, recover, commit, crash): passes only because open wipes an invalid slot
        ctx.tlc("LinearFile", "MC_LinearFile_recrash.cfg", coverage=False, timeout=900)
    ctx.cov["design_findings"] = [
        "StaleRootRevival (LinearFile.tla header): found by TLC with two crashes on the spec without Scrub "
        "(MC_LinearFile_mut_noscrub.cfg), reproduced on the real code by `vh-crash recrash`, fixed in /repo "
        "(Writer::open wipes a root slot that holds no valid root); see known_findings.d/crash.json"]

    # ---- two crashes on the real code: the TLC counterexample class, every lost/kept combination
    #      of the root's length prefix and body at both crashes
    combos = [{"p1": p1, "p2": p2, "variant": v} for v in range(6 if ctx.thorough else 3)
              for p1 in ([0, 0], [0, 1], [1, 0], [1, 1]) for p2 in ([0, 0], [0, 1], [1, 0], [1, 1])]
    rres = ctx.run_engine(vh, "recrash", combos, tag="recrash")
    if len(rres) < len(combos) and all(x.get("ok") for x in rres):
        raise verif.ToolError("recrash engine returned too few results")
    ctx.absorb(rres)
    ctx.cov["recrash_scenarios"] = len(combos)

    # ---- the recorded workload ---------------------------------------------------------
    workloads = [("thorough", 40000)] if ctx.thorough else [("quick", None)]
    if ctx.thorough:
        workloads.append(("bulk", 120))
    cov_w = {}
    first_items = None
    for wl, sample_n in workloads:
        d, obs = record(ctx, vh, wl, dense, wl)
        info = {"recording": obs}
        # I2S
        info["i2s"] = i2s(ctx, d, wl)
        # S2I
        items = plans(ctx, d, wl)
        nplans = sum(1 for it in items if it["t"] == "plan")
        if sample_n is not None and nplans > sample_n:
            # stratified by crash point: every point keeps plans, small points keep all of theirs
            by_pt = {}
            for it in items:
                if it["t"] == "plan":
                    by_pt.setdefault(it["pt"], []).append(it)
            keep, budget, left = set(), sample_n, len(by_pt)
            for pt in sorted(by_pt, key=lambda q: (len(by_pt[q]), q)):
                quota = max(1, budget // left)
                chosen = verif.sample(ctx.rng, by_pt[pt], quota)
                keep.update(id(x) for x in chosen)
                budget -= len(chosen)
                left -= 1
            items = [it for it in items if it["t"] != "plan" or id(it) in keep]
        res = replay(ctx, vh, items, wl, dense, obs["digest"], wl)
        ctx.absorb(res)
        rec = {"error": 0, "last": 0, "inprog": 0}
        for x in res:
            o = x.get("obs") or {}
            if x.get("ok") and "plan" in o:
                a = o["plan"]["allowed"]
                rec["error" if o["recovered"] == "error" else ("last" if o["recovered"] == a[0] else "inprog")] += 1
        info.update({"crash_plans_enumerated": nplans,
                     "crash_images_reopened": sum(1 for it in items if it["t"] == "plan"),
                     "crash_points": len({it["pt"] for it in items if it["t"] == "plan"}),
                     "commits": sum(1 for it in items if it["t"] == "commit"),
                     "recovered": rec})
        cov_w[wl] = info
        if first_items is None:
            first_items = (items, wl, obs, d)
    ctx.cov["workloads"] = cov_w

    # ---- binding self-tests ------------------------------------------------------------
    items, wl, obs, d = first_items
    commits = [it for it in items if it["t"] == "commit"]
    st = {}
    # (b) a plan whose allowed set is shifted to a commit that cannot be the recovered one must fail
    victim = next((it for it in reversed(items) if it["t"] == "plan" and it["allowed"][0] >= 2), None)
    if victim is None:
        raise verif.ToolError("self-test: no plan after the second commit")
    bad = dict(victim)
    bad["allowed"] = [0]          # "no commit completed": the recovered commit can never match
    sres = replay(ctx, vh, sort_items(commits + [bad]), wl, dense, obs["digest"], "selftest-allowed")
    if all(x.get("ok") for x in sres):
        raise verif.ToolError("binding self-test failed: a crash plan with a wrong allowed set was accepted")
    st["wrong_allowed_rejected"] = True
    if ctx.thorough:
        # (a) I2S: drop the first data sync of the trace -> must be rejected
        lines = open(os.path.join(d, "trace.ndjson")).read().splitlines()
        k = next(i for i, l in enumerate(lines) if '"ev":"sync"' in l)
        p = os.path.join(ctx.workdir, "trace-dropped-sync.ndjson")
        open(p, "w").write("\n".join(lines[:k] + lines[k + 1:]) + "\n")
        ok, at, _ = ctx.validate_trace("Trace_LinearFile", "Trace_LinearFile.cfg", p, tag="trace-selftest")
        if ok:
            raise verif.ToolError("binding self-test failed: trace without the data sync accepted")
        st["trace_without_sync_rejected_at"] = at
        # (c) S2I: pretend the code never issued its data syncs (drop them from the abstract log):
        #     TLC then enumerates plans that lose committed data under a kept root and the real
        #     reopen of such an image must be reported
        cl = [json.loads(l) for l in open(os.path.join(d, "crashlog.ndjson"))]
        keep, prev_root = [], False
        for e in cl:
            if e["ev"] == "s" and not prev_root and any(x["ev"] == "w" and x.get("root") for x in keep):
                continue   # a data sync after the first commit
            if e["ev"] == "w":
                prev_root = bool(e.get("root"))
            elif e["ev"] == "s":
                prev_root = False
            keep.append(e)
        d2 = os.path.join(ctx.workdir, "selftest-nosync")
        os.makedirs(d2, exist_ok=True)
        open(os.path.join(d2, "crashlog.ndjson"), "w").write("".join(json.dumps(e) + "\n" for e in keep))
        it2 = plans(ctx, d2, "selftest-nosync", exhaustive=0, cap=1, samples=2)
        pts = sorted({it["pt"] for it in it2 if it["t"] == "plan" and len(it["allowed"]) == 2 and it["allowed"][0] >= 2})[:3]
        it2 = [it for it in it2 if it["t"] == "commit" or (it["t"] == "plan" and it["pt"] in pts)]
        sres = replay(ctx, vh, it2, wl, dense, obs["digest"], "selftest-nosync")
        if all(x.get("ok") for x in sres):
            raise verif.ToolError("binding self-test failed: images that lose unsynced committed data were accepted")
        st["lost_data_under_kept_root_detected"] = sorted({x.get("key") for x in sres if not x.get("ok")})
    ctx.cov["selftest"] = st

    ctx.cov.update({
        "exhaustive": True,
        "constants": {"MC": "3 commits x <=2 appends x 1 crash (+1 commit after recovery), HdrLen 1, body 2, root 2"
                            if not ctx.thorough else
                            "3 commits x <=1 append x 1 crash (+1 commit after recovery), bodies {1,2}, roots {2,3}, 1 close",
                      "crash_plans": "exhaustive <= 6 unsynced writes (cap 6000/point), structured + 8 seeded beyond"},
    })
    ctx.assumptions += ASSUMPTIONS
