"""C25 — The VM never panics on any bytecode.

TABLE pattern (DESIGN §2.1) with VmBytecode.tla as enumerator and oracle: TLC model-checks the
abstract VM (total step relation over every Instruction variant x operand class) and prints
one REPLAY line per maximal behaviour (initial stack x lazily built program x lazily chosen
command context and I/O class, with the complete predicted final state).  vh-vmtable builds a
real Machine from each, executes RunState::step / RunState::run against a stub MachineIO
under catch_unwind and fails a case only when the real VM panics; every difference from the
predicted outcome is counted as drift.  A second TLC-enumerated dimension (SpecMod) wraps
programs into hand-built / corrupted ModuleV0 values (Machine::from_module + call_* entries)."""
import json
import verif

META = {
    "level": "exploration",
    "engine": "vmtable",
    "technique": "TLA+ spec VmBytecode (abstract policy VM, total step relation) model-checked with TLC; every TLC-enumerated program x stack x context x I/O class and every corrupted-module cell replayed into the real Machine/RunState (TABLE binding), outcome compared with the spec's prediction, panic = violation",
    "text": "TLC enumerates every instruction cell (all Instruction variants x operand classes: targets backward/next/skipping/one past the end/usize::MAX/unresolved, counts 1/2/usize::MAX, limits <= 0, defined/undefined names) from every initial stack of depth 0..2 over representatives of each Value kind, all 3- and 4-instruction trees over the control alphabet (SaveSP/RestoreSP/Call/Return/Block/End/Def/Get/QueryNext and backward, forward and skipping jumps: the shared call-state stack and the scope stack, including a Return that pops the root function scope) from stacks of depth 0..2, all 2-instruction prefix trees from stacks of depth 0..1 (thorough: also all 3-instruction trees from the empty stack and all 4-instruction trees over one cell per instruction variant), longer programs by seeded simulation, with command context and I/O result class (ok/empty/error/failing iterator) chosen at the first instruction that consults them.  The spec shows at model level that each (state, instruction) has a defined outcome among continue / policy exit / MachineErrorType.  Each behaviour is executed on the real VM step-wise and through run(); the predicted status, value stack, pc, context, locals, I/O log and step count are compared (drift).  Mutated ModuleV0 values (code-map spans at/after the end of the text or inside a character, labels out of range or missing, duplicate/dangling/empty definitions) are loaded with Machine::from_module and entered through run/call_action/call_command_policy/call_seal/call_open.  Decides: no panic.",
    "note": "Exploration, not proof: programs <= 2 (thorough 3, and 4 over a core alphabet) instructions exhaustively, to 5 by simulation; world of 2 structs/1 fact/1 enum/1 global; stub MachineIO.  Non-terminating programs are cut at the spec's step budget and then stepped 1500 more times for panics only.  Trusted: the stub I/O layer and the engine's value abstraction.",
}

BUDGET = {"MC_VmBytecode_L1.cfg": 4, "MC_VmBytecode_Ctrl.cfg": 12, "MC_VmBytecode_L2.cfg": 6, "MC_VmBytecode_L4core.cfg": 10, "MC_VmBytecode_L2q.cfg": 6,
          "MC_VmBytecode_L3.cfg": 8, "MC_VmBytecode_Sim.cfg": 12}

# Regressions found by this check on the tree as delivered (fixed since, see
# known_findings.d/vmtable.json); always replayed.
PINNED = [
    {"init": [], "prog": [["Next"]], "len": 1, "ctx": "unset", "io": "unset", "budget": 4,
     "exp": {"st": "err:InvalidInstruction", "s": [], "pc": 0, "cx": "unset", "loc": [], "log": [], "n": 1}},
    {"init": [], "prog": [["Last"]], "len": 1, "ctx": "unset", "io": "unset", "budget": 4,
     "exp": {"st": "err:InvalidInstruction", "s": [], "pc": 0, "cx": "unset", "loc": [], "log": [], "n": 1}},
    {"init": [], "prog": [["MStructSet", 1000000]], "len": 1, "ctx": "unset", "io": "unset", "budget": 4,
     "exp": {"st": "err:StackUnderflow", "s": [], "pc": 0, "cx": "unset", "loc": [], "log": [], "n": 1}},
    {"init": [["int", 1], ["ident", "a"], ["int", 1]], "prog": [["MStructSet", 1000000]], "len": 1,
     "ctx": "unset", "io": "unset", "budget": 4,
     "exp": {"st": "err:StackUnderflow", "s": [], "pc": 0, "cx": "unset", "loc": [], "log": [], "n": 1}},
]
PINNED_MOD = [
    {"prog": [["Def", "x"]], "len": 1, "ctx": "unset", "io": "unset", "budget": 8,
     "codemap": "empty-at-end", "labels": "zero", "defs": "ok", "entry": "raw",
     "exp": "runs", "base_outcome": "err:StackUnderflow"},
    {"prog": [["Def", "x"]], "len": 1, "ctx": "unset", "io": "unset", "budget": 8,
     "codemap": "none", "labels": "zero", "defs": "recursive", "entry": "raw",
     "exp": "runs", "base_outcome": "err:StackUnderflow"},
    {"prog": [["Def", "x"]], "len": 1, "ctx": "unset", "io": "unset", "budget": 8,
     "codemap": "none", "labels": "zero", "defs": "recursive-opt", "entry": "open",
     "exp": "runs", "base_outcome": "err:StackUnderflow"},
]


def tables(r):
    for p in r.prints:
        if p.startswith("TABLES "):
            return json.loads(p[7:])
    raise verif.ToolError("VmBytecode did not print its tables")


def to_case(b, tb, budget):
    cells, inits = tb["cells"], tb["inits"]
    return {
        "init": [inits[i - 1] for i in b["i"]],
        "prog": [cells[c - 1] if c else None for c in b["p"]],
        "len": b["l"], "ctx": b["c"], "io": b["o"], "budget": budget,
        "exp": {"st": b["st"], "s": b["s"], "pc": b["pc"], "cx": b["cx"], "loc": b["loc"],
                "log": b["log"], "n": b["n"]},
    }


def module_cases(cells, base_cases):
    """ModCells (TLC) x one short terminating program per distinct predicted outcome (TLC)."""
    progs, seen = [], set()
    for c in base_cases:
        st = c["exp"]["st"]
        loops = any(cell and cell[0] in ("Jump", "Branch", "Call", "Recall") and cell[1] == "t0"
                    for cell in c["prog"])
        if st == "budget" or loops or c["init"] or st in seen or None in c["prog"]:
            continue
        if any(cell[0] == "Exit" and cell[1] == "yield" for cell in c["prog"]):
            continue
        seen.add(st)
        progs.append(c)
    out = []
    for mc in cells:
        cell = mc["cell"]
        # the code-map axis is crossed with every program; the label/definition axes with the first
        for p in (progs if (cell["lb"] == "zero" and cell["df"] == "ok") else progs[:2]):
            out.append({"prog": p["prog"], "len": p["len"], "ctx": p["ctx"], "io": p["io"],
                        "budget": 8, "codemap": cell["cm"], "labels": cell["lb"], "defs": cell["df"],
                        "entry": cell["en"], "exp": mc["st"], "base_outcome": p["exp"]["st"]})
    return out, len(progs)


def run(ctx):
    vh = ctx.build("vmtable")
    ctx.level = "exploration"
    if ctx.replay:
        case = json.load(open(ctx.replay))["case"]["input"]
        sub = "module" if "codemap" in case else "bytecode"
        ctx.absorb(ctx.run_engine(vh, sub, [case]))
        ctx.cov.update({"evaluations": 1, "distinct_nontrivial": 1, "rule": "replay of one stored case"})
        return

    cfgs = ["MC_VmBytecode_L1.cfg", "MC_VmBytecode_Ctrl.cfg", "MC_VmBytecode_L2.cfg"]
    if ctx.thorough:
        cfgs += ["MC_VmBytecode_L3.cfg", "MC_VmBytecode_L4core.cfg"]
    cfgs.append("MC_VmBytecode_Sim.cfg")
    tb, per_cfg, total = None, {}, 0
    seen_ops, seen_ctx, seen_io, outcomes = set(), set(), set(), {}
    klasses, drift_kinds = set(), {}
    mod_base, good = [], None
    for n, cfg in enumerate(cfgs):
        if cfg == "MC_VmBytecode_Sim.cfg":
            # depth by seeded simulation: programs of 4-5 instructions (TLC checks every successor
            # of every state on a simulated trace, so `num` traces give a few hundred behaviours each)
            sim_n = max(1, (1600 if ctx.thorough else 48) // ctx.tlc_workers)
            r = ctx.tlc("VmBytecode", cfg, simulate=sim_n, depth=14, timeout=900, coverage=False)
            uniq = {json.dumps(b, sort_keys=True): b for b in r.replays}
            behaviours = [uniq[k] for k in sorted(uniq)]
        else:
            # no -coverage: it costs ~20 s of start-up on this spec; vacuity is checked on the
            # behaviours themselves (every variant, context and I/O class exercised)
            r = ctx.tlc("VmBytecode", cfg, timeout=1800, coverage=False)
            behaviours = r.replays
        tb = tb or tables(r)
        cs = [to_case(b, tb, BUDGET[cfg]) for b in behaviours]
        r.replays = behaviours = None
        if not cs:
            raise verif.ToolError("TLC emitted no behaviours for " + cfg)
        per_cfg[cfg] = len(cs)
        for c in cs:
            for cell in c["prog"]:
                if cell:
                    seen_ops.add(cell[0])
            seen_ctx.add(c["ctx"])
            seen_io.add(c["io"])
            e = c["exp"]
            outcomes[e["st"]] = outcomes.get(e["st"], 0) + 1
            # distinct non-trivial cells: (instruction that produced the final outcome, outcome,
            # kinds of the values left on the stack), where the outcome is not the trivial accept
            # — a normal exit or simply running off the end of the program
            if e["st"] not in ("exit:normal", "err:InvalidAddress"):
                cell = c["prog"][e["pc"]] if e["pc"] < c["len"] else None
                klasses.add((json.dumps(cell), e["st"], tuple(v[0] for v in e["s"])))
        if cfg == "MC_VmBytecode_L1.cfg":
            mod_base = [c for c in cs if not c["init"]]
            good = next(c for c in cs if c["exp"]["st"] == "exit:normal" and c["exp"]["s"])
        if not ctx.thorough and cfg == "MC_VmBytecode_L2.cfg" and len(cs) > 50000:
            # quick tier: TLC still enumerates (and checks) the whole tree; a seeded sample is replayed
            by_st = {}
            for c in cs:
                by_st.setdefault(c["exp"]["st"], []).append(c)
            keep = [c for v in by_st.values() for c in verif.sample(ctx.rng, v, 40)]   # every outcome stays
            cs = keep + verif.sample(ctx.rng, cs, 50000 - len(keep))
            per_cfg[cfg + ":replayed"] = len(cs)
        batch = (PINNED if n == 0 else []) + cs
        res = ctx.run_engine(vh, "bytecode", batch, timeout=1800, tag="bytecode-%d" % n)
        if len(res) < len(batch):
            ctx.log("engine returned %d results for %d cases" % (len(res), len(batch)))
        ctx.absorb(res)
        total += len(batch)
        for x in res:
            obs = x.get("obs") if isinstance(x.get("obs"), dict) else {}
            for d in obs.get("diff", []):
                k = d.split(" ")[0]
                drift_kinds[k] = drift_kinds.get(k, 0) + 1
        cs = batch = res = None
    ops = {c[0] for c in tb["cells"]}
    if ops - seen_ops:
        raise verif.ToolError("vacuous: instruction variants never executed: %s" % sorted(ops - seen_ops))
    for need, seen in ((("action", "seal", "open", "policy", "recall"), seen_ctx),
                       (("ok", "empty", "error", "itemerr"), seen_io)):
        if not set(need) <= seen:
            raise verif.ToolError("vacuous: classes never chosen: %s" % sorted(set(need) - seen))

    # hand-built / corrupted modules
    rm = ctx.tlc("VmBytecode", "MC_VmBytecode_Mod.cfg", timeout=300, coverage=False)
    if not rm.replays:
        raise verif.ToolError("TLC emitted no module cells")
    mods, nprogs = module_cases(rm.replays, mod_base)
    mres = ctx.run_engine(vh, "module", PINNED_MOD + mods, timeout=900, tag="module")
    ctx.absorb(mres)

    # binding self-test: a perturbed prediction must be noticed by the comparison
    bad = json.loads(json.dumps(good))
    bad["exp"]["s"] = bad["exp"]["s"][:-1]
    bad2 = json.loads(json.dumps(good))
    bad2["exp"]["st"] = "err:StackUnderflow"
    st = ctx.run_engine(vh, "bytecode", [good, bad, bad2], opts={"strict": 1}, tag="selftest")
    if len(st) != 3 or not st[0].get("ok") or st[1].get("ok") or st[2].get("ok"):
        raise verif.ToolError("binding self-test failed: %s" % [x.get("ok") for x in st])
    mgood = next(c for c in mods if c["exp"] not in ("runs",))
    mbad = dict(mgood, exp="err:CallStack")
    st = ctx.run_engine(vh, "module", [mgood, mbad], opts={"strict": 1}, tag="selftest-module")
    if len(st) != 2 or not st[0].get("ok") or st[1].get("ok"):
        raise verif.ToolError("module binding self-test failed: %s" % [x.get("ok") for x in st])

    mod_outcomes = {}
    for x in mres:
        obs = x.get("obs") if isinstance(x.get("obs"), dict) else {}
        s_ = obs.get("st", "panic")
        mod_outcomes[s_] = mod_outcomes.get(s_, 0) + 1
    for c in mods:
        if c["codemap"] != "none" or c["labels"] != "zero" or c["defs"] != "ok":
            klasses.add(("module", c["codemap"], c["labels"], c["defs"], c["entry"]))
    ctx.cov.update({
        "evaluations": total + len(mods) + len(PINNED_MOD),
        "distinct_nontrivial": len(klasses),
        "rule": "cell = (initial stack, lazily built program over all instruction cells, context, I/O class) "
                "or (code map, labels, definitions, entry point) around such a program; expected outcome = "
                "VmBytecode!Exec / EntryOutcome; the real outcome must not be a panic; differences from the "
                "prediction are drift.  distinct_nontrivial counts distinct (deciding instruction cell, outcome, kinds of "
                "the remaining stack values) with an outcome other than normal exit / running off the end, plus "
                "distinct mutated module cells",
        "behaviours_per_cfg": per_cfg,
        "instruction_cells": len(tb["cells"]),
        "instruction_variants": len({c[0] for c in tb["cells"]}),
        "initial_values": len(tb["inits"]),
        "predicted_outcomes": outcomes,
        "module_cells": len(rm.replays),
        "module_programs": nprogs,
        "module_cases": len(mods),
        "module_outcomes": mod_outcomes,
        "drift_by_field": drift_kinds,
        "pinned_regressions": len(PINNED) + len(PINNED_MOD),
        "exhaustive": True,
        "exhaustive_scope": ("programs <= 3 instructions within the stated stacks, 4 instructions over one cell per variant, all module cells; longer programs by simulation"
                             if ctx.thorough else "programs <= 2 instructions within the stated stacks (2-instruction tree: TLC exhaustive, seeded sample replayed) and all module cells; longer programs by simulation"),
        "selftest": "perturbed expected stack / status / entry outcome rejected in strict mode",
    })
    ctx.assumptions += [
        "stub MachineIO (ok / empty / error / failing-iterator) stands for every I/O layer",
        "non-terminating programs: cut at the spec's budget, then 1500 further steps for panics only",
        "world: struct S{a int,b bool}, T{a int}, fact F[k int]=>{v int}, enum E, global g",
    ]
