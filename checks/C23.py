"""C23 — untaken operands and branches are never evaluated.
Same generator and reference evaluator as C22 (PolicyLang.tla) in *effects mode*: every hole of
every production may be a panicking expression (todo(), test_fail()), a block with a failing
check, or a call of a logging foreign function; Eval never evaluates the untaken side, so exit
reason, value and foreign-call log of the real VM must equal Eval's (DESIGN §5 C23)."""
import verif
import vm_util

META = {
    "level": "translation_validation",
    "engine": "vm",
    "technique": "TLA+ spec PolicyLang in effects mode (short-circuit/branch semantics of Eval with a foreign-call log) explored with TLC; every program replayed through the real compiler and VM with a logging FFI module, outcome and call log compared with the spec's",
    "text": "TLC enumerates every production (&&, ||, optional-coalescing `or`, if, match with literal/binding/default arms, and all strict operators) with a panicking expression, a failing check or a logging foreign call in every operand/branch position (expression depth 1 exhaustive, statement forms exhaustive, deeper by seeded simulation). Eval evaluates only the taken operand/branch, so a skipped panic must not stop the program and a skipped foreign call must not appear in the log; the engine registers the FFI module `vt` (identity functions that log their arguments) and decides VIOLATION iff exit reason, value or the exact call log differ.",
    "note": "Bounds: depth 1 exhaustive for root types int, bool (thorough: + option[int], struct P, struct Emp), statement depth 1 for int, simulation 120 (thorough 3000) derivations of depth <= 3; <= 8 argument tuples per program. Evidence counts programs in which at least one effect atom was statically present but skipped on some argument tuple (skipped_effect_programs). Trusted: as C22; the harness FFI module logs in call order.",
}


def run(ctx):
    ctx.level = "translation_validation"
    vh = ctx.build("vm")
    if ctx.replay:
        pre, prog = vm_util.load_replay(ctx)
        ctx.absorb(vm_util.replay(ctx, vh, "C23", pre, [prog], "replay"))
        return
    vm_util.run_pinned(ctx, vh, "C23")
    runs = []
    sub = {"MC_RetIntBool": "MC_RetQuick"} if ctx.thorough else None
    pre, progs, _ = vm_util.generate(ctx, "MC_PolicyLang_fx.cfg", lemma=True, subst=sub)
    vm_util.require_ops(ctx, progs, ["and", "or", "coalesce", "if", "match", "todo", "fail", "ffi", "check"], "fx")
    runs.append(("fx", progs))
    _, progs2, _ = vm_util.generate(ctx, "MC_PolicyLang_fxstmt.cfg")
    vm_util.require_ops(ctx, progs2, ["ifs", "matchs", "check", "todo", "ffi"], "fxstmt")
    runs.append(("fxstmt", progs2))
    _, progs3, _ = vm_util.generate(ctx, "MC_PolicyLang_fxsim.cfg", simulate=3000 if ctx.thorough else 120, depth=400)
    runs.append(("fxsim", progs3))
    allres = []
    skipped = 0
    for tag, ps in runs:
        res = vm_util.replay(ctx, vh, "C23", pre, ps, tag)
        vm_util.check_rejection_rate(ctx, res)
        ctx.absorb(res)
        allres += res
        for p in ps:
            if p.get("typed") and p.get("fx", 0) > 0 and any(
                    e["exp"]["k"] == "val" and len(e["exp"]["log"]) < p["fx"] for e in p["envs"]):
                skipped += 1
    if skipped == 0:
        raise verif.ToolError("vacuous: no program skipped an effect atom")
    vm_util.finish_rejection(ctx)
    t = vm_util.tally(allres)
    ctx.cov.update({
        "programs": t["ran"],
        "disagreements_checked": t["envs"],
        "skipped_effect_programs": skipped,
        "foreign_calls_compared": t["foreign_calls"],
        "panics_matched": t["panics"],
        "by_run": {tag: len(ps) for tag, ps in runs},
        "tally": t,
        "selftest": vm_util.selftest_log(ctx, vh, "C23", pre, progs),
    })
    ctx.assumptions += [
        "the harness FFI functions are identities that append (function, arguments) to a log; the log order is the call order",
        "a program rejected by the real compiler is skipped and counted",
    ]
