"""C04 — Lazy merges: queries and actions see the same state (DESIGN §5 C04)."""
import graph_common

META = {
    "level": "model_checking",
    "engine": "graph",
    "technique": 'TLA+ specs Braid/MC_Braid and Replica model-checked with TLC (exhaustive small constants + seeded simulation); every emitted DAG / delivery history replayed step by step into real ClientState replicas and the projected state compared (spec->impl conformance)',
    "text": "Replica invariant LazyMergeEquiv (state at the collapse's top merge = N-way braid of the heads; its id = HelloId); replay: on every multi-head state an action's rule records all facts it can query and they must equal fact_cache(); the collapse must deliver no effects; hello_head must equal the pairwise fold id.",
    "note": 'Bounds: exhaustive DAGs <= 4 commands beyond init (5 in thorough), exhaustive histories for universe <= 3 / 5 steps / 2 replicas, seeded simulation to universe 8 / 16 steps / 3 replicas; STRETCH 14 (300 thorough). Audit policy stands in for real policies; memory-backed storage.',
}


def run(ctx):
    graph_common.full(ctx)
