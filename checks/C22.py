"""C22 — compiled policy code computes the language semantics.
PolicyLang.tla is the reference semantics (Eval) and the program generator; every derived program
is rendered to policy source, compiled by the real compiler, run in the real VM on every argument
tuple the spec chose, and the outcome compared with Eval's (DESIGN §5 C22)."""
import verif
import vm_util

META = {
    "level": "translation_validation",
    "engine": "vm",
    "technique": "TLA+ spec PolicyLang (reference evaluator Eval/Exec + typed grammar-derivation generator) explored with TLC; every generated program replayed through parser -> compiler -> VM and compared with the spec's outcome (spec->impl conformance, spec as oracle)",
    "text": "TLC enumerates every production of the typed grammar over every combination of atoms (expression depth 1: constants 0, +-1, i64::MIN, i64::MAX, parameters, literals of each type) and every statement form (let, check, debug_assert, if/else-if/else, match with bindings/default) and samples deeper derivations (depth 3, statement depth 2) by seeded simulation; for each program Eval gives the expected value or panic for a family of argument tuples including the i64 boundaries. The engine renders the tree to policy text, batches 200 functions per document, compiles with the real compiler and enters each function in the real VM; VIOLATION iff exit reason or returned value differ from Eval. TLC also checks the spec itself: generated programs are well typed, never stuck, results have the declared type, and the derivation actions agree with the set-valued grammar Exprs (count equality).",
    "note": "Bounds: depth 1 exhaustive per root type (quick: int, bool, option[int], struct P; thorough: all 13 types), statement depth 1 (thorough 2 by simulation), simulation 300 (thorough 4000) derivations of depth <= 3; <= 16 argument tuples per program (full product when it fits, a diagonal family otherwise). Trusted: the renderer (parenthesises every sub-expression, so operator precedence of the parser is not exercised), the spec's reading of the language (policy book semantics as implemented by the documented compiler behaviour), value conversion in the engine. Programs the compiler rejects are counted, never an alarm; the check fails as a tool error if more than 2% of spec-typed programs are rejected.",
}


def run(ctx):
    ctx.level = "translation_validation"
    vh = ctx.build("vm")
    if ctx.replay:
        pre, prog = vm_util.load_replay(ctx)
        ctx.absorb(vm_util.replay(ctx, vh, "C22", pre, [prog], "replay"))
        return
    vm_util.run_pinned(ctx, vh, "C22")
    runs = []
    sub = {"MC_RetQuick": "MC_RetAll"} if ctx.thorough else None
    pre, progs, r = vm_util.generate(ctx, "MC_PolicyLang.cfg", lemma=True, subst=sub)
    vm_util.require_ops(ctx, progs, vm_util.EXPR_OPS, "depth1")
    runs.append(("depth1", progs))
    sub = {"MC_RetInt": "MC_RetQuick"} if ctx.thorough else None
    _, progs2, _ = vm_util.generate(ctx, "MC_PolicyLang_stmt.cfg", subst=sub)
    vm_util.require_ops(ctx, progs2, vm_util.STMT_OPS, "stmt")
    runs.append(("stmt", progs2))
    _, progs3, _ = vm_util.generate(ctx, "MC_PolicyLang_sim.cfg", simulate=4000 if ctx.thorough else 150, depth=400)
    runs.append(("sim", progs3))
    total = 0
    allres = []
    for tag, ps in runs:
        res = vm_util.replay(ctx, vh, "C22", pre, ps, tag)
        vm_util.check_rejection_rate(ctx, res)
        ctx.absorb(res)
        allres += res
        total += len(ps)
    t = vm_util.tally(allres)
    ctx.cov.update({
        "programs": t["ran"],
        "programs_generated": total,
        "disagreements_checked": t["envs"],
        "exhaustive": False,
        "exhaustive_part": "expression depth 1 and statement depth 1 are exhaustive; deeper derivations by seeded simulation",
        "by_run": {tag: len(ps) for tag, ps in runs},
        "tally": t,
        "selftest": vm_util.selftest(ctx, vh, "C22", pre, progs),
    })
    ctx.assumptions += [
        "every sub-expression is parenthesised when rendered: the parser's operator precedence is not exercised",
        "a program rejected by the real parser/compiler is skipped and counted (the property speaks about accepted programs)",
        "int values are a*2^63+b with small b: arithmetic is exact near 0, i64::MIN and i64::MAX only",
    ]
