"""C22 — compiled policy code computes the language semantics.
PolicyLang.tla is the reference semantics (Eval) and the program generator; every derived program
is rendered to policy source, compiled by the real compiler, run in the real VM on every argument
tuple the spec chose, and the outcome compared with Eval's (DESIGN §5 C22)."""
import verif
import vm_util

META = {
    "level": "translation_validation",
    "engine": "vm",
    "technique": "TLA+ spec PolicyLang (reference evaluator Eval/Exec + typed grammar-derivation generator) explored with TLC; every generated program replayed through parser -> compiler -> VM and compared with the spec's outcome (spec->impl conformance, spec as oracle)",
    "text": "TLC enumerates every production of the typed grammar over every combination of atoms (expression depth 1: constants 0, +-1, i64::MIN, i64::MAX, parameters, literals of each type) and every statement form (let, check, debug_assert, if/else-if/else, match with bindings/default) every depth-2 nest of operators (outer operator x inner operator x side: the precedence/associativity table), every depth-2 nest of operand-holding constructs with an early `return` at every operand position, called from a second function that uses the result as a non-first operand (stack discipline of calls), and samples deeper derivations (depth 3, statement depth 2) by seeded simulation; for each program Eval gives the expected value or panic for a family of argument tuples including the i64 boundaries. The engine renders the tree to policy text, batches 200 functions per document, compiles with the real compiler and enters each function in the real VM; VIOLATION iff exit reason or returned value differ from Eval. TLC also checks the spec itself: generated programs are well typed, never stuck, results have the declared type, and the derivation actions agree with the set-valued grammar Exprs (count equality).",
    "note": "Bounds: depth 1 exhaustive per root type (quick: int, bool, option[int], struct P; thorough: all 13 types), statement depth 1 (thorough 2 by simulation), simulation 150 (thorough 5000, 4 workers) derivations of depth <= 3; <= 16 argument tuples per program (full product when it fits, a diagonal family otherwise). Trusted: the renderer (full parentheses, and a second pass with minimal parentheses according to the documented precedence table), the spec's reading of the language (policy book semantics as implemented by the documented compiler behaviour), value conversion in the engine. Programs the compiler rejects are counted, never an alarm; the check fails as a tool error if more than 2% of spec-typed programs are rejected.",
}


def run(ctx):
    ctx.level = "translation_validation"
    vh = ctx.build("vm")
    if ctx.replay:
        pre, prog = vm_util.load_replay(ctx)
        ctx.absorb(vm_util.replay(ctx, vh, "C22", pre, [prog], "replay"))
        return
    vm_util.run_pinned(ctx, vh, "C22")
    runs = []
    sub = {"MC_RetQuick": "MC_RetAll"} if ctx.thorough else None
    pre, progs, r = vm_util.generate(ctx, "MC_PolicyLang.cfg", lemma=True, subst=sub)
    vm_util.require_ops(ctx, progs, vm_util.EXPR_OPS, "depth1")
    runs.append(("depth1", progs))
    sub = {"MC_RetInt": "MC_RetQuick"} if ctx.thorough else None
    _, progs2, _ = vm_util.generate(ctx, "MC_PolicyLang_stmt.cfg", subst=sub)
    vm_util.require_ops(ctx, progs2, vm_util.STMT_OPS, "stmt")
    runs.append(("stmt", progs2))
    _, progs4, _ = vm_util.generate(ctx, "MC_PolicyLang_prec.cfg")
    runs.append(("prec", progs4))
    _, progs5, _ = vm_util.generate(ctx, "MC_PolicyLang_ret.cfg")
    vm_util.require_ops(ctx, progs5, ["return", "call:saturating_add", "call:h_pick", "struct", "match"], "ret")
    if not any("caller" in p for p in progs5):
        raise verif.ToolError("ret configuration emitted no caller/callee pairs")
    runs.append(("ret", progs5))
    _, progs3, _ = vm_util.generate(ctx, "MC_PolicyLang_sim.cfg", simulate=5000 if ctx.thorough else 150, depth=400)
    runs.append(("sim", progs3))
    total = 0
    allres = []
    for tag, ps in runs:
        res = vm_util.replay(ctx, vh, "C22", pre, ps, tag)
        vm_util.check_rejection_rate(ctx, res)
        ctx.absorb(res)
        allres += res
        total += len(ps)
    # the same trees written with only the parentheses the documented precedence requires:
    # the parser's precedence/associativity table becomes part of the conformance
    for tag, ps in runs:
        if tag in ("depth1", "sim", "prec"):
            res = vm_util.replay(ctx, vh, "C22", pre, ps, tag + "-minparens", parens="min")
            vm_util.check_rejection_rate(ctx, res)
            ctx.absorb(res)
            allres += res
    vm_util.finish_rejection(ctx)
    t = vm_util.tally(allres)
    ctx.cov.update({
        "programs": t["ran"],
        "programs_generated": total,
        "disagreements_checked": t["envs"],
        "exhaustive": False,
        "exhaustive_part": "expression depth 1 and statement depth 1 are exhaustive; deeper derivations by seeded simulation",
        "by_run": {tag: len(ps) for tag, ps in runs},
        "tally": t,
        "selftest": vm_util.selftest(ctx, vh, "C22", pre, progs),
    })
    ctx.assumptions += [
        "each tree is rendered fully parenthesised and (depth 1, simulation) with minimal parentheses per the documented precedence: or < &&,|| < ==,!= < <,>,<=,>=,is < ! < substruct,as < .field",
        "a program rejected by the real parser/compiler is skipped and counted (the property speaks about accepted programs)",
        "int values are a*2^63+b with small b: arithmetic is exact near 0, i64::MIN and i64::MAX only",
    ]
