"""C38 — AFC channel keys agree only for matching parameters.
TABLE: CryptoBinding.tla (scheme afcuni: HPKE-auth(author, peer, info = parent || seal_id || open_id ||
label) plus the role model Holds/Needs/HandlerAllows) enumerates parameter changes and role
attempts; vh-crypto applies each to the real key derivation and afc-util handlers (DESIGN §5 C38)."""
import json
import verif
import crypto_util as cu

META = {
    "level": "exploration",
    "engine": "crypto",
    "technique": "TLA+ spec CryptoBinding (symbolic HPKE term of the AFC uni channel + role model; TLC checks accept <=> nothing changed, NoBothEnds, OnlyRightful) as cell enumerator and oracle; every TLC behaviour applied to real UniSecrets/UniSealKey/UniOpenKey and to afc::create_uni_channel + Handler::uni_channel_created/received over key stores (TABLE pattern)",
    "text": "TLC enumerates every sequence of <= 2 (thorough 3) steps over: a different parent command, label, seal id, open id, author key pair, peer key pair on the receiving side; seal/open ids swapped; open id := seal id; first/middle/last byte of the encapsulation modified, encapsulation truncated/extended — including restoring sequences (swap twice, extend+truncate) — and the role attempts {author, peer, outsider} x {seal end, open end} x {first, second attempt}. Decides: the key the peer derives opens the author's message (same associated data) iff no parameter changed, on the crypto API path and on the FFI+handler path; a device obtains a working end exactly when the model's CanDerive holds (author: seal end once; peer: open end), hence never both.",
    "note": "Exploration level. Channel messages are sealed/opened with identical AuthData on both sides so that key agreement alone decides. The author secret is consumed by uni_channel_created (second attempt must fail). UniOpenKey::from_author_secret exists at the crypto API level (type-level misuse by the author's own process) and is outside the handler-level claim.",
}


def run(ctx):
    ctx.level = "exploration"
    vh = ctx.build("crypto")
    opts = {"inst": 4 if ctx.thorough else 2}
    if ctx.replay:
        case = json.load(open(ctx.replay))["case"]["input"]
        res = ctx.run_engine(vh, "afckeys", [case], opts=opts)
        ctx.absorb(res)
        cu.finish_cov(ctx, [case], res)
        return
    if ctx.thorough:
        # role invariants are part of the thorough config too
        cells = cu.cells_for(ctx, "afcuni", thorough_depth=3)
    else:
        cells = cu.cells_for(ctx, "afcuni")
    roles = [b for b in cells if b["ops"] and b["ops"][0]["op"] == "role"]
    if len(roles) != 12 or sum(1 for b in roles if b["accept"]) != 3:
        raise verif.ToolError("role cells missing or unexpected: %d" % len(roles))
    for comp in ("parent", "label", "seal_id", "open_id", "author", "peer"):
        if not any(o["op"] == "replace" and o["a"] == comp for b in cells for o in b["ops"]):
            raise verif.ToolError("vacuous enumeration: %s never replaced" % comp)
    res = ctx.run_engine(vh, "afckeys", cells, opts=opts)
    if len(res) != len(cells):
        raise verif.ToolError("engine returned %d results for %d cells" % (len(res), len(cells)))
    ctx.absorb(res)
    tam = [b for b in cells if b not in roles]
    st = cu.selftest(ctx, vh, "afckeys", tam, opts)
    # role self-test: claim that the outsider may obtain the open end / the author may not seal
    r1 = dict(next(b for b in roles if b["ops"][0]["a"] == "outsider_open"))
    r1["accept"] = True
    r2 = dict(next(b for b in roles if b["ops"][0]["a"] == "author_seal" and b["ops"][0]["b"] == 0))
    r2["accept"] = False
    st2 = ctx.run_engine(vh, "afckeys", [r1, r2], opts=opts, tag="selftest-roles")
    if len(st2) != 2 or st2[0].get("ok") or st2[1].get("ok"):
        raise verif.ToolError("binding self-test failed: perturbed role expectations accepted")
    cu.finish_cov(ctx, cells, res, {
        "role_cells": len(roles),
        "selftest": st + "; perturbed role expectations reported",
        "samples": [next(b for b in tam if len(b["ops"]) == 1), roles[3],
                    next(b for b in tam if b["accept"] and b["ops"])],
    })
    ctx.assumptions += [
        "ideal HPKE in the spec; DHKEM-P256/HKDF/AES-GCM exercised on the enumerated cells only",
        "a 'working end' is one that interoperates with the true other end (seals what the true opener opens / opens what the true sealer sealed)",
    ]
