"""C47 — C string output never overflows its buffer.
MC CStrWriter.tla (all buffer sizes x fragment sequences) + S2I replay of every behaviour into
aranya_capi_core::write_c_str with guard bytes (DESIGN §5 C47)."""
import json
import verif


def run(ctx):
    vh = ctx.build("small")
    if ctx.replay:
        case = json.load(open(ctx.replay))["case"]["input"]
        ctx.absorb(ctx.run_engine(vh, "cstr", [case]))
        return
    cfg = "MC_CStrWriter_thorough.cfg" if ctx.thorough else "MC_CStrWriter.cfg"
    r = ctx.tlc("CStrWriter", cfg, timeout=900)
    ctx.require_actions(r, ["Write", "Finish"])
    beh = r.replays
    if not beh:
        raise verif.ToolError("TLC emitted no behaviours")
    res = ctx.run_engine(vh, "cstr", beh)
    if len(res) != len(beh):
        raise verif.ToolError("engine returned %d results for %d behaviours" % (len(res), len(beh)))
    ctx.absorb(res)
    # binding self-test: a perturbed expectation must be noticed by the engine
    bad = dict(next(b for b in beh if b["ok"]))
    bad["ok"] = False
    st = ctx.run_engine(vh, "cstr", [bad], tag="selftest")
    if st[0].get("ok"):
        raise verif.ToolError("binding self-test failed: perturbed expectation accepted")
    ctx.cov.update({
        "exhaustive": True,
        "constants": open(verif.TLA + "/" + cfg).read().split("CONSTANTS")[1].split("INVARIANTS")[0].split(),
        "behaviours_replayed": len(beh),
        "nontrivial_overflowing": sum(1 for b in beh if not b["ok"]),
        "selftest": "perturbed 'ok' rejected",
    })
    ctx.assumptions += ["Display impl issues one write_str per fragment (fragment boundaries are real)",
                        "guard zones of 16 bytes on both sides detect out-of-buffer writes"]
