"""C47 — C string output never overflows its buffer.
MC CStrWriter.tla (all buffer sizes x fragment sequences) + S2I replay of every behaviour into
aranya_capi_core::write_c_str with guard bytes (DESIGN §5 C47)."""
import json
import verif

META = {
    "level": "model_checking",
    "engine": "small",
    "technique": "TLA+ spec CStrWriter model-checked with TLC; every TLC behaviour replayed into write_c_str (spec->impl conformance)",
    "text": "TLC enumerates every buffer size x fragment sequence of the CStrWriter spec (invariants NoOverflow, FinishCorrect, NwExact); every maximal behaviour is replayed through the real write_c_str with guard bytes around the caller buffer and the outcome compared with the property's predicate and the spec's expectation. Exhaustive within the stated constants.",
    "note": "Bounds: sizes 0..6 (thorough 0..12), <=3 (4) fragments of length 0..4 (5). Trusts the harness Display impl to issue one write_str per fragment and the 16-byte guard zones to reveal out-of-buffer writes.",
}


def run(ctx):
    vh = ctx.build("small")
    if ctx.replay:
        case = json.load(open(ctx.replay))["case"]["input"]
        ctx.absorb(ctx.run_engine(vh, "cstr", [case]))
        return
    cfg = "MC_CStrWriter_thorough.cfg" if ctx.thorough else "MC_CStrWriter.cfg"
    r = ctx.tlc("CStrWriter", cfg, timeout=900)
    ctx.require_actions(r, ["Write", "Finish"])
    beh = r.replays
    if not beh:
        raise verif.ToolError("TLC emitted no behaviours")
    res = ctx.run_engine(vh, "cstr", beh)
    if len(res) != len(beh):
        raise verif.ToolError("engine returned %d results for %d behaviours" % (len(res), len(beh)))
    ctx.absorb(res)
    # binding self-test: a perturbed expectation must be noticed by the engine
    bad = dict(next(b for b in beh if b["ok"]))
    bad["ok"] = False
    st = ctx.run_engine(vh, "cstr", [bad], tag="selftest")
    if st[0].get("ok"):
        raise verif.ToolError("binding self-test failed: perturbed expectation accepted")
    ctx.cov.update({
        "exhaustive": True,
        "constants": open(verif.TLA + "/" + cfg).read().split("CONSTANTS")[1].split("INVARIANTS")[0].split(),
        "behaviours_replayed": len(beh),
        "nontrivial_overflowing": sum(1 for b in beh if not b["ok"]),
        "selftest": "perturbed 'ok' rejected",
    })
    ctx.assumptions += ["Display impl issues one write_str per fragment (fragment boundaries are real)",
                        "guard zones of 16 bytes on both sides detect out-of-buffer writes"]
