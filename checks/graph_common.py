"""Shared by the graph-layer checks (C01–C11, C19): the same TLC enumerations (cached, they do
not depend on /repo) are replayed by the `graph` engine and every check reports the failures
whose key names its own property (`ctx.absorb(res, only_own=True)`)."""
import copy
import json
import verif


def _salt(ctx):
    return {"EmitSalt = 0": "EmitSalt = %d" % (ctx.seed % 997)}


def braid_suite(ctx, vh):
    """MC of tla/MC_Braid.tla (design level: AlgBraid = RefBraid, C02/C03/C05 invariants) and
    S2I replay of the emitted DAGs.  Returns the list of engine results."""
    out = []
    n4 = ctx.tlc("MC_Braid", "MC_Braid_N4.cfg", timeout=1500, cache=True, subst=_salt(ctx))
    ctx.require_actions(n4, ["AddBasic", "AddMerge"])
    facts = ctx.tlc("MC_Braid", "MC_Braid_facts.cfg", timeout=900, cache=True)
    m0 = ctx.tlc("MC_Braid", "MC_Braid_m0.cfg", timeout=900, cache=True)
    quiet = ctx.tlc("MC_Braid", "MC_Braid_quiet.cfg", timeout=1500, cache=True)
    cases = n4.replays + facts.replays + quiet.replays
    ctx.cov["braid_cases"] = {"N4_sampled": len(n4.replays), "N4_states": n4.states,
                              "facts_N3": len(facts.replays), "quiet_N4": len(quiet.replays), "mergetag0_N3": len(m0.replays)}
    if not cases or not m0.replays:
        raise verif.ToolError("MC_Braid emitted no cases")
    # faults: for one multi-head case in four, a read fault at the k-th storage fetch of the commit
    # must leave the committed state untouched (or the commit succeeds completely)
    out += ctx.run_engine(vh, "braid", cases, opts={"twin": 1, "index": 1, "faults": 1, "faults_every": 4}, tag="braid")
    out += ctx.run_engine(vh, "braid", m0.replays, opts={"twin": 1, "index": 1, "merge_tag": 0}, tag="braid-m0")
    # priority extremes: the spec's priorities 0 < 1 concretised as u32::MAX-1 < u32::MAX (next to Finalize)
    pm = [c for c in n4.replays if any(x["kind"] == "fin" for x in c["cmds"])]
    out += ctx.run_engine(vh, "braid", verif.sample(ctx.rng, pm, 6000), opts={"twin": 1, "prio_max": 1}, tag="braid-priomax")
    # STRETCH: chains of up to 14 commands cross MIN_SKIP_GAP (10) so skip lists are built
    sub = verif.sample(ctx.rng, n4.replays, 700 if not ctx.thorough else 3000)
    out += ctx.run_engine(vh, "braid", sub, opts={"twin": 1, "index": 1, "stretch": 14}, tag="braid-stretch")
    # ladder family: one convergence point per rung in a single braid (> 768: ConvergenceMap spill,
    # > 256 braided commands: BraidResult spill); decided on C02's own predicate and twin equality
    ladders = [{"rungs": r, "side": s, "side_mode": m} for r in (3, 90, 300, 513) for s in (1, 2, 4) for m in (0, 1, 2)]
    ladders += [{"rungs": 900, "side": 2, "side_mode": m} for m in (0, 1, 2)]
    # fan family: many convergence points at ONE max cut (overlapping spilled blocks)
    ladders += [{"fan": f} for f in (3, 130, 300, 600)]
    # star family (C19/C04 beyond 10 heads): every replica lacking one sibling must sync
    ladders += [{"star": w} for w in (2, 3, 10, 11, 12, 40, 130)]
    if ctx.thorough:
        ladders += [{"rungs": r, "side": s, "side_mode": m} for r in (769, 1025, 1500) for s in (2, 40) for m in (0, 1, 2)]
        ladders += [{"rungs": 2500, "side": 3, "side_mode": m} for m in (0, 1, 2)]
        ladders += [{"fan": f} for f in (513, 1100)]
    out += ctx.run_engine(vh, "braid", ladders, opts={"faults": 1}, tag="ladder", timeout=1800)
    ctx.cov["ladder_cases"] = ladders
    if ctx.thorough:
        n5 = ctx.tlc("MC_Braid", "MC_Braid_N5.cfg", timeout=3000, cache=True, subst=_salt(ctx))
        ctx.cov["braid_cases"]["N5_sampled"] = len(n5.replays)
        out += ctx.run_engine(vh, "braid", n5.replays, opts={"twin": 1, "index": 1}, tag="braid-n5", timeout=3000)
        # deep STRETCH: > 256 braided commands (BraidResult spill), > 100-command segments
        deep = verif.sample(ctx.rng, n4.replays, 60)
        out += ctx.run_engine(vh, "braid", deep, opts={"twin": 1, "index": 1, "stretch": 300}, tag="braid-deep", timeout=3000)
    # the same cases on the REAL file-backed storage (FileManager, LibcSpill): layout
    # independence across storage back ends (C01/C03), spill files on disk (C02)
    vhf = ctx.build("graph", features="filestore")
    fsub = verif.sample(ctx.rng, n4.replays, 150 if not ctx.thorough else 2000)
    out += ctx.run_engine(vhf, "braid", fsub, opts={"twin": 1, "index": 1}, tag="braid-file", timeout=3000)
    out += ctx.run_engine(vhf, "braid", verif.sample(ctx.rng, n4.replays, 40 if not ctx.thorough else 300),
                          opts={"twin": 1, "index": 1, "stretch": 14}, tag="braid-file-stretch", timeout=3000)
    fl = [{"rungs": 300, "side": 2, "side_mode": 1}, {"fan": 300}, {"star": 12}]
    if ctx.thorough:
        fl += [{"rungs": 900, "side": 2, "side_mode": m} for m in (0, 1, 2)] + [{"fan": 600}]
    out += ctx.run_engine(vhf, "braid", fl, tag="ladder-file", timeout=3000)
    ctx.cov["file_backed_cases"] = len(fsub) + len(fl)
    # binding self-test: a perturbed expectation must be rejected
    victim = next((c for c in n4.replays if len(c["seq"]) >= 3 and not c["err"]), None)
    if victim is None:
        raise verif.ToolError("no case suitable for the self-test")
    bad = copy.deepcopy(victim)
    bad["seq"][-1], bad["seq"][-2] = bad["seq"][-2], bad["seq"][-1]
    bad["facts"]["seq"] = bad["seq"]
    st = ctx.run_engine(vh, "braid", [bad], tag="selftest")
    if st[0].get("ok") or not st[0].get("key", "").startswith("C03:"):
        raise verif.ToolError("binding self-test failed: perturbed reference order accepted")
    ctx.cov["selftest"] = "perturbed reference order rejected (C03:seq)"
    return out


def hist_suite(ctx, vh):
    """MC of tla/Replica.tla (exhaustive tiny config + the C10 first-contact config) and seeded
    simulation of the large config; every emitted behaviour is replayed on real replicas."""
    out = []
    mc = ctx.tlc("Replica", "MC_Replica_4.cfg" if ctx.thorough else "MC_Replica.cfg", timeout=3000, cache=True)
    ctx.require_actions(mc, ["ActBegin", "ActPublish", "Deliver", "DeliverInit", "DeliverBadMerge", "Commit", "SyncAll"]
                        + (["ActMerge"] if ctx.thorough else []))
    ini = ctx.tlc("Replica", "MC_Replica_init.cfg", timeout=900, cache=True)
    ctx.require_actions(ini, ["DeliverBad", "DeliverInit"])
    poi = ctx.tlc("Replica", "MC_Replica_poison.cfg", timeout=1500, cache=True)
    ctx.require_actions(poi, ["DeliverPoison", "Flush", "Commit", "Deliver"])
    n = 60 if ctx.thorough else 12          # traces per worker; TLC emits every sibling of the last step
    sim = ctx.tlc("Replica", "Sim_Replica.cfg", timeout=3000, simulate=n, depth=120, cache=True, workers=8)
    simb = sorted({json.dumps(b, sort_keys=True) for b in sim.replays})
    simb = [json.loads(x) for x in simb]
    # vacuity guard for the simulation (no coverage statistics in -simulate mode): measured op counts
    ops = {}
    for b in simb:
        for st_ in b["steps"]:
            k = st_["op"] + ("+collapse" if st_["op"] == "action" and st_["merges"] else "")
            k += (":" + st_["res"]) if st_["op"] == "commit" else ""
            ops[k] = ops.get(k, 0) + 1
    ctx.cov["simulated_step_counts"] = ops
    need = ["action", "action+collapse", "action_fail", "deliver", "poison", "flush", "commit:ok", "commit:ConcurrentTransaction"]
    missing = [k for k in need if not ops.get(k)]
    if missing:
        raise verif.ToolError("vacuous simulation: step kinds never generated: %s" % missing)
    rare = [b for b in mc.replays if any(st_["op"] == "badmerge" for st_ in b["steps"])]
    rest = [b for b in mc.replays if not any(st_["op"] == "badmerge" for st_ in b["steps"])]
    mcb = rare + (verif.sample(ctx.rng, rest, 40000) if ctx.thorough else verif.sample(ctx.rng, rest, 8000))
    simb = simb if ctx.thorough else verif.sample(ctx.rng, simb, 4000)
    ctx.cov["hist_behaviours"] = {"mc_exhaustive_total": len(mc.replays), "mc_replayed": len(mcb),
                                  "init_shapes": len(ini.replays), "poison_exhaustive": len(poi.replays), "simulated_replayed": len(simb),
                                  "mc_states": mc.states}
    if not mcb or not simb or not ini.replays:
        raise verif.ToolError("Replica emitted no behaviours")
    out += ctx.run_engine(vh, "hist", mcb, opts={"hello": 1, "reps": 2}, tag="hist-mc", timeout=1800)
    out += ctx.run_engine(vh, "hist", ini.replays, opts={"hello": 1, "reps": 2}, tag="hist-init")
    # C06: a rejected command (and a child naming it) at every position of every small transaction
    out += ctx.run_engine(vh, "hist", poi.replays, opts={"hello": 1, "reps": 2, "boot_all": 1}, tag="hist-poison", timeout=1800)
    out += ctx.run_engine(vh, "hist", simb, opts={"hello": 1, "reps": 3, "boot_all": 1}, tag="hist-sim", timeout=1800)
    # pinned regressions (histories that once failed)
    import glob, os
    pins = sorted(glob.glob(os.path.join(verif.PINNED, "C0*.json")) + glob.glob(os.path.join(verif.PINNED, "C19*.json")))
    for p in pins:
        case = json.load(open(p))["case"]
        if "steps" in case["input"]:
            out += ctx.run_engine(vh, "hist", [case["input"]], opts=case.get("opts", {}), tag="pin-" + os.path.basename(p)[:-5])
    # binding self-test: a perturbed expected view must be rejected
    victim = next((b for b in mcb if any(s["op"] == "commit" and s["res"] == "ok" and len(s["view"]["seq"]) >= 2 for s in b["steps"])), None)
    if victim is None:
        raise verif.ToolError("no behaviour suitable for the self-test")
    bad = copy.deepcopy(victim)
    for s in bad["steps"]:
        if s["op"] == "commit" and s["res"] == "ok" and len(s["view"]["seq"]) >= 2:
            s["view"]["seq"] = list(reversed(s["view"]["seq"]))
            break
    st = ctx.run_engine(vh, "hist", [bad], opts={"hello": 1, "reps": 2}, tag="selftest-hist")
    if st[0].get("ok"):
        raise verif.ToolError("binding self-test failed: perturbed expected view accepted")
    ctx.cov["selftest_hist"] = "perturbed expected view rejected (%s)" % st[0].get("key")
    return out


def full(ctx, notes=None):
    """What every graph-layer check runs: both suites; each check reports its own keys."""
    vh = ctx.build("graph")
    if ctx.replay:
        case = json.load(open(ctx.replay))["case"]
        sub = "hist" if "steps" in case["input"] else "braid"
        res = ctx.run_engine(vh, sub, [case["input"]], opts=case.get("opts", {}))
        ctx.absorb(res, only_own=True)
        return
    res = braid_suite(ctx, vh) + hist_suite(ctx, vh)
    ctx.absorb(res, only_own=True)
    ctx.cov["exhaustive"] = False
    ctx.cov["constants"] = {
        "MC_Braid": "N=4 all kinds (58 789 DAGs), N=3 with fact ops, N=3 merge-ids-first; thorough N=5 {b0,fin}",
        "Replica MC": "2 replicas, 1 txn, universe<=3, 5 recorded steps, exhaustive histories",
        "Replica simulation": "3 replicas, 2 txns, universe<=8, 16 recorded steps, batches<=2, duplicates, orphans, poison, failing actions",
    }
    ctx.assumptions += ["audit policy semantics = Braid!Apply (harness/engines/graph/src/audit.rs)",
                        "structural ids: byte order equals the spec's id order (merge ids always after basic ids, except the MergeTag=0 config)",
                        "memory-backed linear storage (file-backed storage is C15's subject)"]


def replay_only(ctx, vh, sub):
    case = json.load(open(ctx.replay))["case"]
    res = ctx.run_engine(vh, sub, [case["input"]], opts=case.get("opts", {}))
    ctx.absorb(res, only_own=True)
