"""Shared by the graph-layer checks (C01–C11, C19): the same TLC enumerations (cached, they do
not depend on /repo) are replayed by the `graph` engine and every check reports the failures
whose key names its own property (`ctx.absorb(res, only_own=True)`)."""
import copy
import json
import verif


def _salt(ctx):
    return {"EmitSalt = 0": "EmitSalt = %d" % (ctx.seed % 997)}


def braid_suite(ctx, vh):
    """MC of tla/MC_Braid.tla (design level: AlgBraid = RefBraid, C02/C03/C05 invariants) and
    S2I replay of the emitted DAGs.  Returns the list of engine results."""
    out = []
    n4 = ctx.tlc("MC_Braid", "MC_Braid_N4.cfg", timeout=1500, cache=True, subst=_salt(ctx))
    ctx.require_actions(n4, ["AddBasic", "AddMerge"])
    facts = ctx.tlc("MC_Braid", "MC_Braid_facts.cfg", timeout=900, cache=True)
    m0 = ctx.tlc("MC_Braid", "MC_Braid_m0.cfg", timeout=900, cache=True)
    cases = n4.replays + facts.replays
    ctx.cov["braid_cases"] = {"N4_sampled": len(n4.replays), "N4_states": n4.states,
                              "facts_N3": len(facts.replays), "mergetag0_N3": len(m0.replays)}
    if not cases or not m0.replays:
        raise verif.ToolError("MC_Braid emitted no cases")
    out += ctx.run_engine(vh, "braid", cases, opts={"twin": 1, "index": 1}, tag="braid")
    out += ctx.run_engine(vh, "braid", m0.replays, opts={"twin": 1, "index": 1, "merge_tag": 0}, tag="braid-m0")
    # STRETCH: chains of up to 14 commands cross MIN_SKIP_GAP (10) so skip lists are built
    sub = verif.sample(ctx.rng, n4.replays, 700 if not ctx.thorough else 3000)
    out += ctx.run_engine(vh, "braid", sub, opts={"twin": 1, "index": 1, "stretch": 14}, tag="braid-stretch")
    if ctx.thorough:
        n5 = ctx.tlc("MC_Braid", "MC_Braid_N5.cfg", timeout=3000, cache=True, subst=_salt(ctx))
        ctx.cov["braid_cases"]["N5_sampled"] = len(n5.replays)
        out += ctx.run_engine(vh, "braid", n5.replays, opts={"twin": 1, "index": 1}, tag="braid-n5", timeout=3000)
        # deep STRETCH: > 256 braided commands (BraidResult spill), > 100-command segments
        deep = verif.sample(ctx.rng, n4.replays, 150)
        out += ctx.run_engine(vh, "braid", deep, opts={"twin": 1, "index": 1, "stretch": 300}, tag="braid-deep", timeout=3000)
    # binding self-test: a perturbed expectation must be rejected
    victim = next((c for c in n4.replays if len(c["seq"]) >= 3 and not c["err"]), None)
    if victim is None:
        raise verif.ToolError("no case suitable for the self-test")
    bad = copy.deepcopy(victim)
    bad["seq"][-1], bad["seq"][-2] = bad["seq"][-2], bad["seq"][-1]
    bad["facts"]["seq"] = bad["seq"]
    st = ctx.run_engine(vh, "braid", [bad], tag="selftest")
    if st[0].get("ok") or not st[0].get("key", "").startswith("C03:"):
        raise verif.ToolError("binding self-test failed: perturbed reference order accepted")
    ctx.cov["selftest"] = "perturbed reference order rejected (C03:seq)"
    return out


def replay_only(ctx, vh, sub):
    case = json.load(open(ctx.replay))["case"]
    res = ctx.run_engine(vh, sub, [case["input"]], opts=case.get("opts", {}))
    ctx.absorb(res, only_own=True)
