"""C37 — Encryption round-trips and is bound to its context.
TABLE: CryptoBinding.tla (schemes groupkey, sealedgk, pskseed, topicmsg, sealedtopic: the key
derivation / HPKE info / associated data terms as the code builds them) enumerates every tamper
sequence; vh-crypto applies each to the real seal/open primitives (DESIGN §5 C37)."""
import json
import verif
import crypto_util as cu

META = {
    "level": "exploration",
    "engine": "crypto",
    "technique": "TLA+ spec CryptoBinding (symbolic binding terms; TLC checks accept <=> nothing changed) as cell enumerator and accept/reject oracle; every TLC behaviour applied to real GroupKey seal/open, seal/open_group_key, seal/open_psk_seed, TopicKey seal/open_message, seal/open_topic_key (TABLE pattern)",
    "text": "For group keys, sealed group keys, sealed PSK seeds, topic-key messages and sealed topic keys TLC enumerates every sequence of <= 2 (thorough 3) tamper steps over the context components (label: different and extended; parent command; author key; group; sender and recipient/receiver keys; topic; version; the symmetric key itself), the ciphertext byte classes (first/middle/last byte of nonce, body, tag, encapsulation; truncated/extended tag or encapsulation) and plaintext lengths 0, 1, 16, 17, 48 (0..3 AEAD blocks) and 4097, including restoring sequences (extend + truncate). Decides: open returns exactly the sealed plaintext/key iff nothing changed; every other cell is an Err, never a different plaintext.",
    "note": "Exploration level. DefaultCipherSuite only (AES-256-GCM, HKDF-SHA512, DHKEM-P256). EncryptedGroupKey/EncryptedPskSeed are edited through their postcard form (layout 64+16 asserted). Flips of an empty body (plen 0) are inapplicable and skipped (counted as drift).",
}


def run(ctx):
    ctx.level = "exploration"
    vh = ctx.build("crypto")
    opts = {"inst": 4 if ctx.thorough else 2}
    if ctx.replay:
        case = json.load(open(ctx.replay))["case"]["input"]
        res = ctx.run_engine(vh, "enc", [case], opts=opts)
        ctx.absorb(res)
        cu.finish_cov(ctx, [case], res)
        return
    cells = cu.cells_for(ctx, "enc", plens=(0, 1, 16, 17, 48, 4097), thorough_depth=3)
    for sch, comp in (("groupkey", "label"), ("groupkey", "parent"), ("groupkey", "author"), ("sealedgk", "group"),
                      ("pskseed", "sender"), ("pskseed", "recipient"), ("topicmsg", "topic"), ("sealedtopic", "receiver")):
        if not any(b["scheme"] == sch and any(o["op"] == "replace" and o["a"] == comp for o in b["ops"]) for b in cells):
            raise verif.ToolError("vacuous enumeration: %s never has %s replaced" % (sch, comp))
    res = ctx.run_engine(vh, "enc", cells, opts=opts, timeout=1800)
    if len(res) != len(cells):
        raise verif.ToolError("engine returned %d results for %d cells" % (len(res), len(cells)))
    ctx.absorb(res)
    st = cu.selftest(ctx, vh, "enc", cells, opts)
    cu.finish_cov(ctx, cells, res, {
        "plaintext_lengths": [0, 1, 16, 17, 48, 4097],
        "selftest": st,
        "samples": [next(b for b in cells if b["scheme"] == "groupkey" and len(b["ops"]) == 2),
                    next(b for b in cells if b["scheme"] == "pskseed" and b["ops"]),
                    next(b for b in cells if b["accept"] and b["ops"])],
    })
    ctx.assumptions += [
        "ideal AEAD/HPKE/KDF in the spec; real primitives exercised on the enumerated cells only",
        "key pairs are atoms in the spec: 'replace sender/recipient' means the opener uses another key pair's half",
    ]
