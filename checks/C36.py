"""C36 — Wrapped keys are authenticated and bound to their type.
TABLE: CryptoBinding.tla (Scheme wrap: AEAD under the engine key with ad = H(alg id of the kind, key id)
and the ciphertext variant) enumerates every tamper sequence; vh-crypto applies each to real
DefaultEngine::wrap/unwrap for all six key kinds (DESIGN §5 C36)."""
import json
import verif
import crypto_util as cu

META = {
    "level": "exploration",
    "engine": "crypto",
    "technique": "TLA+ spec CryptoBinding (symbolic binding terms; TLC checks accept <=> nothing changed) as cell enumerator and accept/reject oracle; every TLC behaviour applied to real DefaultEngine wrap/unwrap over all six key kinds, modifications made on the serialized WrappedKey (TABLE pattern)",
    "text": "TLC enumerates every sequence of <= 2 (thorough 3) tamper steps over: unwrap with a different engine key; unwrap as each of the 5 other kinds; replaced key id; modification of the first/middle/last byte of the stored id, nonce, variant tag, ciphertext and tag of the serialized wrapped key. Each cell is run with every kind (AEAD, KEM decap, MAC, PRK, seed, signing) as the wrapped kind. Decides: the untouched wrapped key unwraps with the wrapping engine to a key with the same id that interoperates with the original (opens what the original sealed, equal MACs, equal PRK, original verifies its signatures); every other cell is an Err.",
    "note": "Exploration level. AEAD and MAC kinds have no public key type in aranya-crypto; the harness defines them with the exported `unwrapped!` macro. Two key *types* of the same kind (e.g. IdentityKey vs SigningKey) are not distinguished by the property and are not tested as 'other kind'. Serialized layout (postcard: len,id,nonce,variant,ciphertext,tag) is asserted; a layout change is a tool error, not a verdict.",
}


def run(ctx):
    ctx.level = "exploration"
    vh = ctx.build("crypto")
    opts = {"inst": 4 if ctx.thorough else 2}
    if ctx.replay:
        case = json.load(open(ctx.replay))["case"]["input"]
        res = ctx.run_engine(vh, "wrap", [case], opts=opts)
        ctx.absorb(res)
        cu.finish_cov(ctx, [case], res)
        return
    cells = cu.cells_for(ctx, "wrap", thorough_depth=3)
    for need in (("replace", "kind"), ("replace", "engine"), ("flip", "tag"), ("flip", "variant"), ("flip", "wid"),
                 ("flip", "nonce"), ("flip", "body")):
        if not any((o["op"], o["a"]) == need for b in cells for o in b["ops"]):
            raise verif.ToolError("vacuous enumeration: no %s %s step" % need)
    res = ctx.run_engine(vh, "wrap", cells, opts=opts)
    if len(res) != len(cells):
        raise verif.ToolError("engine returned %d results for %d cells" % (len(res), len(cells)))
    ctx.absorb(res)
    # self-test: wrap has no restoring sequences, so flip only a rejecting and the untouched cell
    rej = dict(next(b for b in cells if not b["accept"]))
    rej["accept"] = True
    acc = dict(next(b for b in cells if b["accept"]))
    acc["accept"] = False
    st = ctx.run_engine(vh, "wrap", [rej, acc], opts=opts, tag="selftest-wrap")
    if len(st) != 2 or st[0].get("ok") or st[1].get("ok"):
        raise verif.ToolError("binding self-test failed: perturbed expectations accepted")
    cu.finish_cov(ctx, cells, res, {
        "kinds": ["aead", "decap", "mac", "prk", "seed", "signing"],
        "selftest": "flipped expectation of a rejecting and of the untouched cell both reported",
        "samples": [cells[0], next(b for b in cells if any(o["a"] == "kind" for o in b["ops"])),
                    next(b for b in cells if any(o["op"] == "flip" for o in b["ops"]))],
    })
    ctx.assumptions += [
        "ideal AEAD in the spec; the real AES-256-GCM wrapping is exercised on the enumerated cells only",
        "the storage attacker edits the postcard form of WrappedKey",
    ]
