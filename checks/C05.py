"""C05 — Concurrent finalize commands are always detected (DESIGN §5 C05)."""
import graph_common

META = {
    "level": "model_checking",
    "engine": "graph",
    "technique": 'TLA+ specs Braid/MC_Braid and Replica model-checked with TLC (exhaustive small constants + seeded simulation); every emitted DAG / delivery history replayed step by step into real ClientState replicas and the projected state compared (spec->impl conformance)',
    "text": 'MC_Braid invariant InvFinalize (RefBraid errs iff two concurrent finalize commands in the region) and AlgBraid = RefBraid; replay: commit/merge returns ParallelFinalize exactly when the spec says so, with heads and facts unchanged.',
    "note": 'Bounds: exhaustive DAGs <= 4 commands beyond init (5 in thorough), exhaustive histories for universe <= 3 / 5 steps / 2 replicas, seeded simulation to universe 8 / 16 steps / 3 replicas; STRETCH 14 (300 thorough). Audit policy stands in for real policies; memory-backed storage.',
}


def run(ctx):
    graph_common.full(ctx)
