"""C05 — Concurrent finalize commands are always detected (DESIGN §5 C05)."""
import graph_common

META = {
    "level": "model_checking",
    "engine": "graph",
    "technique": 'TLA+ specs Braid/MC_Braid and Replica model-checked with TLC (exhaustive small constants + seeded simulation); every emitted DAG / delivery history replayed step by step into real ClientState replicas and the projected state compared (spec->impl conformance)',
    "text": 'MC_Braid invariant InvFinalize (RefBraid errs iff two concurrent finalize commands in the region) and AlgBraid = RefBraid; replay: commit/merge returns ParallelFinalize exactly when the spec says so, with heads and facts unchanged.',
    "note": 'Bounds: exhaustive DAGs <= 4 commands beyond init (all DAGs with >= 3 heads replayed, others 1 in 6; N=5 in thorough), fact ops incl. quiet and rejected-in-braid commands at N=3/4, exhaustive histories for universe <= 3 / 5 steps / 2 replicas (two-command actions, forged merges), exhaustive poison positions (22 300 behaviours), C10 first-contact shapes, seeded simulation to universe 8 / 16 steps / 3 replicas; harness-parameterised families ladder (<= 900 rungs, 2 500 thorough), fan (<= 600 forks), star (<= 130 heads); STRETCH 14 (24/60 for C11, 300 thorough). Audit policy stands in for real policies; memory-backed storage; RuntimeBuffers shared by all replayed replicas; no storage fault injection.',
}


def run(ctx):
    graph_common.full(ctx)
