"""C11 — Command lookup and ancestry queries are exact (DESIGN §5 C11)."""
import graph_common

META = {
    "level": "model_checking",
    "engine": "graph",
    "technique": 'TLA+ specs Braid/MC_Braid and Replica model-checked with TLC (exhaustive small constants + seeded simulation); every emitted DAG / delivery history replayed step by step into real ClientState replicas and the projected state compared (spec->impl conformance)',
    "text": 'On every graph the suites build (all DAG shapes <= 4, STRETCH so segment walks cross the 10-gap skip rule): for all ordered pairs of committed commands is_ancestor = DAG ancestry; get_location / get_location_from find exactly the committed commands (also unknown ids at every max cut).',
    "note": 'Bounds: exhaustive DAGs <= 4 commands beyond init (all DAGs with >= 3 heads replayed, others 1 in 6; N=5 in thorough), fact ops incl. quiet and rejected-in-braid commands at N=3/4, exhaustive histories for universe <= 3 / 5 steps / 2 replicas (two-command actions, forged merges), exhaustive poison positions (22 300 behaviours), C10 first-contact shapes, seeded simulation to universe 8 / 16 steps / 3 replicas; harness-parameterised families ladder (<= 900 rungs, 2 500 thorough), fan (<= 600 forks), star (<= 130 heads); STRETCH 14 (24/60 for C11, 300 thorough). Audit policy stands in for real policies; memory-backed storage; RuntimeBuffers shared by all replayed replicas; no storage fault injection.',
}


def run(ctx):
    graph_common.full(ctx)
    if ctx.replay:
        return
    # C11-specific STRETCH: long chains cut into many short segments (flush after almost every
    # delivery) so that skip lists are built (segment start max_cut >= 10, targets n/2, 3n/4 ...)
    # and ancestry walks jump through them; all ordered pairs are queried.
    import verif
    vh = ctx.build("graph")
    n4 = ctx.tlc("MC_Braid", "MC_Braid_N4.cfg", timeout=1500, cache=True, subst=graph_common._salt(ctx))
    sub = verif.sample(ctx.rng, n4.replays, 400 if not ctx.thorough else 2500)
    n_cases = 0
    for k, cnt in ((24, len(sub)), (60, len(sub) // 5)):
        part = sub[:cnt]
        res = ctx.run_engine(vh, "braid", part, opts={"twin": 1, "index": 1, "stretch": k, "flushy": 1},
                             tag="index-stretch%d" % k, timeout=3000)
        ctx.absorb(res, only_own=True)
        n_cases += len(part)
    ctx.cov["index_stretch_cases"] = n_cases
