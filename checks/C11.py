"""C11 — Command lookup and ancestry queries are exact (DESIGN §5 C11)."""
import graph_common

META = {
    "level": "model_checking",
    "engine": "graph",
    "technique": 'TLA+ specs Braid/MC_Braid and Replica model-checked with TLC (exhaustive small constants + seeded simulation); every emitted DAG / delivery history replayed step by step into real ClientState replicas and the projected state compared (spec->impl conformance)',
    "text": 'On every graph the suites build (all DAG shapes <= 4, STRETCH so segment walks cross the 10-gap skip rule): for all ordered pairs of committed commands is_ancestor = DAG ancestry; get_location / get_location_from find exactly the committed commands (also unknown ids at every max cut).',
    "note": 'Bounds: exhaustive DAGs <= 4 commands beyond init (5 in thorough), exhaustive histories for universe <= 3 / 5 steps / 2 replicas, seeded simulation to universe 8 / 16 steps / 3 replicas; STRETCH 14 (300 thorough). Audit policy stands in for real policies; memory-backed storage.',
}


def run(ctx):
    graph_common.full(ctx)
