"""C16 — Repeated sync delivers everything.
MC SyncAbs.tla (Progress => convergence as a liveness property; implementation-shaped sessions make
progress outside the named exemptions) and I2S: repeated real sessions between real replicas built
from every TLC-chosen (DAG shape, A.committed, B.committed), stretched beyond the per-response,
per-session and per-sample limits, ping-pong to quiescence, validated by Trace_Sync.tla
(DESIGN §5 C16, §7.6)."""
import json
import verif
import sync_util as su

PROP = "C16"

META = {
    "level": "model_checking",
    "engine": "sync",
    "technique": "TLA+ spec SyncAbs model-checked with TLC (per-session Progress implies convergence under fairness; implementation-shaped sampling/needed-segments/limits/peer cache satisfy Progress outside two named classes and converge); traces of repeated real SyncRequester/SyncResponder sessions validated against Trace_Sync (impl->spec conformance)",
    "text": "TLC checks at property level that sessions that each deliver at least one missing command reach A >= B (liveness under weak fairness) on every DAG shape up to the bound and every pair of committed sets, and for the implementation-shaped session machine (sampling bounded by the sample limit and stopped by the peer cache, needed segments truncated to the lowest max cuts, response limit, peer cache of bounded size updated from received addresses) that Progress holds except for requesters with more heads than the sample limit and for full samples unknown to the responder, and that requesters that never were that wide converge. TLC's pairs drive the conformance run on real replicas (stretched to 300-command chains and fans, > 100 segments, three session patterns, small/retried poll buffers); Trace_Sync decides per closed session that it delivered a command the requester lacked while one was missing, per commit that the committed set is exactly old + received, per loop that A >= B was reached, and after ping-pong to quiescence that heads and command sets of both replicas are equal.  Sessions without progress are classified by cause; the classes of DESIGN 7.6 (more heads than the sample limit — a livelock; >= 100 duplicates the responder could not know about) are known findings, every other session without progress is a violation.",
    "note": "Bounds as C17 (pairs from shapes <= 4 quick / <= 5 thorough, stretch <= 300, pinned threshold cases; the 300-wide stars run in the thorough tier). Loop bound: min(missing, 40) + 4 sessions, 3 consecutive sessions without new commands end a loop. Trusts the harness accept-all policy, in-memory linear storage and the self-tested wire mirror.",
}


def run(ctx):
    vh = ctx.build("sync")
    pairs = su.spec_runs(ctx)
    # design-level reproduction of DESIGN 7.6: without the exemptions TLC must find a session
    # without progress in the implementation-shaped machine
    rf = ctx.tlc("SyncAbs", "MC_SyncAbs_finding.cfg", timeout=900, allow_violation=True, coverage=False)
    if rf.violated != "Progress":
        raise verif.ToolError("the design-level reproduction of the known no-progress classes did not violate Progress (got %r)" % rf.violated)
    if ctx.replay:
        case = json.load(open(ctx.replay))["case"]["input"]
        res, bad, _ = su.run_sessions(ctx, vh, [case], tag="replay")
        su.report(ctx, PROP, [case], res, bad)
        ctx.traces += 1
        ctx.samples.append(case)
        return
    cases, npinned = su.build_cases(ctx, pairs, pingpong=0.7)
    known = [c for _, c in su.known_cases(ctx.thorough)]
    cases = known + cases
    st = next(k for k, c in enumerate(cases) if c.get("pinned") == "straddle-2x60")
    res, bad, nlines = su.run_sessions(ctx, vh, cases, selftest_case=st)
    su.report(ctx, PROP, cases, res, bad)
    # the narrower neighbours of the known classes must pass, the known cases must hit their class
    byc = {}
    for b in bad:
        byc.setdefault(b["case"], []).append(b["key"])
    for k, c in enumerate(known):
        name = c["pinned"]
        keys = byc.get(k, [])
        if name.startswith("known-") and not keys:
            ctx.log("note: %s no longer shows a session without progress" % name)
    ctx.traces += len(cases)
    ctx.samples += cases[len(known) + npinned:len(known) + npinned + 2]
    sess = [r["obs"]["sessions"] for r in res]
    ctx.cov.update({
        "exhaustive": True,
        "constants": {"property_level": "MaxNodes %d, RespMax 2, MaxSessions 3" % (4 if ctx.thorough else 3),
                      "impl_shaped": "MaxNodes %d, SampleMax/RespMax/SegMax/CacheMax 2" % (5 if ctx.thorough else 4),
                      "pairs": len(pairs)},
        "design_level_finding_reproduced": "MC_SyncAbs_finding.cfg violates Progress (expected)",
        "cases": len(cases), "pinned": npinned, "known_class_cases": len(known), "trace_events": nlines,
        "sessions_run": sum(s for s in sess if s > 0),
        "pingpong_cases": sum(1 for c in cases if c.get("pingpong")),
        "commands_max": max(r["obs"]["cmds"] for r in res),
        "no_progress_sessions_by_class": {k: sum(1 for b in bad if b["key"] == k) for k in sorted({b["key"] for b in bad})},
        "patterns": {p: sum(1 for c in cases if c["pattern"] == p) for p in su.PATTERNS},
    })
    ctx.assumptions += ["harness accept-all policy and in-memory linear storage stand in for production policy/storage",
                        "the session loop is bounded (min(missing,40)+4 sessions; 3 stalls end it)"]
