"""Helpers shared by the sync checks (C16, C17, C18, C20): concretisation plans (STRETCH, layout)
for TLC-chosen DAG shapes.  Everything random comes from the check's seeded rng so a stored
replay case is self-contained."""
import json


def stretch_plan(rng, n, profile):
    """Per-node stretch: list of {"kind": "chain"|"fan", "k": size} for nodes 1..n."""
    plan = []
    for node in range(1, n + 1):
        if profile == "unit":
            k, kind = 1, "chain"
        elif profile == "small":
            k, kind = rng.choice([1, 1, 2, 3]), "chain"
        elif profile == "skip":       # chains long enough for skip lists (gaps >= 10)
            k, kind = rng.choice([1, 4, 12, 25, 40]), "chain"
        elif profile == "mixed":
            k = rng.choice([1, 2, 5, 12])
            kind = "fan" if (node > 1 and rng.random() < 0.3) else "chain"
        else:
            raise ValueError(profile)
        plan.append({"kind": kind, "k": k})
    return plan


def layout(rng, frag=None, commit_every=None, flush_den=None):
    return {"seed": rng.randrange(1 << 30),
            "frag": rng.choice([0, 0, 1, 2]) if frag is None else frag,
            "commit_every": rng.choice([0, 0, 3, 17]) if commit_every is None else commit_every,
            "flush_den": rng.choice([0, 2, 4]) if flush_den is None else flush_den}


def group_key(b):
    return json.dumps([b["par"], b["st"]], sort_keys=True)
