"""Helpers shared by the sync checks (C16, C17, C18, C20): concretisation plans (STRETCH, layout)
for TLC-chosen DAG shapes.  Everything random comes from the check's seeded rng so a stored
replay case is self-contained."""
import json


def stretch_plan(rng, n, profile):
    """Per-node stretch: list of {"kind": "chain"|"fan", "k": size} for nodes 1..n."""
    plan = []
    for node in range(1, n + 1):
        if profile == "unit":
            k, kind = 1, "chain"
        elif profile == "small":
            k, kind = rng.choice([1, 1, 2, 3]), "chain"
        elif profile == "skip":       # chains long enough for skip lists (gaps >= 10)
            k, kind = rng.choice([1, 4, 12, 25, 40]), "chain"
        elif profile == "mixed":
            k = rng.choice([1, 2, 5, 12])
            kind = "fan" if (node > 1 and rng.random() < 0.3) else "chain"
        else:
            raise ValueError(profile)
        plan.append({"kind": kind, "k": k})
    return plan


def layout(rng, frag=None, commit_every=None, flush_den=None):
    return {"seed": rng.randrange(1 << 30),
            "frag": rng.choice([0, 0, 1, 2]) if frag is None else frag,
            "commit_every": rng.choice([0, 0, 3, 17]) if commit_every is None else commit_every,
            "flush_den": rng.choice([0, 2, 4]) if flush_den is None else flush_den}


def group_key(b):
    return json.dumps([b["par"], b["st"]], sort_keys=True)


# ------------------------------------------------------------------------------------------
# C16 / C17: session cases and trace validation
# ------------------------------------------------------------------------------------------
import os
import verif

PATTERNS = ["R", "T", "D"]
BUFS = ["max", "retry", "ladder"]


def session_case(rng, pair, profile="small", pattern=None, bufs=None, pingpong=None, big_node=None, deep=False):
    """Concretise a TLC pair {par, A, B} into an engine case."""
    n = len(pair["par"])
    plan = stretch_plan(rng, n, profile)
    if big_node is not None:
        node, kind, k = big_node
        if node <= n:
            plan[node - 1] = {"kind": kind if node > 1 else "chain", "k": k}
    return {
        "par": pair["par"], "A": sorted(pair["A"]), "B": sorted(pair["B"]),
        "stretch": plan,
        "layA": layout(rng), "layB": layout(rng),
        "salt": rng.randrange(1 << 30),
        "pattern": pattern or rng.choice(PATTERNS),
        "bufs": bufs or rng.choice(BUFS),
        "pingpong": (rng.random() < 0.35) if pingpong is None else pingpong,
        # one subscribe + push exchange (tcp-syncer send_push) before the polling sessions
        "push": rng.random() < 0.25,
        # expensive cache clauses of Trace_Sync (antichain), used by check C20
        "deep": deep,
    }


def chain_dag(n):
    return [[]] + [[i] for i in range(1, n)]


def pinned_cases(thorough):
    """Hand-pinned regressions and threshold crossings (every field explicit: no seed dependence).
    Each entry: (name, case)."""
    lay0 = {"seed": 1, "frag": 0, "commit_every": 0, "flush_den": 0}
    frag = {"seed": 3, "frag": 0, "commit_every": 1, "flush_den": 0, "batch_max": 1}
    out = []

    def case(name, par, A, B, stretch, pattern, bufs, layA=lay0, layB=lay0, pingpong=False):
        out.append((name, {"par": par, "A": A, "B": B, "stretch": stretch, "layA": layA, "layB": layB, "salt": 7,
                           "pattern": pattern, "bufs": bufs, "pingpong": pingpong, "pinned": name}))

    ch = lambda k: {"kind": "chain", "k": k}
    fan = lambda k: {"kind": "fan", "k": k}
    # DESIGN 7.8 (C17): one 150-command segment, too-small poll then retry
    for pat in ("R", "T", "D"):
        for bufs in ("retry", "ladder"):
            case("c17-retry-150-%s-%s" % (pat, bufs), chain_dag(2), [1], [1, 2], [ch(1), ch(150)], pat, bufs)
    # the historical straddling-segment case: two 60-command segments, one session
    case("straddle-2x60", chain_dag(3), [1], [1, 2, 3], [ch(1), ch(60), ch(60)], "R", "max",
         layB={"seed": 5, "frag": 0, "commit_every": 60, "flush_den": 0})
    # two parallel 70-command segments, each with a dependent segment, all inside the responder's
    # max-cut window: the response limit falls inside the second parallel segment and its child comes
    # in the next response (a responder that skips the rest of a partly sent segment — the historical
    # straddling-segment bug — breaks parents-first here)
    cut3 = {"seed": 5, "frag": 0, "commit_every": 0, "flush_den": 0, "node_cut": True}
    fork = [[], [1], [2], [2], [3], [4]]
    for bufs in ("max", "retry"):
        case("straddle-fork-70-" + bufs, fork, [1, 2], [1, 2, 3, 4, 5, 6], [ch(1), ch(20), ch(70), ch(70), ch(10), ch(10)],
             "R", bufs, layB=cut3)
    # a long segment entered twice by find_needed_segments (from its head and through the mid-segment
    # prior of a side branch that forks early): the second entry must still see the sample address
    # near the top of the segment (regression for the fix of the re-entry livelock)
    side = [[], [1], [1], [1]]
    for pat in ("T", "D"):
        case("reentry-long-segment-" + pat, side, [1], [1, 2, 3, 4], [ch(2), ch(220), ch(3), ch(1)], pat, "max")
    # one responder segment of 250-320 commands handed over in one session: the response limit cuts
    # it two or three times (the mid-segment resume point has to advance from the previous resume point)
    single = {"seed": 9, "frag": 0, "commit_every": 0, "flush_den": 0}
    for pat, k, bufs in (("R", 250, "max"), ("R", 320, "retry"), ("T", 270, "max"), ("D", 300, "ladder")):
        case("one-segment-%d-%s" % (k, pat), chain_dag(2), [1], [1, 2], [ch(1), ch(k)], pat, bufs, layB=single)
    # the same below a merge just under the responder's head (segment entered from a merge segment)
    case("one-segment-260-under-merge-R", [[], [1], [2], [2], [3, 4]], [1], [1, 2, 3, 4, 5],
         [ch(1), ch(260), ch(2), ch(1), ch(1)], "R", "max", layB=single)
    # requester head set whose lowest-id head (listed first in head set and sample) is a short old
    # branch far (> 100 max cuts) below the overlap with the responder; responder in one-command
    # segments, so the start of its traversal depends on the *highest* have location
    low = {"kind": "chain", "k": 1, "idlow": True}
    oldbranch = [[], [1], [1], [2]]       # 2 long chain, 3 short old branch off init, 4 responder's extension
    for pat in ("R", "T"):
        case("old-low-branch-head-" + pat, oldbranch, [1, 2, 3], [1, 2, 3, 4], [ch(1), ch(300), low, ch(150)], pat, "max",
             layA=single, layB=frag)
    case("old-low-branch-fan-T", oldbranch, [1, 2, 3], [1, 2, 3, 4],
         [ch(1), ch(230), {"kind": "fan", "k": 4, "idlow": True}, ch(120)], "T", "max", layA=frag, layB=frag)
    # > 100 commands per response, > 1 response per session, ping-pong of two diverged chains
    case("diverged-chains-130-170", [[], [1], [1]], [1, 2], [1, 3], [ch(1), ch(130), ch(170)], "R", "max", pingpong=True)
    case("diverged-chains-130-170-T", [[], [1], [1]], [1, 2], [1, 3], [ch(1), ch(130), ch(170)], "T", "retry", pingpong=True)
    # > 100 segments on the responder (every command its own segment), requester behind
    case("resp-140-segments", chain_dag(2), [1], [1, 2], [ch(1), ch(140)], "R", "max", layB=frag)
    # sibling fan wider than a response but narrower than the sample limit, child under the first sibling
    case("fan-90-child", [[], [1], [2]], [1, 2], [1, 2, 3], [ch(1), fan(90), ch(2)], "T", "max")
    if thorough:
        case("resp-140-segments-D", chain_dag(2), [1], [1, 2], [ch(1), ch(140)], "D", "ladder", layB=frag)
        case("fan-99-child", [[], [1], [2]], [1, 2], [1, 2, 3], [ch(1), fan(99), ch(2)], "R", "max")
        case("chain-300x3", chain_dag(4), [1, 2], [1, 2, 3, 4], [ch(1), ch(300), ch(300), ch(300)], "D", "retry")
        case("merge-of-long-chains", [[], [1], [1], [2, 3], [4]], [1, 2], [1, 2, 3, 4, 5],
             [ch(1), ch(210), ch(180), ch(3), ch(120)], "R", "ladder", pingpong=True)
    return out


def known_cases(thorough):
    """The classes of DESIGN 7.6 (known findings) and their narrower neighbours that must pass."""
    lay0 = {"seed": 1, "frag": 0, "commit_every": 0, "flush_den": 0, "node_cut": True}
    frag = {"seed": 3, "frag": 0, "commit_every": 1, "flush_den": 0, "batch_max": 1, "node_cut": True}
    out = []
    ch = lambda k: {"kind": "chain", "k": k}
    fan = lambda k: {"kind": "fan", "k": k}

    def case(name, par, A, B, stretch, pattern, bufs="max", layA=lay0, layB=lay0):
        out.append((name, {"par": par, "A": A, "B": B, "stretch": stretch, "layA": layA, "layB": layB, "salt": 7,
                           "pattern": pattern, "bufs": bufs, "pingpong": False, "pinned": name}))
    star = [[], [1], [2]]
    # (b) requester diverged by >= 100 own segments (fresh caches) vs responder with > 100 segments
    div = [[], [1], [2], [2]]          # 1 init, 2 shared chain, 3 A's own chain, 4 B's own chain
    case("known-b-unknown-sample", div, [1, 2, 3], [1, 2, 4], [ch(1), ch(150), ch(110), ch(5)], "T", layA=frag, layB=frag)
    case("narrow-b-own-60", div, [1, 2, 3], [1, 2, 4], [ch(1), ch(150), ch(60), ch(5)], "T", layA=frag, layB=frag)
    # (c) one-response sessions: the requester's segment straddles shared and own commands, the
    # responder re-sends the >= 100 shared commands of it before anything new
    one = {"seed": 1, "frag": 0, "commit_every": 0, "flush_den": 0, "batch_max": 0}
    case("known-c-oneshot-straddle", div, [1, 2, 3], [1, 2, 4], [ch(1), ch(150), ch(5), ch(5)], "T", layA=one, layB=lay0)
    case("narrow-c-straddle-R", div, [1, 2, 3], [1, 2, 4], [ch(1), ch(150), ch(5), ch(5)], "R", layA=one, layB=lay0)
    case("narrow-c-straddle-60", div, [1, 2, 3], [1, 2, 4], [ch(1), ch(60), ch(5), ch(5)], "T", layA=one, layB=lay0)
    # (e) coverage through a mid-segment prior is dropped (find_needed_segments / push_covered)
    mid = [[], [1], [1]]      # responder: segment [init chain, node 2] then [node 3] whose prior points into the middle
    case("known-e-midsegment-prior", mid, [1, 3], [1, 2, 3], [ch(101), ch(1), ch(1)], "T", layA=one, layB=one)
    case("narrow-e-midsegment-prior-R", mid, [1, 3], [1, 2, 3], [ch(101), ch(1), ch(1)], "R", layA=one, layB=one)
    case("narrow-e-midsegment-prior-60", mid, [1, 3], [1, 2, 3], [ch(60), ch(1), ch(1)], "T", layA=one, layB=one)
    if thorough:
        # (a) requester with more heads than the sample limit: livelock
        case("known-a-star-300", star, [1, 2], [1, 2, 3], [ch(1), fan(300), ch(1)], "R")
        case("known-a-star-300-T", star, [1, 2], [1, 2, 3], [ch(1), fan(300), ch(1)], "T")
        case("narrow-a-star-100", star, [1, 2], [1, 2, 3], [ch(1), fan(100), ch(1)], "R")
        case("narrow-a-star-150-T", star, [1, 2], [1, 2, 3], [ch(1), fan(150), ch(1)], "T")
        case("known-b-unknown-sample-D", div, [1, 2, 3], [1, 2, 4], [ch(1), ch(250), ch(120), ch(5)], "D", layA=frag, layB=frag)
        case("known-b-R", div, [1, 2, 3], [1, 2, 4], [ch(1), ch(150), ch(110), ch(5)], "R", layA=frag, layB=frag)
    return out


def _corruptions(lines, base_case, first_id):
    """Three corrupted copies of the recorded events of one good case (binding self-test):
    a command dropped from a response (parents-first), an index perturbed, a delivered command
    removed from the responder's committed set (unsound)."""
    ev = [json.loads(json.dumps(e)) for e in lines if e["case"] == base_case]
    resp = [k for k, e in enumerate(ev) if e["e"] == "response" and len(e["cmds"]) >= 4]
    if not resp:
        return []
    out = []
    for n, what in enumerate(("drop", "index", "unsound")):
        mut = json.loads(json.dumps(ev))
        r = mut[resp[0]]
        if what == "drop":
            del r["cmds"][1]
        elif what == "index":
            r["index"] += 1
        else:
            reset = [e for e in mut if e["e"] == "reset"][0]
            side = [e for e in mut if e["e"] == "sample"][0]["resp"]
            reset[side] = [x for x in reset[side] if x != r["cmds"][2]]
        for e in mut:
            e["case"] = first_id + n
        out.append((what, mut))
    return out


def build_cases(ctx, pairs, pingpong=None, deep=False, limit=240):
    cases = []
    pinned = pinned_cases(ctx.thorough)
    for name, c in pinned:
        cases.append(c)
    if ctx.thorough:
        sel = pairs
    else:
        sel = verif.sample(ctx.rng, pairs, limit)
    for k, p in enumerate(sel):
        prof = "small"
        big = None
        r = ctx.rng.random()
        if ctx.thorough and r < 0.06:
            big = (ctx.rng.randrange(1, len(p["par"]) + 1), ctx.rng.choice(["chain", "chain", "fan"]), ctx.rng.choice([101, 130, 220, 300]))
        elif r < (0.20 if ctx.thorough else 0.10):
            big = (ctx.rng.randrange(1, len(p["par"]) + 1), ctx.rng.choice(["chain", "chain", "fan"]), ctx.rng.choice([30, 60, 101, 120]))
        elif r < 0.4:
            prof = "mixed"
        pp = None if pingpong is None else (ctx.rng.random() < pingpong)
        cases.append(session_case(ctx.rng, p, prof, big_node=big, pingpong=pp, deep=deep))
    return cases, len(pinned)


def spec_runs(ctx):
    """Design level.  quick: property level on shapes <= 3, implementation shaped on <= 4, pairs <= 4;
    thorough: property level <= 4, implementation shaped <= 5 (both session styles), pairs <= 5."""
    r = ctx.tlc("SyncAbs", "MC_SyncAbs.cfg" if ctx.thorough else "MC_SyncAbs_q.cfg", timeout=1500)
    ctx.require_actions(r, ["ASample", "ARespond", "AEnd", "ACommit"])
    ri = ctx.tlc("SyncAbs", "MC_SyncAbs_impl.cfg" if ctx.thorough else "MC_SyncAbs_impl_q.cfg", timeout=1500)
    ctx.require_actions(ri, ["ISample", "IRespond", "IEnd", "ICommit"])
    if ctx.thorough:
        ctx.tlc("SyncAbs", "MC_SyncAbs_impl1.cfg", timeout=1500)
    rp = ctx.tlc("SyncAbs", "MC_SyncAbs_pairs5.cfg" if ctx.thorough else "MC_SyncAbs_pairs4.cfg", timeout=1500, coverage=False)
    pairs = rp.replays
    if not pairs:
        raise verif.ToolError("TLC emitted no pairs")
    return pairs


def run_sessions(ctx, vh, cases, tag="session", selftest_case=None):
    """Run the engine on `cases`, validate the recorded trace with Trace_Sync, return
    (results, bad, nlines) where bad = list of {"line","case","key"} (case = index into cases).
    `selftest_case`: index of a case whose recorded events are appended three more times, each
    corrupted in one field; Trace_Sync must flag every corrupted copy (binding self-test)."""
    trace = os.path.join(ctx.workdir, tag + ".trace.ndjson")
    res = ctx.run_engine(vh, "session", cases, opts={"trace": trace}, tag=tag, timeout=3000)
    if len(res) != len(cases):
        raise verif.ToolError("engine returned %d results for %d cases" % (len(res), len(cases)))
    lines = [json.loads(l) for l in open(trace)]
    nlines = len(lines)
    corr = []
    if selftest_case is not None:
        corr = _corruptions(lines, selftest_case, len(cases))
        with open(trace, "a") as f:
            for _, mut in corr:
                for e in mut:
                    f.write(json.dumps(e, separators=(",", ":")) + "\n")
    accepted, n, r = ctx.validate_trace("Trace_Sync", "Trace_Sync.cfg", trace, timeout=3000, tag="trace-" + tag)
    bad = []
    for p in r.prints:
        if p.startswith("BAD "):
            bad.append(json.loads(p[4:]))
    if "TRACE-ACCEPTED" not in r.output and "TRACE-REJECTED" not in r.output:
        import sys
        sys.stderr.write(ctx._tail(r.output))
        raise verif.ToolError("Trace_Sync gave no verdict (spec error?)")
    if accepted and bad:
        raise verif.ToolError("Trace_Sync accepted a trace with BAD records")
    if not accepted and not bad:
        raise verif.ToolError("Trace_Sync rejected the trace at %s without a BAD record (trace not fully consumed?)" % n)
    if corr and not any(b["case"] == selftest_case for b in bad):
        want = {"drop": "C17:parents-first", "index": "C17:index", "unsound": "C17:unsound-command"}
        for k, (what, _) in enumerate(corr):
            got = [b["key"] for b in bad if b["case"] == len(cases) + k]
            if got != [want[what]]:
                raise verif.ToolError("binding self-test failed: corrupted trace (%s) gave %s, expected %s" % (what, got, want[what]))
        ctx.cov["selftest"] = "dropped command / perturbed index / uncommitted command each rejected by Trace_Sync"
    bad = [b for b in bad if b["case"] < len(cases)]
    return res, bad, nlines


def report(ctx, prop, cases, res, bad):
    """Turn BAD records into violations of `prop`.  A C17 clause failing in a case also means the
    sessions of that case never delivered everything: C16 reports it as session-failed."""
    byc = {}
    for b in bad:
        byc.setdefault(b["case"], []).append(b)
    nviol = 0
    for ci, bs in sorted(byc.items()):
        for b in bs:
            key = b["key"]
            if key.startswith(prop + ":"):
                pass
            elif prop == "C16" and key.startswith("C17:"):
                key = "C16:session-failed:" + key
            else:
                continue
            nviol += 1
            ctx.violation(key, "trace line %d of case %d: clause %s failed" % (b["line"], ci, b["key"]),
                          {"input": cases[ci], "result": {"bad": b, "obs": res[ci].get("obs")}})
    return nviol
