"""Transition-cover path computation over TLC state graphs (DESIGN §2.1, S2I *transition-cover mode*).

TLC is run with `-dump dot,actionlabels <file>`; the dump holds every reachable state (as a TLA+
conjunction) and every transition labelled with the action that produced it, including the
action's parameters (`cas1(2)`).  This module

  * parses the dump (`load_dot`) including the TLA+ values of the state variables
    (`parse_value`: integers, strings, booleans, sets, intervals, tuples, records, functions,
    model values) into plain python data (sets -> sorted lists, tuples -> lists, records and
    functions -> dicts, functions over 1..n -> lists);
  * computes a set of paths from the initial state that together traverse *every* edge of the
    graph, each extended to a terminal state so that the implementation run is a complete
    schedule (`cover_paths`);
  * draws seeded random complete paths (`random_paths`).

A path is a list of edge indices into `Graph.edges`; `Graph.steps(path)` yields
`(action, args, post_state_dict)` for the conformance engines.
"""
import re
from collections import deque


# ----------------------------------------------------------------------------- TLA+ values
class _P:
    def __init__(self, s):
        self.s = s
        self.i = 0

    def ws(self):
        s = self.s
        n = len(s)
        while self.i < n and s[self.i] in " \t\r\n":
            self.i += 1

    def peek(self, k=1):
        return self.s[self.i:self.i + k]

    def expect(self, tok):
        self.ws()
        if not self.s.startswith(tok, self.i):
            raise ValueError("expected %r at %d in %r" % (tok, self.i, self.s[max(0, self.i - 20):self.i + 30]))
        self.i += len(tok)

    def value(self):
        self.ws()
        s = self.s
        c = s[self.i]
        if c == '"':
            j = self.i + 1
            out = []
            while s[j] != '"':
                if s[j] == "\\":
                    j += 1
                out.append(s[j])
                j += 1
            self.i = j + 1
            return "".join(out)
        if s.startswith("<<", self.i):
            self.i += 2
            return self.seq(">>")
        if c == "{":
            self.i += 1
            items = self.seq("}")
            try:
                return sorted(items)
            except TypeError:
                return sorted(items, key=repr)
        if c == "[":
            self.i += 1
            d = {}
            self.ws()
            if self.peek() == "]":
                self.i += 1
                return d
            while True:
                self.ws()
                m = re.compile(r"\w+").match(s, self.i)
                k = m.group(0)
                self.i = m.end()
                self.expect("|->")
                d[k] = self.value()
                self.ws()
                if self.peek() == ",":
                    self.i += 1
                    continue
                self.expect("]")
                return d
        if c == "(":
            self.i += 1
            pairs = []
            while True:
                k = self.value()
                self.expect(":>")
                v = self.value()
                pairs.append((k, v))
                self.ws()
                if self.s.startswith("@@", self.i):
                    self.i += 2
                    continue
                self.expect(")")
                break
            return _fun(pairs)
        m = re.compile(r"-?\d+").match(s, self.i)
        if m:
            self.i = m.end()
            a = int(m.group(0))
            if s.startswith("..", self.i):
                self.i += 2
                m2 = re.compile(r"-?\d+").match(s, self.i)
                self.i = m2.end()
                return list(range(a, int(m2.group(0)) + 1))
            return a
        m = re.compile(r"\w+").match(s, self.i)
        if m:
            self.i = m.end()
            w = m.group(0)
            if w == "TRUE":
                return True
            if w == "FALSE":
                return False
            return w  # model value
        raise ValueError("cannot parse TLA+ value at %d: %r" % (self.i, s[self.i:self.i + 40]))

    def seq(self, close):
        out = []
        self.ws()
        if self.s.startswith(close, self.i):
            self.i += len(close)
            return out
        while True:
            out.append(self.value())
            self.ws()
            if self.peek() == ",":
                self.i += 1
                continue
            self.expect(close)
            return out


def _fun(pairs):
    keys = [k for k, _ in pairs]
    if all(isinstance(k, int) for k in keys) and sorted(keys) == list(range(1, len(keys) + 1)):
        d = dict(pairs)
        return [d[i] for i in range(1, len(keys) + 1)]
    return {(k if isinstance(k, str) else _key(k)): v for k, v in pairs}


def _key(k):
    return str(k) if not isinstance(k, (list, dict)) else repr(k)


def parse_value(text):
    p = _P(text)
    v = p.value()
    p.ws()
    if p.i != len(text):
        raise ValueError("trailing text in TLA+ value: %r" % text[p.i:p.i + 40])
    return v


_VAR = re.compile(r"(?m)^/\\ (\w+) = ")


def parse_state(text):
    """`/\\ x = 1\\n/\\ y = <<..>>` -> {"x": 1, "y": [...]} (values may span several lines)."""
    ms = list(_VAR.finditer(text))
    if not ms:  # single-variable specs print `x = 1`
        m = re.match(r"(\w+) = ", text)
        return {m.group(1): parse_value(text[m.end():].strip())}
    d = {}
    for i, m in enumerate(ms):
        end = ms[i + 1].start() if i + 1 < len(ms) else len(text)
        d[m.group(1)] = parse_value(text[m.end():end].strip())
    return d


def _unescape(s):
    out = []
    i = 0
    n = len(s)
    while i < n:
        c = s[i]
        if c == "\\" and i + 1 < n:
            d = s[i + 1]
            out.append("\n" if d == "n" else d)
            i += 2
        else:
            out.append(c)
            i += 1
    return "".join(out)


# ----------------------------------------------------------------------------- graph
class Graph:
    def __init__(self):
        self.ids = {}        # dot id -> node index
        self.raw = []        # node index -> raw (escaped) label text
        self._st = {}        # node index -> parsed state (lazy)
        self.init = []       # node indices of initial states
        self.edges = []      # (src, dst, action, args tuple)
        self.out = []        # node index -> [edge index]

    def node(self, dotid):
        i = self.ids.get(dotid)
        if i is None:
            i = len(self.raw)
            self.ids[dotid] = i
            self.raw.append(None)
            self.out.append([])
        return i

    def state(self, i):
        s = self._st.get(i)
        if s is None:
            s = parse_state(_unescape(self.raw[i]))
            self._st[i] = s
        return s

    def steps(self, path):
        """[(action, args, post_state)] along a path of edge indices."""
        return [(self.edges[e][2], self.edges[e][3], self.state(self.edges[e][1])) for e in path]

    @property
    def nstates(self):
        return len(self.raw)


_NODE = re.compile(r'^(-?\d+) \[label="((?:[^"\\]|\\.)*)"(.*)$')
_EDGE = re.compile(r'^(-?\d+) -> (-?\d+) \[label="((?:[^"\\]|\\.)*)"')
_ACT = re.compile(r"^(\w+)(?:\((.*)\))?$")


def load_dot(path):
    g = Graph()
    with open(path, errors="replace") as f:
        for line in f:
            if " -> " in line[:48]:
                m = _EDGE.match(line)
                if m:
                    a = _ACT.match(m.group(3))
                    name = a.group(1) if a else m.group(3)
                    args = ()
                    if a and a.group(2) is not None and a.group(2) != "":
                        args = tuple(parse_value(x.strip()) for x in _split_args(a.group(2)))
                    s, d = g.node(m.group(1)), g.node(m.group(2))
                    if s == d:
                        continue  # stuttering self-loop: nothing to replay
                    g.out[s].append(len(g.edges))
                    g.edges.append((s, d, name, args))
                continue
            m = _NODE.match(line)
            if m:
                i = g.node(m.group(1))
                g.raw[i] = m.group(2)
                if "style = filled" in m.group(3) and i not in g.init:
                    g.init.append(i)
    if not g.init:
        raise ValueError("no initial state in " + path)
    return g


def _split_args(s):
    out, depth, cur = [], 0, []
    for c in s:
        if c in "<{[(":
            depth += 1
        elif c in ">}])":
            depth -= 1
        if c == "," and depth <= 0:
            out.append("".join(cur))
            cur = []
        else:
            cur.append(c)
    out.append("".join(cur))
    return out


def _bfs_tree(g):
    """parent edge of every node on a shortest path from an initial state, BFS order."""
    par = [None] * g.nstates
    seen = [False] * g.nstates
    order = []
    dq = deque()
    for i in g.init:
        seen[i] = True
        dq.append(i)
    while dq:
        u = dq.popleft()
        order.append(u)
        for e in g.out[u]:
            v = g.edges[e][1]
            if not seen[v]:
                seen[v] = True
                par[v] = e
                dq.append(v)
    return par, order


def _to_terminal(g, terminal=None):
    """next edge of every node on a shortest path to a terminal node (no outgoing edge, or
    `terminal(state_index)` true); None where the node is terminal / cannot reach one."""
    n = g.nstates
    rev = [[] for _ in range(n)]
    for ei, (s, d, _, _) in enumerate(g.edges):
        rev[d].append(ei)
    term = [len(g.out[i]) == 0 or (terminal is not None and terminal(i)) for i in range(n)]
    nxt = [None] * n
    dist = [None] * n
    dq = deque()
    for i in range(n):
        if term[i]:
            dist[i] = 0
            dq.append(i)
    while dq:
        v = dq.popleft()
        for e in rev[v]:
            u = g.edges[e][0]
            if dist[u] is None:
                dist[u] = dist[v] + 1
                nxt[u] = e
                dq.append(u)
    return nxt, term


def _prefix(g, par, u):
    p = []
    while par[u] is not None:
        e = par[u]
        p.append(e)
        u = g.edges[e][0]
    p.reverse()
    return p


def cover_paths(g, rng=None, max_len=600, terminal=None):
    """Paths from an initial state that together cover every edge; each path ends in a terminal
    state when one is reachable.  Greedy: take the BFS-tree path to the first uncovered edge,
    then keep preferring uncovered out-edges, otherwise head for the nearest terminal state."""
    par, order = _bfs_tree(g)
    nxt, term = _to_terminal(g, terminal)
    covered = bytearray(len(g.edges))
    ptr = [0] * g.nstates     # per node: position in out-list up to which edges are covered
    paths = []

    def uncovered_out(u):
        o = g.out[u]
        k = ptr[u]
        while k < len(o) and covered[o[k]]:
            k += 1
        ptr[u] = k
        return o[k] if k < len(o) else None

    for u in order:
        while True:
            e = uncovered_out(u)
            if e is None:
                break
            path = _prefix(g, par, u)
            for pe in path:
                covered[pe] = 1
            cur = u
            while True:
                e = uncovered_out(cur) if len(path) < max_len else None
                if e is None:
                    e = nxt[cur]      # None at a terminal state (or when none is reachable)
                    if e is None:
                        break
                covered[e] = 1
                path.append(e)
                cur = g.edges[e][1]
                if len(path) > 4 * max_len:
                    break
            paths.append(path)
    return paths


def random_paths(g, rng, n, max_len=600, terminal=None):
    """n seeded random walks from an initial state, completed to a terminal state."""
    nxt, term = _to_terminal(g, terminal)
    paths = []
    for _ in range(n):
        cur = rng.choice(g.init)
        path = []
        while g.out[cur] and not (term[cur] and not g.out[cur]):
            if len(path) < max_len:
                e = rng.choice(g.out[cur])
            else:
                e = nxt[cur]
                if e is None:
                    break
            path.append(e)
            cur = g.edges[e][1]
            if len(path) > 4 * max_len:
                break
        paths.append(path)
    return paths


def prefix_to(g, node, _cache={}):
    """Shortest path (edge indices) from an initial state to `node`."""
    key = id(g)
    if key not in _cache:
        _cache.clear()
        _cache[key] = _bfs_tree(g)[0]
    return _prefix(g, _cache[key], node)


def complete(g, node, terminal=None, _cache={}):
    """Edges of a shortest path from `node` to a terminal state."""
    key = (id(g), terminal)
    if key not in _cache:
        _cache.clear()
        _cache[key] = _to_terminal(g, terminal)[0]
    nxt = _cache[key]
    out = []
    while nxt[node] is not None and len(out) < 10000:
        e = nxt[node]
        out.append(e)
        node = g.edges[e][1]
    return out


def coverage(g, paths):
    """(edges covered, edges total)."""
    cov = set()
    for p in paths:
        cov.update(p)
    return len(cov), len(g.edges)
