"""Shared driver code of the policy-language checks (C22, C23, C24, C28): engine `vm`,
spec `tla/PolicyLang.tla` (+ `MC_PolicyLang.tla`, `MC_PolicyLang*.cfg`).

The spec derives programs (exhaustively for small depths, by seeded simulation for larger ones),
evaluates each on a family of argument tuples with its reference evaluator and prints one REPLAY
line per program; `vh-vm run` renders each program to policy source, runs the real
parser -> compiler -> VM and compares."""
import json
import os

import verif

MODULE = "MC_PolicyLang"


def prelude_of(r):
    for p in r.prints:
        if p.startswith("PRELUDE "):
            return json.loads(p[len("PRELUDE "):])
    raise verif.ToolError("TLC did not print the prelude")


def exprs_count(r):
    for p in r.prints:
        if p.startswith("EXPRS "):
            return int(p[len("EXPRS "):])
    return None


def dedupe(programs):
    seen, out = set(), []
    for p in programs:
        k = json.dumps([p["rt"], p["body"]], sort_keys=True)
        if k not in seen:
            seen.add(k)
            out.append(p)
    return out


def generate(ctx, cfg, simulate=None, depth=None, timeout=900, workers=None, lemma=False, subst=None):
    """Run TLC on MC_PolicyLang with `cfg`; returns (prelude, programs, TlcResult).
    Exhaustive runs are guarded against vacuity (both actions taken, lemma count)."""
    r = ctx.tlc(MODULE, cfg, simulate=simulate, depth=depth, timeout=timeout,
                workers=(4 if simulate else workers), cache=True, subst=subst, coverage=False,
                tag=cfg.replace(".cfg", "") + ("-" + "-".join(subst.values()) if subst else ""))
    pre = prelude_of(r)
    progs = dedupe(r.replays)
    if not progs:
        raise verif.ToolError("TLC emitted no programs for %s" % cfg)
    if not simulate:
        # (TLC's -coverage makes the recursive evaluator orders of magnitude slower; the vacuity
        # guard is on the generated programs themselves, see require_ops)
        if lemma:
            n = exprs_count(r)
            single = sum(1 for p in progs if len(p["body"]) == 1 and p["body"][0][0] == "ret")
            if n is None or n != single:
                raise verif.ToolError(
                    "spec lemma broken: |Exprs| = %s but %d derivations of the form `return e`" % (n, single))
            ctx.cov.setdefault("lemma_derivation_equals_Exprs", {})[cfg] = n
    return pre, progs, r


def ops_of(node, acc):
    """All operators occurring in a tree (statement list or node)."""
    if isinstance(node, list) and node and isinstance(node[0], str) and len(node) == 3 and isinstance(node[2], list):
        acc.add(node[0] if node[0] != "call" else "call:" + str(node[1]))
        for k in node[2]:
            ops_of(k, acc)
    elif isinstance(node, list):
        for k in node:
            ops_of(k, acc)
    return acc


EXPR_OPS = ["lit", "var", "some", "not", "is", "and", "or", "eq", "ne", "lt", "gt", "le", "ge",
            "coalesce", "call:add", "call:sub", "call:saturating_add", "call:saturating_sub", "call:h_pick",
            "if", "block", "match", "dot", "substruct", "cast", "struct", "return", "let", "check", "dassert"]
STMT_OPS = ["let", "check", "dassert", "ifs", "matchs", "ret"]


def require_ops(ctx, programs, ops, what):
    """Vacuity guard: every construct the property speaks about occurs in the generated programs."""
    seen = set()
    for p in programs:
        ops_of(p["body"], seen)
    missing = [o for o in ops if o not in seen]
    if missing:
        raise verif.ToolError("vacuous generation (%s): constructs never generated: %s" % (what, ", ".join(missing)))
    ctx.cov.setdefault("constructs_generated", {})[what] = sorted(seen)


def replay(ctx, vh, prop, pre, programs, tag, batch=200, timeout=1200, parens="full"):
    """Run programs through the engine; returns the per-program results (failing results carry a
    self-contained `_in` with the prelude so that --replay can re-run them)."""
    items = [{"prelude": pre}] + programs
    res = ctx.run_engine(vh, "run", items, opts={"prop": prop, "batch": batch, "parens": parens}, tag=tag, timeout=timeout)
    out = []
    for r in res:
        i = r.get("i", -1)
        if i == 0 and r.get("ok") and r.get("obs", {}).get("status") == "prelude":
            continue
        if not r.get("ok") and isinstance(r.get("_in"), dict):
            r["_in"] = dict(r["_in"], prelude=pre)
        out.append(r)
    if len(out) != len(programs) and not any(r.get("key", "").endswith("engine-crash") for r in out):
        raise verif.ToolError("engine returned %d results for %d programs" % (len(out), len(programs)))
    return out


def tally(results, programs_by_index=None):
    """Counts for the evidence file."""
    t = {"ran": 0, "rejected_compile": 0, "rejected_parse": 0, "front_end_panic": 0, "failing": 0,
         "envs": 0, "vals": 0, "panics": 0, "foreign_calls": 0}
    reasons = {}
    for r in results:
        if not r.get("ok"):
            t["failing"] += 1
            continue
        o = r.get("obs", {})
        s = o.get("status")
        if s == "ran":
            t["ran"] += 1
            t["envs"] += o.get("envs", 0)
            t["vals"] += o.get("vals", 0)
            t["panics"] += o.get("panics", 0)
            t["foreign_calls"] += o.get("calls", 0)
        elif s in t:
            t[s] += 1
            reasons[o.get("err", "")] = reasons.get(o.get("err", ""), 0) + 1
    t["reject_reasons"] = dict(sorted(reasons.items(), key=lambda kv: -kv[1])[:8])
    return t


def rejected_typed(results):
    """Programs the spec's type system accepts but the real front end rejects."""
    n = 0
    ex = []
    for r in results:
        o = r.get("obs", {})
        if r.get("ok") and str(o.get("status", "")).startswith("rejected") and r.get("_in", {}).get("typed"):
            n += 1
            if len(ex) < 3:
                ex.append({"err": o.get("err"), "function": o.get("function")})
    return n, ex


def check_rejection_rate(ctx, results, limit=0.02):
    """Coverage is only real if (nearly) every program the spec calls well-typed is accepted."""
    typed = sum(1 for r in results if r.get("_in", {}).get("typed"))
    n, ex = rejected_typed(results)
    ctx.cov["typed_programs"] = ctx.cov.get("typed_programs", 0) + typed
    ctx.cov["typed_but_rejected"] = ctx.cov.get("typed_but_rejected", 0) + n
    if ex:
        ctx.cov.setdefault("typed_but_rejected_examples", []).extend(ex)
    if typed and n > limit * typed:
        ctx.cov["rejection_rate_exceeded"] = "%d of %d" % (n, typed)


def finish_rejection(ctx):
    """A high rejection rate of spec-typed programs makes the coverage unreal: tool error, unless
    the run already found violations (then those are the verdict)."""
    if ctx.cov.get("rejection_rate_exceeded") and ctx.nviol == 0:
        raise verif.ToolError("the real front end rejects %s programs the spec types: the "
                              "generator/typing of PolicyLang.tla drifted from the language"
                              % ctx.cov["rejection_rate_exceeded"])


def selftest(ctx, vh, prop, pre, programs):
    """Binding self-test: a perturbed expectation must be rejected by the engine."""
    def perturbed(p):
        q = json.loads(json.dumps(p))
        for e in q["envs"]:
            x = e["exp"]
            if x["k"] == "val" and x["v"][0] == "int":
                x["v"] = ["int", x["v"][1], x["v"][2] + (1 if x["v"][2] < 5 else -1)]
                return q
            if x["k"] == "val" and x["v"][0] == "bool":
                x["v"] = ["bool", not x["v"][1]]
                return q
        return None
    victim = None
    for p in programs:
        if p.get("typed"):
            victim = perturbed(p)
            if victim:
                break
    if victim is None:
        raise verif.ToolError("self-test: no program with an int/bool result")
    res = replay(ctx, vh, prop, pre, [victim], "selftest")
    if res[0].get("ok"):
        raise verif.ToolError("binding self-test failed: a perturbed expected value was accepted")
    # and a dropped foreign call / flipped exit
    return "perturbed expected value rejected (%s)" % res[0].get("key")


def selftest_log(ctx, vh, prop, pre, programs):
    """Binding self-test for the foreign-call log: drop one expected call, require rejection."""
    victim = None
    for p in programs:
        if not p.get("typed"):
            continue
        q = json.loads(json.dumps(p))
        for e in q["envs"]:
            if e["exp"]["log"]:
                e["exp"]["log"] = e["exp"]["log"][1:]
                victim = q
                break
        if victim:
            break
    if victim is None:
        raise verif.ToolError("self-test: no program with a foreign call")
    res = replay(ctx, vh, prop, pre, [victim], "selftest-log")
    if res[0].get("ok"):
        raise verif.ToolError("binding self-test failed: a dropped foreign call was accepted")
    return selftest(ctx, vh, prop, pre, programs) + "; dropped foreign call rejected (%s)" % res[0].get("key")


def run_pinned(ctx, vh, prop):
    """Pinned regressions (replays/pinned/<prop>-*.json): programs that once exposed a defect."""
    d = verif.PINNED
    n = 0
    for f in sorted(os.listdir(d)) if os.path.isdir(d) else []:
        if not (f.startswith(prop + "-") and f.endswith(".json")):
            continue
        case = json.load(open(os.path.join(d, f)))["case"]["input"]
        if "prelude" not in case or "body" not in case:
            continue
        pre = case["prelude"]
        prog = {k: v for k, v in case.items() if k != "prelude"}
        res = replay(ctx, vh, prop, pre, [prog], "pinned-" + f[:-5], batch=1)
        ctx.absorb(res)
        n += 1
    ctx.cov["pinned_regressions"] = n
    return n


def load_replay(ctx):
    case = json.load(open(ctx.replay))["case"]["input"]
    if "prelude" not in case or "body" not in case:
        raise verif.ToolError("replay file has no self-contained program")
    return case["prelude"], {k: v for k, v in case.items() if k != "prelude"}
