"""Driver library for /verif checks (DESIGN.md §2).

A check is a module `checks/<Cxx>.py` exposing `run(ctx)`.  `bin/check` builds a `Ctx`,
calls `run`, and `ctx.finish()` writes the evidence file, prints KNOWN-FINDING / VIOLATION
lines and chooses the exit status:

    0  property held on everything explored (KNOWN-FINDING lines allowed)
    1  at least one violation not listed in known_findings.json (VIOLATION lines printed)
    2  tool error / time-out / spec-level TLC error (never a VIOLATION line)
"""
import hashlib
import json
import os
import random
import re
import shutil
import subprocess
import sys
import time

ROOT = os.path.dirname(os.path.dirname(os.path.abspath(__file__)))
TLA = os.path.join(ROOT, "tla")
HARNESS = os.environ.get("VERIF_HARNESS") or os.path.join(ROOT, "harness")
# VERIF_SCRATCH redirects everything a run writes (work dirs, replays, evidence) — used when a
# check is run against a mutated scratch copy so that /verif's own evidence is not overwritten.
_SCRATCH = os.environ.get("VERIF_SCRATCH")
WORK = os.path.join(_SCRATCH or ROOT, "work")
REPLAYS = os.path.join(_SCRATCH or ROOT, "replays")
EVIDENCE = os.path.join(_SCRATCH or ROOT, "evidence")
CACHE = os.path.join(ROOT, "work", "cache")          # TLC results do not depend on /repo: shared
PINNED = os.path.join(ROOT, "replays", "pinned")
KNOWN = os.path.join(ROOT, "known_findings.json")
TLA_JAR = "/opt/veriftools/tla/tla2tools.jar"
TLA_CP = TLA_JAR + ":/opt/veriftools/tla/CommunityModules-deps.jar"
REPO = os.environ.get("VERIF_REPO", "/repo")


class ToolError(Exception):
    pass


class TlcResult:
    def __init__(self):
        self.states = 0          # distinct states
        self.generated = 0       # states generated (= transitions explored)
        self.depth = 0
        self.replays = []        # parsed JSON of every `"REPLAY {...}"` line
        self.prints = []         # other PrintT lines
        self.coverage = {}       # action name -> (distinct, generated)
        self.violated = None     # name of a violated invariant/property of the spec, if any
        self.deadlock = False
        self.output = ""
        self.wall_s = 0.0
        self.complete = False    # "Model checking completed" seen


def _unescape_tla_string(s):
    # TLC prints strings with \" and \\ escapes
    return json.loads('"' + s + '"')


class Ctx:
    def __init__(self, prop, tier="quick", seed=None, replay=None):
        self.prop = prop
        self.tier = tier
        self.seed = int(seed) if seed is not None else 0
        self.replay = replay
        self.t0 = time.time()
        self.rng = random.Random(self.seed)
        self.workdir = os.path.join(WORK, prop)
        shutil.rmtree(self.workdir, ignore_errors=True)
        os.makedirs(self.workdir, exist_ok=True)
        os.makedirs(REPLAYS, exist_ok=True)
        os.makedirs(EVIDENCE, exist_ok=True)
        if not replay:
            for f in os.listdir(REPLAYS):
                if f.startswith(prop + "-") and f.endswith(".json"):
                    os.unlink(os.path.join(REPLAYS, f))
        self.nviol = 0
        self.violations = []     # (key, msg, replay_path)
        self.known_hits = []     # (key, what)
        self.cov = {}            # evidence coverage dict, filled by the check
        self.assumptions = []
        self.level = "model_checking"
        self.samples = []
        self.states = 0
        self.transitions = 0
        self.traces = 0
        self.drift = 0
        self.tlc_runs = []
        self._known = None
        self.thorough = tier == "thorough"
        self.tlc_workers = int(os.environ.get("VERIF_TLC_WORKERS", "8" if tier == "quick" else "14"))

    # ------------------------------------------------------------------ logging
    def log(self, *a):
        print("[%s %6.1fs]" % (self.prop, time.time() - self.t0), *a, file=sys.stderr, flush=True)

    # ------------------------------------------------------------------ cargo
    def build(self, engine, extra_env=None, features=None):
        """cargo build -p vh-<engine> against the current /repo tree (hooks enabled).
        features: cargo features of the engine crate; such a variant is built into its own
        target sub-directory (<target>/<features>) so it does not replace the default binary."""
        env = dict(os.environ)
        env["CARGO_NET_OFFLINE"] = "true"
        env.pop("RUSTFLAGS", None)  # .cargo/config.toml carries --cfg aranya_verif
        if extra_env:
            env.update(extra_env)
        if os.environ.get("VERIF_TARGET_DIR"):
            env["CARGO_TARGET_DIR"] = os.environ["VERIF_TARGET_DIR"]
        cmd_extra = []
        if features:
            base = env.get("CARGO_TARGET_DIR", os.path.join(HARNESS, "target"))
            env["CARGO_TARGET_DIR"] = os.path.join(base, features.replace(",", "_"))
            cmd_extra = ["--features", features]
        t = time.time()
        # every engine is its own cargo workspace (harness/engines/<engine>)
        p = subprocess.run(
            ["cargo", "build", "--offline", "-q"] + cmd_extra,
            cwd=os.path.join(HARNESS, "engines", engine), env=env, stdout=subprocess.PIPE, stderr=subprocess.STDOUT, text=True)
        if p.returncode != 0:
            sys.stderr.write(p.stdout[-6000:])
            raise ToolError("cargo build of vh-%s failed" % engine)
        self.log("built vh-%s in %.1fs" % (engine, time.time() - t))
        tgt = env.get("CARGO_TARGET_DIR", os.path.join(HARNESS, "target"))
        return os.path.join(tgt, "debug", "vh-" + engine)

    # ------------------------------------------------------------------ TLC
    def tlc(self, module, cfg, workers=None, timeout=600, simulate=None, depth=None,
            coverage=True, env=None, extra=None, allow_violation=False, dfs=False,
            java_opts=None, tag=None, cache=False, subst=None):
        """Run TLC on tla/<module>.tla with tla/<cfg>.  Returns TlcResult.

        cache=True: TLC's output depends only on the spec files, the config, the seed and the
        environment passed — not on /repo — so checks that share one enumeration (the graph
        properties) may reuse it; the key hashes all of those.

        A violated invariant of the *spec* is a tool-level failure (exit 2) unless
        allow_violation=True (used by binding self-tests and trace validation)."""
        tag = tag or cfg.replace(".cfg", "")
        cfg_path = os.path.join(TLA, cfg)
        if subst:
            # constants that depend on the run (seed, tier): textual substitution into a copy
            txt = open(cfg_path).read()
            for a, b in subst.items():
                if a not in txt:
                    raise ToolError("cfg substitution %r not found in %s" % (a, cfg))
                txt = txt.replace(a, str(b))
            cfg_path = os.path.join(self.workdir, tag + ".subst.cfg")
            open(cfg_path, "w").write(txt)
        ckey = None
        if cache:
            ckey = self._tlc_cache_key(module, cfg_path, simulate, depth, env, extra)
            cpath = os.path.join(CACHE, "tlc-%s.json" % ckey)
            if os.path.exists(cpath):
                try:
                    d = json.load(open(cpath))
                    r = TlcResult()
                    r.__dict__.update(d)
                    r.coverage = {k: tuple(v) for k, v in r.coverage.items()}
                    self.log("TLC %s/%s: cached (%d distinct, %d replay lines)" % (module, cfg, r.states, len(r.replays)))
                    self.tlc_runs.append({"module": module, "cfg": cfg, "states": r.states, "generated": r.generated,
                                          "depth": r.depth, "wall_s": round(r.wall_s, 2), "simulate": simulate or 0,
                                          "cached": True})
                    self.states += r.states
                    self.transitions += r.generated
                    return r
                except Exception:
                    pass
        md = os.path.join(self.workdir, "tlc-" + tag)
        shutil.rmtree(md, ignore_errors=True)
        os.makedirs(md, exist_ok=True)
        w = workers or self.tlc_workers
        jopts = ["-XX:+UseParallelGC", "-Xss1g"]
        if not any(o.startswith("-Xmx") for o in (java_opts or [])):
            jopts.append("-Xmx%s" % os.environ.get("VERIF_TLC_XMX", "8g"))
        if dfs:
            jopts.append("-Dtlc2.tool.queue.IStateQueue=StateDeque")
        if java_opts:
            jopts += java_opts
        cmd = ["java"] + jopts + ["-cp", TLA_CP, "tlc2.TLC", "-workers", str(w), "-metadir", md,
               "-cleanup", "-noGenerateSpecTE"]
        if coverage and not simulate:
            cmd += ["-coverage", "1"]
        if simulate:
            cmd += ["-simulate", "num=%d" % simulate]
            if depth:
                cmd += ["-depth", str(depth)]
            cmd += ["-seed", str(self.seed)]
        if extra:
            cmd += extra
        cmd += ["-config", cfg_path, os.path.join(TLA, module + ".tla")]
        e = dict(os.environ)
        if env:
            e.update({k: str(v) for k, v in env.items()})
        t = time.time()
        outp = os.path.join(self.workdir, "tlc-" + tag + ".out")
        with open(outp, "w") as fo:
            try:
                p = subprocess.run(cmd, cwd=md, env=e, stdout=fo, stderr=subprocess.STDOUT,
                                   timeout=timeout)
                rc = p.returncode
            except subprocess.TimeoutExpired:
                raise ToolError("TLC timed out after %ds on %s/%s" % (timeout, module, cfg))
        r = TlcResult()
        r.wall_s = time.time() - t
        r.output = open(outp, errors="replace").read()
        self._parse_tlc(r)
        shutil.rmtree(md, ignore_errors=True)
        self.log("TLC %s/%s: %d distinct, %d generated, %d replay lines, %.1fs%s" % (
            module, cfg, r.states, r.generated, len(r.replays), r.wall_s,
            " VIOLATED " + str(r.violated) if r.violated else ""))
        self.tlc_runs.append({"module": module, "cfg": cfg, "states": r.states,
                              "generated": r.generated, "depth": r.depth, "wall_s": round(r.wall_s, 2),
                              "simulate": simulate or 0})
        if r.violated and not allow_violation:
            sys.stderr.write(self._tail(r.output))
            raise ToolError("spec-level TLC error in %s/%s: %s (spec bug or design finding; "
                            "handled by a human, never a VIOLATION)" % (module, cfg, r.violated))
        if not r.violated and not r.complete and not simulate:
            sys.stderr.write(self._tail(r.output))
            raise ToolError("TLC did not complete on %s/%s (rc=%d)" % (module, cfg, rc))
        self.states += r.states
        self.transitions += r.generated
        if ckey and not r.violated:
            os.makedirs(CACHE, exist_ok=True)
            d = {k: v for k, v in r.__dict__.items() if k != "output"}
            d["output"] = ""
            tmp = os.path.join(CACHE, "tlc-%s.json.%d" % (ckey, os.getpid()))
            json.dump(d, open(tmp, "w"))
            os.replace(tmp, os.path.join(CACHE, "tlc-%s.json" % ckey))
        return r

    def _tlc_cache_key(self, module, cfg, simulate, depth, env, extra):
        h = hashlib.sha1()
        seen = set()

        def add(mod):
            if mod in seen:
                return
            seen.add(mod)
            p = os.path.join(TLA, mod + ".tla")
            if not os.path.exists(p):
                return
            txt = open(p).read()
            h.update(txt.encode())
            for m in re.finditer(r"^\s*(?:EXTENDS|INSTANCE)\s+(.*)$", txt, re.M):
                for name in re.split(r"[,\s]+", m.group(1)):
                    name = name.strip()
                    if name and re.match(r"^\w+$", name):
                        add(name)
        add(module)
        h.update(open(cfg).read().encode())
        h.update(json.dumps([self.seed if simulate else 0, simulate, depth, env, extra], sort_keys=True, default=str).encode())
        return h.hexdigest()[:20]

    @staticmethod
    def _tail(s, n=60):
        lines = [l for l in s.splitlines() if not l.startswith('"REPLAY ')]
        return "\n".join(lines[-n:]) + "\n"

    def _parse_tlc(self, r):
        for line in r.output.splitlines():
            if line.startswith('"REPLAY ') and line.endswith('"'):
                try:
                    r.replays.append(json.loads(_unescape_tla_string(line[1:-1])[7:]))
                except Exception as ex:  # noqa
                    raise ToolError("unparsable REPLAY line: %r (%s)" % (line[:200], ex))
                continue
            if line.startswith('"PRINT '):
                r.prints.append(_unescape_tla_string(line[1:-1])[6:])
                continue
            m = re.match(r"^(\d+) states generated, (\d+) distinct states found", line)
            if m:
                r.generated, r.states = int(m.group(1)), int(m.group(2))
                continue
            m = re.match(r"^The depth of the complete state graph search is (\d+)", line)
            if m:
                r.depth = int(m.group(1))
            m = re.match(r"^<(\w+) line \d+, col \d+ to line \d+, col \d+ of module (\w+)(?: \([\d ]+\))?>: (\d+):(\d+)", line)
            if m:
                a = m.group(1)
                d, g = int(m.group(3)), int(m.group(4))
                od, og = r.coverage.get(a, (0, 0))
                r.coverage[a] = (od + d, og + g)
                continue
            if "Model checking completed. No error has been found." in line:
                r.complete = True
            m = re.match(r"^Error: Invariant (\S+) is violated", line)
            if m:
                r.violated = m.group(1)
            elif line.startswith("Error: Action property") or line.startswith("Error: Temporal properties were violated"):
                r.violated = r.violated or line[7:].strip()
            elif line.startswith("Error: Deadlock reached"):
                r.violated = r.violated or "Deadlock"
                r.deadlock = True
            elif line.startswith("Error:") and r.violated is None:
                r.violated = line[7:].strip() or "error"
        # simulation mode prints "Progress: N states checked" — keep generated as-is
        if r.generated == 0:
            m = re.findall(r"Progress: (\d+) states checked", r.output)
            if m:
                r.generated = int(m[-1])
                r.states = max(r.states, 1)

    def require_actions(self, r, actions):
        """Vacuity guard: every action the property depends on was taken at least once."""
        missing = [a for a in actions if r.coverage.get(a, (0, 0))[1] == 0]
        if missing:
            raise ToolError("vacuous model run: actions never taken: %s" % ", ".join(missing))
        self.cov.setdefault("coverage_actions", {}).update(
            {a: r.coverage[a][1] for a in actions})

    # ------------------------------------------------------------------ engines
    def write_ndjson(self, name, items):
        p = os.path.join(self.workdir, name)
        with open(p, "w") as f:
            for it in items:
                f.write(json.dumps(it, separators=(",", ":")) + "\n")
        return p

    def run_engine(self, binary, sub, items, opts=None, timeout=900, tag=None, env=None):
        """Replay `items` (list of JSON behaviours) through `binary sub`; returns result list
        (one dict per item, with the input attached under '_in')."""
        tag = tag or sub
        inp = self.write_ndjson(tag + ".in.ndjson", items)
        outp = os.path.join(self.workdir, tag + ".out.ndjson")
        cmd = [binary, sub, "--in", inp, "--out", outp, "--seed", str(self.seed)]
        for k, v in (opts or {}).items():
            cmd += ["--opt", "%s=%s" % (k, v)]
        e = dict(os.environ)
        if env:
            e.update({k: str(v) for k, v in env.items()})
        t = time.time()
        try:
            p = subprocess.run(cmd, cwd=self.workdir, env=e, stdout=subprocess.PIPE,
                               stderr=subprocess.PIPE, text=True, timeout=timeout)
        except subprocess.TimeoutExpired:
            raise ToolError("engine %s %s timed out after %ds" % (os.path.basename(binary), sub, timeout))
        res = []
        if os.path.exists(outp):
            for line in open(outp):
                line = line.strip()
                if line:
                    try:
                        res.append(json.loads(line))
                    except ValueError:
                        # a truncated last line: the engine process died while writing
                        if p.returncode == 0:
                            raise
                        break
        if p.returncode != 0:
            # The engine died (abort/segfault in code under test, or a tool error).
            sys.stderr.write(p.stderr[-4000:])
            if p.returncode == 2:
                raise ToolError("engine %s %s reported a tool error" % (os.path.basename(binary), sub))
            done = {r.get("i") for r in res}
            nxt = next((i for i in range(len(items)) if i not in done), None)
            res.append({"i": nxt if nxt is not None else -1, "ok": False, "step": -1,
                        "key": "%s:engine-crash" % self.prop,
                        "msg": "engine process died with status %d (abort/segfault/uncaught panic in "
                               "code under test) at or after behaviour %s" % (p.returncode, nxt),
                        "obs": {"stderr": p.stderr[-1500:]}})
        for r in res:
            i = r.get("i", -1)
            if isinstance(i, int) and 0 <= i < len(items):
                r["_in"] = items[i]
        self.log("%s %s: %d behaviours, %d results, %d failing, %.1fs" % (
            os.path.basename(binary), sub, len(items), len(res),
            sum(1 for r in res if not r.get("ok")), time.time() - t))
        return res

    def absorb(self, results, count_traces=True, only_own=False):
        """Default handling of engine results: count, record drift, report failures.
        only_own=True: failures whose key names another property (engines shared by several
        properties emit keys `Cxx:...`) are counted in the evidence but reported by that
        property's own check, which runs the same cases."""
        for r in results:
            self.drift += int(r.get("drift", 0) or 0)
            if not r.get("ok", False):
                k = r.get("key", "")
                # an engine may name further properties whose predicate the same failure breaks
                own_alias = next((a for a in r.get("also", []) if a.startswith(self.prop + ":")), None)
                if own_alias and not k.startswith(self.prop + ":"):
                    r = dict(r)
                    r["msg"] = "%s (primary key %s)" % (r.get("msg", ""), k)
                    r["key"] = k = own_alias
                if only_own and re.match(r"^C\d\d:", k) and not k.startswith(self.prop + ":"):
                    self.cov["failures_of_other_properties"] = self.cov.get("failures_of_other_properties", 0) + 1
                    self.cov.setdefault("other_property_keys", [])
                    if k not in self.cov["other_property_keys"]:
                        self.cov["other_property_keys"].append(k)
                    continue
                self.violation(r.get("key", self.prop + ":unknown"), r.get("msg", ""),
                               {"input": r.get("_in"), "result": {k: v for k, v in r.items() if k != "_in"}})
        if count_traces:
            self.traces += len(results)
        if results and len(self.samples) < 3:
            for r in results[: 3 - len(self.samples)]:
                self.samples.append(r.get("_in"))

    # ------------------------------------------------------------------ trace validation (I2S)
    def validate_trace(self, module, cfg, trace_path, timeout=300, env=None, tag=None):
        """Run a Trace_*.tla spec over an ndjson trace (IOEnv.TRACE).  The trace spec's
        POSTCONDITION must print 'TRACE-ACCEPTED' or 'TRACE-REJECTED at <n>'.
        Returns (accepted: bool, matched_prefix_len or None, TlcResult)."""
        e = {"TRACE": trace_path}
        if env:
            e.update(env)
        r = self.tlc(module, cfg, workers=1, timeout=timeout, coverage=False, env=e,
                     allow_violation=True, dfs=True, java_opts=["-Xmx4g"], tag=tag or ("trace-" + module))
        out = r.output
        if "TRACE-ACCEPTED" in out and not r.violated:
            return True, None, r
        m = re.search(r"TRACE-REJECTED at (\d+)", out)
        return False, int(m.group(1)) if m else None, r

    # ------------------------------------------------------------------ verdicts
    def known(self):
        if self._known is None:
            self._known = []
            if os.path.exists(KNOWN):
                self._known = list(json.load(open(KNOWN)).get("findings", []))
            d = os.path.join(ROOT, "known_findings.d")
            if os.path.isdir(d):
                for f in sorted(os.listdir(d)):
                    if f.endswith(".json"):
                        self._known += json.load(open(os.path.join(d, f))).get("findings", [])
        return self._known

    def violation(self, key, msg, replay_obj):
        """Record a failure of the property's own observable predicate on the real code."""
        for k in self.known():
            if k.get("status") == "known" and k.get("property") == self.prop and k.get("key") == key:
                if key not in [x[0] for x in self.known_hits]:
                    self.known_hits.append((key, k.get("what", msg)))
                return
        self.nviol += 1
        if sum(1 for v in self.violations if v[0] == key) >= 2 or len(self.violations) >= 12:
            return  # counted; enough replay files for this class
        h = hashlib.sha1(json.dumps(replay_obj, sort_keys=True, default=str).encode()).hexdigest()[:12]
        path = os.path.join(REPLAYS, "%s-%s.json" % (self.prop, h))
        with open(path, "w") as f:
            json.dump({"property": self.prop, "key": key, "msg": msg, "tier": self.tier,
                       "seed": self.seed, "case": replay_obj}, f, indent=1, default=str)
        self.violations.append((key, msg, path))

    def finish(self, level=None, extra_cov=None, assumptions=None):
        level = level or self.level
        cov = dict(self.cov)
        if extra_cov:
            cov.update(extra_cov)
        samples = [s for s in self.samples if s is not None][:5]
        cov.setdefault("samples", samples if samples else cov.get("samples", []))
        if level == "model_checking":
            cov.setdefault("states", self.states)
            cov.setdefault("transitions", self.transitions)
            cov.setdefault("traces_validated_against_impl", self.traces)
        cov.setdefault("drift", self.drift)
        cov.setdefault("tlc_runs", self.tlc_runs)
        cov["known_findings_hit"] = [k for k, _ in self.known_hits]
        ev = {
            "property_id": self.prop,
            "tier": self.tier,
            "seed": self.seed,
            "level": level,
            "coverage": cov,
            "assumptions": (assumptions or []) + self.assumptions,
            "wall_s": round(time.time() - self.t0, 2),
            "violations": self.nviol,
        }
        # a --replay run re-executes one stored case: it must not replace the evidence of the
        # last full run (and would not be a valid record of the claimed level)
        name = self.prop + (".replay.json" if self.replay else ".json")
        with open(os.path.join(EVIDENCE, name), "w") as f:
            json.dump(ev, f, indent=1, default=str)
        for key, what in self.known_hits:
            print("KNOWN-FINDING: property=%s %s — %s" % (self.prop, key, what))
        for key, msg, path in self.violations:
            print("VIOLATION property=%s replay=%s" % (self.prop, path))
            print("  [%s] %s" % (key, msg))
        sys.stdout.flush()
        return 1 if self.violations else 0


def sample(rng, items, n):
    """Seeded sample of at most n items, order-preserving."""
    if len(items) <= n:
        return list(items)
    idx = sorted(rng.sample(range(len(items)), n))
    return [items[i] for i in idx]
