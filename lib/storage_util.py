"""Helpers shared by the storage-area checks (C12, C13, C14, C21)."""
import re


def parse_action_coverage(r):
    """TLC prints `<Name line a, col b to line c, col d of module M (a b c d)>: distinct:generated`
    for actions whose definition has a sub-expression location; the driver library's pattern only
    accepts the form without the parenthesised part.  Fill r.coverage from r.output for both."""
    pat = re.compile(r"^<(\w+) line \d+, col \d+ to line \d+, col \d+ of module \w+(?: \([\d ]+\))?>: (\d+):(\d+)")
    cov = {}
    for line in r.output.splitlines():
        m = pat.match(line)
        if m:
            d, g = int(m.group(2)), int(m.group(3))
            od, og = cov.get(m.group(1), (0, 0))
            # the statistics are printed cumulatively several times: keep the maximum
            cov[m.group(1)] = (max(od, d), max(og, g))
    r.coverage.update(cov)
    return r


def dedupe_by_prefix(behs):
    """TLC's simulator evaluates the emitting invariant on every candidate of the last step: keep
    one behaviour per distinct prefix (all steps but the last)."""
    import json
    seen, out = set(), []
    for b in behs:
        key = json.dumps(b["h"][:-1], sort_keys=True)
        if key in seen:
            continue
        seen.add(key)
        out.append(b)
    return out


def cfg_constants(tla_dir, cfg):
    import os
    txt = open(os.path.join(tla_dir, cfg)).read()
    body = txt.split("CONSTANTS", 1)[1]
    for stop in ("ACTION_CONSTRAINT", "CONSTRAINT", "VIEW", "INVARIANT"):
        body = body.split(stop, 1)[0]
    return [l.strip() for l in body.splitlines() if l.strip()]
