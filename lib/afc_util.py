"""Helpers shared by the fast-channel checks C33, C40-C44 (SCHED binding, DESIGN §2.1)."""
import json
import os

import pathcover
import verif


def dump_graph(ctx, module, cfg, timeout=600, tag=None, workers=None):
    """Exhaustive TLC run that also dumps the labelled state graph; returns (TlcResult, Graph)."""
    tag = tag or cfg.replace(".cfg", "")
    dot = os.path.join(ctx.workdir, tag + ".dot")
    if os.path.exists(dot):
        os.unlink(dot)
    r = ctx.tlc(module, cfg, timeout=timeout, extra=["-dump", "dot,actionlabels", dot], tag=tag,
                workers=workers)
    if not os.path.exists(dot):
        raise verif.ToolError("TLC wrote no state graph dump for %s/%s" % (module, cfg))
    g = pathcover.load_dot(dot)
    if g.nstates != r.states:
        raise verif.ToolError("state graph dump of %s/%s has %d states, TLC reported %d"
                              % (module, cfg, g.nstates, r.states))
    os.unlink(dot)
    return r, g


def _sha(*paths):
    import hashlib
    h = hashlib.sha1()
    for p in paths:
        h.update(open(p, "rb").read())
        h.update(b"\0")
    return h.hexdigest()[:16]


def _delta(steps):
    """Keep, per step, only the keys whose value differs from the previous step (`a`/`t` always)."""
    out, prev = [], {}
    for st in steps:
        d = {k: v for k, v in st.items() if k in ("a", "t") or prev.get(k, _MISSING) != v}
        out.append(d)
        prev = st
    return out


_MISSING = object()


def schedules(ctx, module, cfg, project, timeout=1200, extra_key="", max_len=600, project_init=None,
              delta=False, targeted=None):
    """Transition-cover schedules of tla/<module>.tla under tla/<cfg>.

    Runs TLC exhaustively (all invariants of the cfg are checked) with the labelled state graph
    dumped, computes edge-covering complete paths and projects every step with
    `project(action, args, post_state) -> dict`.  Returns (info, behaviours_steps) where
    behaviours_steps is a list of step lists — or, with `project_init(init_state) -> dict`
    (specs with several initial states), a list of `{"init": .., "steps": [..]}`.
    delta=True: a step only carries the keys that changed (the engines' driver accumulates them).
    targeted(g) -> extra paths (edge index lists): a schedule family aimed at a step *sequence* that
    edge coverage alone does not force; they are appended (info["targeted_paths"] = their number).  The result only depends on the spec, the cfg and
    this code, so it is cached under work/cache (like ctx.tlc(cache=True))."""
    import inspect
    spec_files = [os.path.join(verif.TLA, module + ".tla"), os.path.join(verif.TLA, cfg),
                  os.path.abspath(pathcover.__file__)]
    # modules the MC_ wrapper extends
    if module.startswith("MC_") and os.path.exists(os.path.join(verif.TLA, module[3:] + ".tla")):
        spec_files.append(os.path.join(verif.TLA, module[3:] + ".tla"))
    key = _sha(*spec_files)
    import hashlib
    key += hashlib.sha1((inspect.getsource(project) + inspect.getsource(schedules) + inspect.getsource(_delta)
                         + extra_key + ("delta" if delta else "")
                         + (inspect.getsource(targeted) if targeted else "")
                         + (inspect.getsource(project_init) if project_init else "")).encode()).hexdigest()[:8]
    cdir = os.path.join(verif.WORK, "cache")
    cpath = os.path.join(cdir, "sched-%s-%s.json" % (cfg.replace(".cfg", ""), key))
    if os.path.exists(cpath) and not os.environ.get("VERIF_NO_CACHE"):
        try:
            d = json.load(open(cpath))
            info, beh = d["info"], d["beh"]
            ctx.log("schedules %s/%s: cached (%d states, %d paths)" % (module, cfg, info["states"], len(beh)))
            ctx.states += info["states"]
            ctx.transitions += info["generated"]
            ctx.tlc_runs.append({"module": module, "cfg": cfg, "states": info["states"], "generated": info["generated"],
                                 "depth": info["depth"], "wall_s": info["wall_s"], "simulate": 0, "cached": True})
            ctx.cov.setdefault("coverage_actions", {}).update(info["actions"])
            return info, beh
        except Exception:
            pass
    r, g = dump_graph(ctx, module, cfg, timeout=timeout)
    paths = cover(ctx, g, max_len=max_len)
    ncover = len(paths)
    if targeted:
        paths = paths + targeted(g)
    memo = {}

    def pe(e):      # the projection of a step only depends on the edge
        r = memo.get(e)
        if r is None:
            _, d, a, args = g.edges[e]
            r = memo[e] = project(a, args, g.state(d))
        return r
    beh = [[pe(e) for e in p] for p in paths]
    if delta:
        beh = [_delta(st) for st in beh]
    if project_init:
        beh = [{"init": project_init(g.state(g.edges[p[0]][0])), "steps": st} for p, st in zip(paths, beh) if p]
    actions = {}
    for (_, _, a, _) in g.edges:
        actions[a] = actions.get(a, 0) + 1
    info = {"states": g.nstates, "transitions": len(g.edges), "cover_paths": ncover,
            "targeted_paths": len(paths) - ncover, "generated": r.generated,
            "depth": r.depth, "wall_s": round(r.wall_s, 2), "actions": actions,
            "init": g.state(g.init[0])}
    ctx.cov.setdefault("coverage_actions", {}).update(actions)
    os.makedirs(cdir, exist_ok=True)
    tmp = cpath + ".tmp%d" % os.getpid()
    json.dump({"info": info, "beh": beh}, open(tmp, "w"), separators=(",", ":"))
    os.replace(tmp, cpath)
    return info, beh


def require_graph_actions(info, actions):
    """Vacuity guard on a schedule graph: every listed action labels at least one transition."""
    missing = [a for a in actions if info["actions"].get(a, 0) == 0]
    if missing:
        raise verif.ToolError("vacuous schedule graph: actions never taken: %s" % ", ".join(missing))


def replay(ctx, vh, sub, beh, tag=None, opts=None, timeout=1800):
    res = ctx.run_engine(vh, sub, beh, tag=tag or sub, opts=opts, timeout=timeout)
    if any(str(x.get("key", "")).endswith(":engine-crash") for x in res):
        return res      # the engine process died in the code under test: reported as a failure
    if len(res) != len(beh):
        raise verif.ToolError("engine returned %d results for %d schedules" % (len(res), len(beh)))
    return res


def cover(ctx, g, max_len=600):
    """Edge-covering complete paths + the measured coverage."""
    paths = pathcover.cover_paths(g, max_len=max_len)
    c, n = pathcover.coverage(g, paths)
    if c != n:
        raise verif.ToolError("path cover misses %d of %d transitions" % (n - c, n))
    return paths


def cfg_constants(cfg):
    """The CONSTANTS section of a cfg as a dict of strings."""
    txt = open(os.path.join(verif.TLA, cfg)).read()
    out = {}
    on = False
    for line in txt.splitlines():
        s = line.strip()
        if s.startswith("\\*") or not s:
            continue
        if s.startswith("CONSTANTS") or s.startswith("CONSTANT"):
            on = True
            continue
        if on and "=" in s and not s.split()[0].isupper():
            k, v = s.split("=", 1)
            out[k.strip()] = v.strip()
        elif on and "<-" in s:
            k, v = s.split("<-", 1)
            out[k.strip()] = v.strip()
        else:
            on = False
    return out


def load_replay(ctx):
    return json.load(open(ctx.replay))["case"]["input"]


# ----------------------------------------------------------------------------- AfcShm (C40-C42)
def shm_project(a, args, s):
    d = {"a": a, "t": args[0] if args else 100, "g": [s["gen"]["A"], s["gen"]["B"]],
         "cA": s["chans"]["A"], "cB": s["chans"]["B"], "ro": s["read_off"], "wo": s["write_off"],
         "p0": s["pc"]["100"], "wr": s["wres"]}
    for i in range(len(s["what"])):
        d["p%d" % (i + 1)] = s["pc"][str(i + 1)]
        d["r%d" % (i + 1)] = [s["what"][i], s["tid"][i], s["rfail"][i], s["ctx"][i], s["res"][i]]
    return d


def shm_init(s):
    return {"script": s["script"]}


def shm_behaviours(ctx, cfg, timeout=1800):
    """(info, behaviours) for `vh-afc shm` from the AfcShm state graph under tla/<cfg>."""
    info, beh = schedules(ctx, "MC_AfcShm", cfg, shm_project, project_init=shm_init, delta=True, timeout=timeout)
    c = cfg_constants(cfg)
    n = len(info["init"]["what"])
    out = [{"cap": int(c["Cap"]), "readers": n, "rops": int(c["ROps"]), "script": b["init"]["script"],
            "steps": b["steps"]} for b in beh]
    return info, out


SHM_ACTIONS = ["wop", "wl1", "wb1", "ws", "wl2", "wb2", "rop", "l1", "e2", "lk"]
SHM_GRAPHS = [("MC_AfcShm_g1.cfg", 2000), ("MC_AfcShm_g2.cfg", 1500), ("MC_AfcShm_g3.cfg", 5000)]


def trace_line_to_run(trace_path, n):
    """Index of the run (`reset` record's i) that holds line n (1-based) of an ndjson trace."""
    run = None
    with open(trace_path) as f:
        for k, line in enumerate(f, 1):
            if '"ev":"reset"' in line:
                run = json.loads(line)["i"]
            if k >= n:
                break
    return run


def validate_history(ctx, prop, trace_path, beh, tag):
    """I2S: the recorded call/return history against AfcAbs (guards of `prop`).  A rejected trace
    is a violation of `prop` whose replay is the schedule that produced the unmatched event."""
    ok, n, r = ctx.validate_trace("Trace_AfcAbs", "Trace_AfcAbs.cfg", trace_path, env={"PROP": prop},
                                  tag=tag, timeout=900)
    nev = sum(1 for _ in open(trace_path))
    if ok:
        return nev
    if n is None:
        raise verif.ToolError("trace validation against AfcAbs failed without a verdict")
    run = trace_line_to_run(trace_path, n)
    line = open(trace_path).read().splitlines()[n - 1] if n <= nev else "?"
    ctx.violation("%s:history-rejected" % prop,
                  "the real call/return history is not a behaviour of AfcAbs (guards of %s): event %d %s" % (prop, n, line),
                  {"input": beh[run] if run is not None and run < len(beh) else None, "trace_line": n, "event": line})
    return nev


def shm_check(ctx, vh, prop, mc_cfgs, mutant, actions=None):
    """The common part of C40 / C41 / C42 on the shared-memory state."""
    # 1. design level: exhaustive TLC with every invariant of AfcShm
    for cfg in mc_cfgs:
        r = ctx.tlc("MC_AfcShm", cfg, timeout=3000, cache=True)
        ctx.require_actions(r, actions or SHM_ACTIONS)
    # 2. the invariant of this property is not vacuous: the spec-level mutant must be rejected
    sel = []
    for mcfg, minv in ([mutant] if mutant and isinstance(mutant[0], str) else (mutant or [])):
        rm = ctx.tlc("MC_AfcShm", mcfg, allow_violation=True, cache=True, timeout=900)
        if rm.violated != minv:
            raise verif.ToolError("self-test failed: spec mutant %s gave %r, expected a violation of %s"
                                  % (mcfg, rm.violated, minv))
        sel.append("spec mutant %s rejected by TLC (%s)" % (mcfg, rm.violated))
    # 3. schedules: transition cover of the schedule graphs, replayed on the real WriteState/ReadState
    graphs = {}
    first = None
    bycap = {}      # capacity -> (combined behaviours, combined trace lines): one validation run each
    for cfg, cap in SHM_GRAPHS:
        info, beh = shm_behaviours(ctx, cfg)
        require_graph_actions(info, SHM_ACTIONS)
        total = len(beh)
        if not ctx.thorough and len(beh) > cap:
            beh = verif.sample(ctx.rng, beh, cap)
        tag = "shm-" + cfg[10:-4]
        trace = os.path.join(ctx.workdir, tag + ".trace.ndjson")
        res = replay(ctx, vh, "shm", beh, tag=tag, opts={"only": prop, "trace": trace,
                                                         "trace_max": 100000 if ctx.thorough else 400})
        ctx.absorb(res)
        allb, lines = bycap.setdefault(beh[0]["cap"] if beh else 0, ([], []))
        base = len(allb)
        allb.extend(beh)
        nev = 0
        for line in open(trace):
            if '"ev":"reset"' in line:
                e = json.loads(line)
                e["i"] += base
                line = e
            lines.append(line)
            nev += 1
        graphs[cfg] = {"constants": cfg_constants(cfg), "states": info["states"], "transitions": info["transitions"],
                       "cover_paths": total, "replayed": len(beh),
                       "steps_executed": sum(x.get("steps", 0) for x in res),
                       "history_events_validated_against_AfcAbs": nev}
        if first is None:
            first = (beh, trace)
    for cap, (allb, lines) in sorted(bycap.items()):
        tp = os.path.join(ctx.workdir, "shm-cap%d.trace.ndjson" % cap)
        # one reader universe for the combined runs (readers a run does not have never act)
        nread = max([e["readers"] for e in lines if isinstance(e, dict)] or [0])
        with open(tp, "w") as f:
            for e in lines:
                if isinstance(e, dict):
                    e["readers"] = nread
                    e = json.dumps(e, separators=(",", ":")) + "\n"
                f.write(e)
        validate_history(ctx, prop, tp, allb, tag="trace-shm-cap%d" % cap)
    ctx.cov.update({"exhaustive": True, "schedule_graphs": graphs,
                    "design_constants": {c: cfg_constants(c) for c in mc_cfgs}})
    ctx.assumptions += [
        "yield points precede read_off load/swap, generation load/fetch_add and the list locks in shm/*.rs; list contents are only touched under the lock",
        "sequentially consistent interleavings only (memory-ordering weakening out of scope, DESIGN §9)",
        "one process, threads as coroutines; the writer and the readers map the same POSIX shm object",
    ]
    return first, sel


# ----------------------------------------------------------------------------- AfcMem (C40, C41)
MEM_ACTIONS = ["wop", "wlk", "rop", "lk", "ld", "dsw", "fr"]


def mem_project(a, args, s):
    d = {"a": a, "t": args[0] if args else 100, "ch": s["chans"], "sh": s["shared"], "fr": s["freed"],
         "p0": s["pc"]["100"], "wr": s["wres"]}
    for i in range(len(s["what"])):
        d["p%d" % (i + 1)] = s["pc"][str(i + 1)]
        d["r%d" % (i + 1)] = [s["what"][i], s["tid"][i], s["rfail"][i], s["cid"][i], s["res"][i]]
    return d


def mem_behaviours(ctx, cfg, timeout=1800):
    info, beh = schedules(ctx, "MC_AfcMem", cfg, mem_project, project_init=shm_init, delta=True, timeout=timeout)
    c = cfg_constants(cfg)
    n = len(info["init"]["what"])
    out = [{"engine": "mem", "readers": n, "rops": int(c["ROps"]), "script": b["init"]["script"], "steps": b["steps"]}
           for b in beh]
    return info, out


def mem_check(ctx, vh, prop, validate=True):
    """The memory::State part of C40 / C41: MC AfcMem + SCHED replay + history validation."""
    r = ctx.tlc("MC_AfcMem", "MC_AfcMem.cfg", timeout=2400, cache=True)
    ctx.require_actions(r, MEM_ACTIONS)
    if prop == "C41":
        rm = ctx.tlc("MC_AfcMem", "MC_AfcMem_mutant.cfg", allow_violation=True, cache=True, timeout=600)
        if rm.violated != "NoResurrection":
            raise verif.ToolError("self-test failed: spec mutant MC_AfcMem_mutant.cfg gave %r, expected a violation "
                                  "of NoResurrection" % rm.violated)
        ctx.cov.setdefault("selftests_mem", []).append("spec mutant clear_resets_ids rejected by TLC (NoResurrection)")
    info, beh = mem_behaviours(ctx, "MC_AfcMem_g.cfg")
    require_graph_actions(info, MEM_ACTIONS)
    total = len(beh)
    if not ctx.thorough and len(beh) > 2000:
        beh = verif.sample(ctx.rng, beh, 2000)
    trace = os.path.join(ctx.workdir, "mem.trace.ndjson")
    res = replay(ctx, vh, "mem", beh, tag="mem", opts={"only": prop, "trace": trace,
                                                        "trace_max": 100000 if ctx.thorough else 500})
    ctx.absorb(res)
    nev = validate_history(ctx, prop, trace, beh, tag="trace-mem") if validate else 0
    ctx.cov.setdefault("schedule_graphs", {})["MC_AfcMem_g.cfg"] = {
        "constants": cfg_constants("MC_AfcMem_g.cfg"), "states": info["states"], "transitions": info["transitions"],
        "cover_paths": total, "replayed": len(beh), "steps_executed": sum(x.get("steps", 0) for x in res),
        "history_events_validated_against_AfcAbs": nev}
    ctx.cov.setdefault("design_constants", {})["MC_AfcMem.cfg"] = cfg_constants("MC_AfcMem.cfg")
    ctx.assumptions.append("memory::State: its std mutex is announced by lock/unlock marker points; a critical section runs as one atomic step")
