"""Helpers shared by the fast-channel checks C33, C40-C44 (SCHED binding, DESIGN §2.1)."""
import json
import os

import pathcover
import verif


def dump_graph(ctx, module, cfg, timeout=600, tag=None, workers=None):
    """Exhaustive TLC run that also dumps the labelled state graph; returns (TlcResult, Graph)."""
    tag = tag or cfg.replace(".cfg", "")
    dot = os.path.join(ctx.workdir, tag + ".dot")
    if os.path.exists(dot):
        os.unlink(dot)
    r = ctx.tlc(module, cfg, timeout=timeout, extra=["-dump", "dot,actionlabels", dot], tag=tag,
                workers=workers)
    if not os.path.exists(dot):
        raise verif.ToolError("TLC wrote no state graph dump for %s/%s" % (module, cfg))
    g = pathcover.load_dot(dot)
    if g.nstates != r.states:
        raise verif.ToolError("state graph dump of %s/%s has %d states, TLC reported %d"
                              % (module, cfg, g.nstates, r.states))
    os.unlink(dot)
    return r, g


def cover(ctx, g, max_len=600):
    """Edge-covering complete paths + the measured coverage."""
    paths = pathcover.cover_paths(g, max_len=max_len)
    c, n = pathcover.coverage(g, paths)
    if c != n:
        raise verif.ToolError("path cover misses %d of %d transitions" % (n - c, n))
    return paths


def cfg_constants(cfg):
    """The CONSTANTS section of a cfg as a dict of strings."""
    txt = open(os.path.join(verif.TLA, cfg)).read()
    out = {}
    on = False
    for line in txt.splitlines():
        s = line.strip()
        if s.startswith("\\*") or not s:
            continue
        if s.startswith("CONSTANTS") or s.startswith("CONSTANT"):
            on = True
            continue
        if on and "=" in s and not s.split()[0].isupper():
            k, v = s.split("=", 1)
            out[k.strip()] = v.strip()
        elif on and "<-" in s:
            k, v = s.split("<-", 1)
            out[k.strip()] = v.strip()
        else:
            on = False
    return out


def load_replay(ctx):
    return json.load(open(ctx.replay))["case"]["input"]
