"""Helpers shared by the fast-channel checks C33, C40-C44 (SCHED binding, DESIGN §2.1)."""
import json
import os

import pathcover
import verif


def dump_graph(ctx, module, cfg, timeout=600, tag=None, workers=None):
    """Exhaustive TLC run that also dumps the labelled state graph; returns (TlcResult, Graph)."""
    tag = tag or cfg.replace(".cfg", "")
    dot = os.path.join(ctx.workdir, tag + ".dot")
    if os.path.exists(dot):
        os.unlink(dot)
    r = ctx.tlc(module, cfg, timeout=timeout, extra=["-dump", "dot,actionlabels", dot], tag=tag,
                workers=workers)
    if not os.path.exists(dot):
        raise verif.ToolError("TLC wrote no state graph dump for %s/%s" % (module, cfg))
    g = pathcover.load_dot(dot)
    if g.nstates != r.states:
        raise verif.ToolError("state graph dump of %s/%s has %d states, TLC reported %d"
                              % (module, cfg, g.nstates, r.states))
    os.unlink(dot)
    return r, g


def _sha(*paths):
    import hashlib
    h = hashlib.sha1()
    for p in paths:
        h.update(open(p, "rb").read())
        h.update(b"\0")
    return h.hexdigest()[:16]


def schedules(ctx, module, cfg, project, timeout=1200, extra_key="", max_len=600):
    """Transition-cover schedules of tla/<module>.tla under tla/<cfg>.

    Runs TLC exhaustively (all invariants of the cfg are checked) with the labelled state graph
    dumped, computes edge-covering complete paths and projects every step with
    `project(action, args, post_state) -> dict`.  Returns (info, behaviours_steps) where
    behaviours_steps is a list of step lists.  The result only depends on the spec, the cfg and
    this code, so it is cached under work/cache (like ctx.tlc(cache=True))."""
    import inspect
    key = _sha(os.path.join(verif.TLA, module + ".tla"), os.path.join(verif.TLA, cfg),
               os.path.abspath(pathcover.__file__), os.path.abspath(__file__))
    import hashlib
    key += hashlib.sha1((inspect.getsource(project) + extra_key).encode()).hexdigest()[:8]
    cdir = os.path.join(verif.WORK, "cache")
    cpath = os.path.join(cdir, "sched-%s-%s.json" % (cfg.replace(".cfg", ""), key))
    if os.path.exists(cpath) and not os.environ.get("VERIF_NO_CACHE"):
        try:
            d = json.load(open(cpath))
            info, beh = d["info"], d["beh"]
            ctx.log("schedules %s/%s: cached (%d states, %d paths)" % (module, cfg, info["states"], len(beh)))
            ctx.states += info["states"]
            ctx.transitions += info["generated"]
            ctx.tlc_runs.append({"module": module, "cfg": cfg, "states": info["states"], "generated": info["generated"],
                                 "depth": info["depth"], "wall_s": info["wall_s"], "simulate": 0, "cached": True})
            ctx.cov.setdefault("coverage_actions", {}).update(info["actions"])
            return info, beh
        except Exception:
            pass
    r, g = dump_graph(ctx, module, cfg, timeout=timeout)
    paths = cover(ctx, g, max_len=max_len)
    beh = [[project(a, args, s) for a, args, s in g.steps(p)] for p in paths]
    actions = {}
    for (_, _, a, _) in g.edges:
        actions[a] = actions.get(a, 0) + 1
    info = {"states": g.nstates, "transitions": len(g.edges), "cover_paths": len(paths), "generated": r.generated,
            "depth": r.depth, "wall_s": round(r.wall_s, 2), "actions": actions,
            "init": g.state(g.init[0])}
    ctx.cov.setdefault("coverage_actions", {}).update(actions)
    os.makedirs(cdir, exist_ok=True)
    tmp = cpath + ".tmp%d" % os.getpid()
    json.dump({"info": info, "beh": beh}, open(tmp, "w"), separators=(",", ":"))
    os.replace(tmp, cpath)
    return info, beh


def require_graph_actions(info, actions):
    """Vacuity guard on a schedule graph: every listed action labels at least one transition."""
    missing = [a for a in actions if info["actions"].get(a, 0) == 0]
    if missing:
        raise verif.ToolError("vacuous schedule graph: actions never taken: %s" % ", ".join(missing))


def replay(ctx, vh, sub, beh, tag=None, opts=None, timeout=1800):
    res = ctx.run_engine(vh, sub, beh, tag=tag or sub, opts=opts, timeout=timeout)
    if len(res) != len(beh):
        raise verif.ToolError("engine returned %d results for %d schedules" % (len(res), len(beh)))
    return res


def cover(ctx, g, max_len=600):
    """Edge-covering complete paths + the measured coverage."""
    paths = pathcover.cover_paths(g, max_len=max_len)
    c, n = pathcover.coverage(g, paths)
    if c != n:
        raise verif.ToolError("path cover misses %d of %d transitions" % (n - c, n))
    return paths


def cfg_constants(cfg):
    """The CONSTANTS section of a cfg as a dict of strings."""
    txt = open(os.path.join(verif.TLA, cfg)).read()
    out = {}
    on = False
    for line in txt.splitlines():
        s = line.strip()
        if s.startswith("\\*") or not s:
            continue
        if s.startswith("CONSTANTS") or s.startswith("CONSTANT"):
            on = True
            continue
        if on and "=" in s and not s.split()[0].isupper():
            k, v = s.split("=", 1)
            out[k.strip()] = v.strip()
        elif on and "<-" in s:
            k, v = s.split("<-", 1)
            out[k.strip()] = v.strip()
        else:
            on = False
    return out


def load_replay(ctx):
    return json.load(open(ctx.replay))["case"]["input"]
