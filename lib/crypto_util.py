"""Shared driver code of the CryptoBinding TABLE checks (C34, C36, C37, C38)."""
import json
import os
import verif

RULE = ("cells = maximal behaviours of CryptoBinding.tla for the scheme (every tamper sequence of replace / "
        "boundary-shift / swap / artifact flip-trunc-ext steps up to MaxTamper, x plaintext length classes), "
        "enumerated exhaustively by TLC; each cell is applied to `inst` seeded concrete instances (and to every "
        "verification path); a cell is non-trivial when its tamper sequence is non-empty; distinct = distinct "
        "(scheme, plen, ops) tuples")


SCHEMES = {"cmdsig": ["cmdsig"], "cmdsig_big": ["cmdsig"], "wrap": ["wrap"], "afcuni": ["afcuni"],
           "enc": ["groupkey", "sealedgk", "pskseed", "topicmsg", "sealedtopic"]}


BIG_DATA = (1, 4096, 4097, 70000)


def write_cfg(ctx, group, max_tamper, plens, model="tuple", emit=True, datalens=(0,)):
    """Thorough-tier configs are generated into the work dir (only constants differ from tla/MC_*.cfg)."""
    name = "MC_CryptoBinding_%s_%s_%d.cfg" % (group, model, max_tamper)
    path = os.path.join(ctx.workdir, name)
    with open(path, "w") as f:
        f.write("SPECIFICATION Spec\nCONSTANTS\n  Schemes = {%s}\n  MaxTamper = %d\n  HashModel = \"%s\"\n"
                "  PLens = {%s}\n  DataLens = {%s}\nINVARIANTS AcceptIffUnchanged IdAgreement NoBothEnds OnlyRightful%s\nCHECK_DEADLOCK FALSE\n"
                % (", ".join('"%s"' % s for s in SCHEMES[group]), max_tamper, model,
                   ", ".join(str(p) for p in plens), ", ".join(str(p) for p in datalens),
                   " Emit" if emit else ""))
    return os.path.relpath(path, verif.TLA)


def cells_for(ctx, scheme, plens=(0,), thorough_depth=3, datalens=(0,)):
    """TLC-enumerated cells of one scheme for the tier."""
    if ctx.thorough:
        cfg = write_cfg(ctx, scheme, thorough_depth, plens, datalens=datalens)
    else:
        cfg = "MC_CryptoBinding_%s.cfg" % scheme
    r = ctx.tlc("CryptoBinding", cfg, timeout=1500, tag="cb-" + scheme)
    # `\E o \in Ops : Tamper(o)` has a state-dependent bound, so TLC reports it as a sub-action of Next
    # (line form `<Next line .. of module M (l c l c)>: d:g`, which the library's parser skips).
    if "Tamper" not in r.coverage:
        import re
        m = re.search(r"^<Next line [^>]*\(\d+ \d+ \d+ \d+\)>: (\d+):(\d+)", r.output, re.M)
        if m:
            r.coverage["Tamper"] = (int(m.group(1)), int(m.group(2)))
    ctx.require_actions(r, ["Tamper", "Check"])
    if not any(b["ops"] for b in r.replays):
        raise verif.ToolError("vacuous model run: no tamper step in any cell")
    if not r.replays:
        raise verif.ToolError("TLC emitted no cells for scheme " + scheme)
    for sch in SCHEMES[scheme]:
        if not any(b["scheme"] == sch for b in r.replays):
            raise verif.ToolError("vacuous enumeration: no cell of scheme " + sch)
    if not any(b["accept"] for b in r.replays) or not any(not b["accept"] for b in r.replays):
        raise verif.ToolError("vacuous enumeration: accepting or rejecting cells missing for " + scheme)
    return r.replays


def sensitivity(ctx):
    """Spec-level self-test: with plain concatenation instead of tuple hashing TLC must find the
    colliding boundary shift (AcceptIffUnchanged violated)."""
    r = ctx.tlc("CryptoBinding", "MC_CryptoBinding_concat.cfg", timeout=300, allow_violation=True,
                coverage=False, tag="cb-concat")
    if r.violated != "AcceptIffUnchanged":
        raise verif.ToolError("spec sensitivity self-test failed: concat hash model not refuted (%s)" % r.violated)
    # the run is a self-test, not coverage of the property
    ctx.states -= r.states
    ctx.transitions -= r.generated


def finish_cov(ctx, cells, results, extra=None):
    evals = sum(int(r.get("evals", 0) or 0) for r in results)
    keyf = lambda b: json.dumps([b["scheme"], b["plen"], b["ops"]], sort_keys=True)
    distinct = {keyf(b) for b in cells}
    nontriv = {keyf(b) for b in cells if b["ops"]}
    by_scheme = {}
    for b in cells:
        by_scheme[b["scheme"]] = by_scheme.get(b["scheme"], 0) + 1
    ctx.cov.update({
        "exhaustive": True,
        "cells": len(cells),
        "evaluations": evals,
        "distinct": len(distinct),
        "distinct_nontrivial": len(nontriv),
        "cells_expected_accept": sum(1 for b in cells if b["accept"]),
        "cells_restoring": sum(1 for b in cells if b["accept"] and b["ops"]),
        "cells_by_scheme": by_scheme,
        "rule": RULE,
    })
    if extra:
        ctx.cov.update(extra)


def selftest(ctx, vh, sub, cells, opts):
    """Binding self-test: flip the expected outcome of one rejecting and one accepting cell; the
    engine must report both."""
    rej = dict(next(b for b in cells if not b["accept"]))
    rej["accept"] = True
    acc = dict(next(b for b in cells if b["accept"] and b["ops"]))
    acc["accept"] = False
    st = ctx.run_engine(vh, sub, [rej, acc], opts=opts, tag="selftest-" + sub)
    if len(st) != 2 or st[0].get("ok") or st[1].get("ok"):
        raise verif.ToolError("binding self-test failed (%s): perturbed expectations accepted" % sub)
    return "flipped expectation of a rejecting and of a restoring cell both reported"
