\* C25: the hand-built / corrupted module dimension (cells only; programs come from the L* runs)
SPECIFICATION SpecMod
CONSTANTS
  Lens = {1}
  MaxInit = 0
  Budget = 8
  CellSet <- AllCells
  InitSet <- AllInits
INVARIANTS ModOutcomeDefined EmitMod
CHECK_DEADLOCK FALSE
