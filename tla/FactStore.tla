------------------------------- MODULE FactStore -------------------------------
(* C12, C13 — fact storage of `aranya_runtime::storage::linear`
   (crates/aranya-runtime/src/storage/linear/mod.rs).

   ABSTRACT LAYER (what C12 promises).  Every command carries a list of updates
   <<fact key, value>> (value 0 = delete); the facts visible at a location (segment s, command
   i) are the FLAT MAP obtained by applying, in order, the updates of every command on the
   path from the init command to that location: `FlatAt`.  A perspective additionally applies
   its own commands and its pending (not yet committed to a command) updates.

   IMPLEMENTATION-SHAPED LAYER (a transcription of the code).
     idx   the append-only array of immutable FactIndex nodes [prior, depth, m]; m is a
           partial map fact key -> value, TOMB (0) being a deletion tombstone; lookups walk
           the chain newest first (`LinearFactIndex::query`).
     segs  segments [prior location, cmds (per-command update lists), facts (index id),
           pf (`prior_facts`: the index the segment's own updates are relative to)].
     per   the open graph perspective `LinearPerspective`: fact perspective fp = [m, prior],
           prior being none / an index / a nested fact perspective (mid-segment
           reconstruction), `cmds` (per-command updates) and `cur` (`current_updates`).
     fper  an open bare `LinearFactPerspective` (`get_fact_perspective`, used for braids).
     braid the fact index last returned by `write_facts` (with the flat map it must show); a
           merge perspective (`new_merge_perspective`) takes it as its prior facts.
     cps   checkpoints taken on `per` (with ghost copies of what was visible then).
   Ghost `disc` (in `per`, copied into the segment it is written to): the updates discarded by
   reverts so far.  It has no counterpart in the code; it only keeps states with different
   discarded writes apart, so that the shortest witness of every state reached after a revert
   contains the revert that discarded them (history coverage for "discarded writes resurface").
   One action per public call: `new_perspective`, `insert`, `delete`, `add_command`,
   `checkpoint`, `revert`, `new_storage`, `write`, `get_linear_perspective`,
   `get_fact_perspective`, `write_facts`, `new_merge_perspective`.  `write_facts_with_prior`
   compacts the chain into a single tombstone-free index when the prior's depth exceeds
   MaxDepth-1.

   TLC checks that the layered model refines the flat map at every committed index, at every
   location reachable by mid-segment reconstruction and in the open perspectives (C12), and
   that `Revert(cp)` restores exactly the map and the command count at `cp` (C13).

   A checkpoint is the command count plus the number of pending updates (`Checkpoint {index,
   pending}`); `revert` truncates the commands, rebuilds the fact overlay from the remaining
   per-command updates and re-applies the updates that were pending when the checkpoint was
   taken (they are the first `pending` entries of `current_updates` or, if a command was added
   since, of that command's updates).  [Before the fix recorded in known_findings.d/storage.json
   the checkpoint was the command count only and reverting discarded updates that were pending
   at checkpoint time; the conformance check found it — key C13:revert:dirty-checkpoint.]   *)
EXTENDS Integers, Sequences, FiniteSets, TLC, Json

CONSTANTS Names,      \* fact names
          Keys,       \* compound keys: sequences of strings
          ValChoice(_, _),  \* ValChoice(segment number being built, command number being built):
                            \* the set of values (positive integers) an insert may write
          OpenCands(_),     \* OpenCands(segs): locations <<s, i>> at which perspectives are opened
          MergeCands(_),    \* MergeCands(segs): <<s, i, s2, i2>> parent pairs of merge perspectives
                            \* (all of them in model checking; the newest ones in long simulations)
          MaxDepth,   \* MAX_FACT_INDEX_DEPTH (16 in the code; >= 2)
          Record,     \* keep the S2I history
          Fat         \* history records carry the expected observation of every step (simulation)

VARIABLES idx, segs, per, fper, braid, cps, last, hist
vars == <<idx, segs, per, fper, braid, cps, last, hist>>
View == <<idx, segs, per, fper, braid, cps>>

FK    == Names \X Keys          \* fact keys <<name, key>>
TOMB  == 0
Empty == <<>>                   \* the empty partial map (= the empty function)

Put(m, x, v) == [y \in DOMAIN m \cup {x} |-> IF y = x THEN v ELSE m[y]]
Drop(m, x)   == [y \in DOMAIN m \ {x} |-> m[y]]

----------------------------------------------------------------------------------
(* ABSTRACT LAYER: flat maps (total functions FK -> Nat, 0 = absent) *)
FlatEmpty == [x \in FK |-> 0]
RECURSIVE FApply(_, _)
FApply(f, ups) == IF ups = <<>> THEN f
                  ELSE FApply([f EXCEPT ![ups[1][1]] = ups[1][2]], Tail(ups))
RECURSIVE FApplyCmds(_, _)
FApplyCmds(f, cmds) == IF cmds = <<>> THEN f ELSE FApplyCmds(FApply(f, cmds[1]), Tail(cmds))

NoLoc == <<0, 0>>
(* a merge segment starts from the braid of its two parents (ghost `mbase`), any other segment
   from the facts at its prior location *)
RECURSIVE FlatAtIn(_, _)
FlatAtIn(sg, loc) ==
  IF loc[1] = 0 THEN FlatEmpty
  ELSE FApplyCmds(IF sg[loc[1]].merge THEN sg[loc[1]].mbase ELSE FlatAtIn(sg, sg[loc[1]].prior),
                  SubSeq(sg[loc[1]].cmds, 1, loc[2]))
FlatAt(loc) == FlatAtIn(segs, loc)

----------------------------------------------------------------------------------
(* IMPLEMENTATION-SHAPED LAYER *)

(* LinearFactIndex::query — newest first through the chain; a tombstone answers "absent" *)
RECURSIVE ILk(_, _, _)
ILk(ix, id, x) == IF id = 0 THEN 0
                  ELSE IF x \in DOMAIN ix[id].m THEN ix[id].m[x]
                  ELSE ILk(ix, ix[id].prior, x)
IViewIn(ix, id) == [x \in FK |-> ILk(ix, id, x)]
IView(id) == IViewIn(idx, id)

(* FactPerspectivePrior: None / FactIndex{offset} / FactPerspective(Box<..>) whose own prior is
   None or an index (that is all get_linear_perspective builds) *)
PNone         == [k |-> "none", id |-> 0, m |-> Empty, pk |-> "none", pid |-> 0]
PIdx(id)      == [k |-> "idx", id |-> id, m |-> Empty, pk |-> "none", pid |-> 0]
PFp(m, pk, pid) == [k |-> "fp", id |-> 0, m |-> m, pk |-> pk, pid |-> pid]

PLk(ix, p, x) ==
  CASE p.k = "none" -> 0
    [] p.k = "idx"  -> ILk(ix, p.id, x)
    [] p.k = "fp"   -> IF x \in DOMAIN p.m THEN p.m[x]
                       ELSE (IF p.pk = "idx" THEN ILk(ix, p.pid, x) ELSE 0)
(* LinearFactPerspective::query *)
FpLk(ix, fp, x) == IF x \in DOMAIN fp.m THEN fp.m[x] ELSE PLk(ix, fp.prior, x)
FpView(fp) == [x \in FK |-> FpLk(idx, fp, x)]
PView(p)   == [x \in FK |-> PLk(idx, p, x)]

(* QueryMut for LinearFactPerspective; apply_updates does the same per update *)
FpIns(fp, x, v) == [fp EXCEPT !.m = Put(fp.m, x, v)]
FpDel(fp, x) == IF fp.prior.k = "none"
                THEN [fp EXCEPT !.m = Drop(fp.m, x)]           \* "No need for tombstones with no prior."
                ELSE [fp EXCEPT !.m = Put(fp.m, x, TOMB)]
RECURSIVE FpApply(_, _)
FpApply(fp, ups) == IF ups = <<>> THEN fp
                    ELSE FpApply(IF ups[1][2] = 0 THEN FpDel(fp, ups[1][1]) ELSE FpIns(fp, ups[1][1], ups[1][2]),
                                 Tail(ups))
RECURSIVE FpApplyCmds(_, _)
FpApplyCmds(fp, cmds) == IF cmds = <<>> THEN fp ELSE FpApplyCmds(FpApply(fp, cmds[1]), Tail(cmds))

NewFp(prior) == [m |-> Empty, prior |-> prior]

(* LinearStorage::compact — merge the whole chain, newest wins, drop tombstones, depth 1 *)
Compact(ix, id) ==
  [prior |-> 0, depth |-> 1,
   m |-> [x \in {y \in FK : ILk(ix, id, y) # 0} |-> ILk(ix, id, x)]]

(* write_facts_with_prior for a map over a prior that is none / an index *)
WFBase(ix, m, pk, pid) ==
  IF pk = "none"
  THEN [ix |-> Append(ix, [prior |-> 0, depth |-> 1, m |-> m]), id |-> Len(ix) + 1, pf |-> 0]
  ELSE IF m = Empty THEN [ix |-> ix, id |-> pid, pf |-> pid]         \* nothing new: reuse the prior index
  ELSE LET needc == ix[pid].depth > MaxDepth - 1
           ix1   == IF needc THEN Append(ix, Compact(ix, pid)) ELSE ix
           p     == IF needc THEN Len(ix1) ELSE pid
       IN [ix |-> Append(ix1, [prior |-> p, depth |-> ix1[p].depth + 1, m |-> m]),
           id |-> Len(ix1) + 1, pf |-> p]
(* … and for a fact perspective whose prior may be a nested perspective (written first) *)
WF(ix, fp) ==
  CASE fp.prior.k = "none" -> WFBase(ix, fp.m, "none", 0)
    [] fp.prior.k = "idx"  -> WFBase(ix, fp.m, "idx", fp.prior.id)
    [] fp.prior.k = "fp"   ->
         LET w == WFBase(ix, fp.prior.m, fp.prior.pk, fp.prior.pid) IN
         IF fp.m = Empty THEN [ix |-> w.ix, id |-> w.id, pf |-> w.id]
         ELSE WFBase(w.ix, fp.m, "idx", w.id)

(* get_linear_perspective(parent): the FactPerspectivePrior of the new perspective *)
PriorAtIn(sg, s, i) ==
  LET g == sg[s] IN
  IF i = Len(g.cmds) THEN PIdx(g.facts)
  ELSE LET p0 == IF g.pf = 0 THEN PNone ELSE PIdx(g.pf)
           f  == FpApplyCmds(NewFp(p0), SubSeq(g.cmds, 1, i))
       IN IF f.m = Empty THEN p0 ELSE PFp(f.m, p0.k, g.pf)
PriorAt(s, i) == PriorAtIn(segs, s, i)

(* get_fact_perspective(location) *)
FactPerspAt(s, i) ==
  LET g == segs[s] IN
  IF i = Len(g.cmds) \/ \A c \in 1..Len(g.cmds) : g.cmds[c] = <<>>
  THEN NewFp(PIdx(g.facts))
  ELSE FpApplyCmds(NewFp(IF g.pf = 0 THEN PNone ELSE PIdx(g.pf)), SubSeq(g.cmds, 1, i))

Closed == [open |-> FALSE, parent |-> NoLoc, fp |-> NewFp(PNone), cmds |-> <<>>, cur |-> <<>>, disc |-> {},
           merge |-> FALSE, mbase |-> FlatEmpty]
NoBraid == [id |-> 0, g |-> FlatEmpty]
FClosed == [open |-> FALSE, loc |-> NoLoc, fp |-> NewFp(PNone), g |-> FlatEmpty]

(* what the open graph perspective must show (abstract layer) *)
BaseIn(sg, p) == IF p.merge THEN p.mbase ELSE FlatAtIn(sg, p.parent)
PerFlat(p) == FApply(FApplyCmds(BaseIn(segs, p), p.cmds), p.cur)

----------------------------------------------------------------------------------
(* History records *)
RECURSIVE SetToSeq(_)
SetToSeq(S) == IF S = {} THEN <<>> ELSE LET x == CHOOSE y \in S : TRUE IN <<x>> \o SetToSeq(S \ {x})
FlatSeq(f) == LET s == SetToSeq({x \in FK : f[x] # 0})
              IN [i \in 1..Len(s) |-> [n |-> s[i][1], k |-> s[i][2], v |-> f[s[i]]]]

Rec(o, x, v, s, i, j, r, extra) ==
  [o |-> o, n |-> x[1], k |-> x[2], v |-> v, s |-> s, i |-> i, j |-> j, r |-> r] @@ extra
NoX == <<"", <<>>>>

Slim(rec) == [o |-> rec.o, n |-> rec.n, k |-> rec.k, v |-> rec.v, s |-> rec.s, i |-> rec.i,
              j |-> rec.j, r |-> rec.r]
Log(rec) == /\ last' = rec
            /\ hist' = IF ~Record THEN hist
                       ELSE IF Fat THEN Append(hist, rec) ELSE Append(hist, Slim(rec))

(* projection compared after every step: what the open perspective(s) must show — stated with
   the ABSTRACT layer (the flat map is the oracle); PerspRefines / FactPerspRefines tie it to
   the implementation-shaped layer *)
ObsIn(sg, p, f) ==
  [po |-> p.open,
   pv |-> IF p.open THEN FlatSeq(FApply(FApplyCmds(BaseIn(sg, p), p.cmds), p.cur)) ELSE <<>>,
   pc |-> Len(p.cmds),
   fo |-> f.open, fv |-> IF f.open THEN FlatSeq(f.g) ELSE <<>>,
   sf |-> <<>>, ex |-> <<>>, xc |-> 0, dirty |-> FALSE]
Obs(p, f) == ObsIn(segs, p, f)

----------------------------------------------------------------------------------
(* Transitions *)
Init == /\ idx = <<>> /\ segs = <<>>
        /\ per = Closed /\ fper = FClosed /\ braid = NoBraid /\ cps = <<>>
        /\ last = Rec("init", NoX, 0, 0, 0, 0, "ok", Obs(Closed, FClosed))
        /\ hist = <<>>

(* StorageProvider::new_perspective *)
NewPerspective ==
  /\ segs = <<>> /\ ~per.open
  /\ per' = [Closed EXCEPT !.open = TRUE]
  /\ cps' = <<>>
  /\ UNCHANGED <<idx, segs, fper, braid>>
  /\ Log(Rec("new_perspective", NoX, 0, 0, 0, 0, "ok", Obs(per', fper)))

(* QueryMut::insert on the graph perspective *)
Insert(x, v) ==
  /\ per.open
  /\ per' = [per EXCEPT !.fp = FpIns(per.fp, x, v), !.cur = Append(per.cur, <<x, v>>)]
  /\ UNCHANGED <<idx, segs, fper, braid, cps>>
  /\ Log(Rec("insert", x, v, 0, 0, 0, "ok", Obs(per', fper)))

(* QueryMut::delete on the graph perspective *)
Delete(x) ==
  /\ per.open
  /\ per' = [per EXCEPT !.fp = FpDel(per.fp, x), !.cur = Append(per.cur, <<x, 0>>)]
  /\ UNCHANGED <<idx, segs, fper, braid, cps>>
  /\ Log(Rec("delete", x, 0, 0, 0, 0, "ok", Obs(per', fper)))

(* Perspective::add_command — the pending updates become the command's updates *)
AddCommand ==
  /\ per.open
  /\ per' = [per EXCEPT !.cmds = Append(per.cmds, per.cur), !.cur = <<>>]
  /\ UNCHANGED <<idx, segs, fper, braid, cps>>
  /\ Log(Rec("add_command", NoX, 0, 0, 0, 0, "ok", Obs(per', fper)))

(* Revertable::checkpoint — the code keeps only the command count *)
Checkpoint ==
  /\ per.open
  /\ cps' = Append(cps, [index |-> Len(per.cmds), pend |-> Len(per.cur),
                         g |-> PerFlat(per), cnt |-> Len(per.cmds)])
  /\ UNCHANGED <<idx, segs, per, fper, braid>>
  /\ Log(Rec("checkpoint", NoX, 0, 0, 0, Len(cps) + 1, "ok", Obs(per, fper)))

(* Revertable::revert(cps[j]); later checkpoints become invalid (stack discipline) *)
RevertStep(p, cp) ==
  IF cp.index = Len(p.cmds) /\ cp.pend = Len(p.cur) THEN p          \* nothing happened since
  ELSE LET cm      == SubSeq(p.cmds, 1, cp.index)
           pending == IF cp.index = Len(p.cmds) THEN SubSeq(p.cur, 1, cp.pend)
                      ELSE SubSeq(p.cmds[cp.index + 1], 1, cp.pend)
       IN [p EXCEPT !.cmds = cm, !.cur = pending,
                    !.fp = FpApply(FpApplyCmds(NewFp(p.fp.prior), cm), pending)]   \* facts.clear(); replay
RECURSIVE UpdatesOf(_)
UpdatesOf(cmds) == IF cmds = <<>> THEN {} ELSE {cmds[1][u] : u \in 1..Len(cmds[1])} \cup UpdatesOf(Tail(cmds))
Discarded(p, cp) ==
  IF cp.index = Len(p.cmds) THEN {p.cur[u] : u \in (cp.pend + 1)..Len(p.cur)}
  ELSE {p.cmds[cp.index + 1][u] : u \in (cp.pend + 1)..Len(p.cmds[cp.index + 1])}
       \cup UpdatesOf(SubSeq(p.cmds, cp.index + 2, Len(p.cmds))) \cup {p.cur[u] : u \in 1..Len(p.cur)}
Revert(j) ==
  /\ per.open /\ j \in 1..Len(cps)
  /\ per' = [RevertStep(per, cps[j]) EXCEPT !.disc = per.disc \cup Discarded(per, cps[j])]
  /\ cps' = SubSeq(cps, 1, j)
  /\ UNCHANGED <<idx, segs, fper, braid>>
  /\ Log(Rec("revert", NoX, 0, 0, 0, j, "ok",
             [Obs(per', fper) EXCEPT !.ex = FlatSeq(cps[j].g), !.xc = cps[j].cnt,
                                     !.dirty = cps[j].pend > 0]))

(* StorageProvider::new_storage(init perspective) -> LinearStorage::create *)
Create ==
  /\ per.open /\ segs = <<>> /\ per.cur = <<>>
  /\ IF per.cmds = <<>>
     THEN /\ UNCHANGED <<idx, segs>>
          /\ per' = Closed /\ cps' = <<>> /\ UNCHANGED <<fper, braid>>
          /\ Log(Rec("create", NoX, 0, 0, 0, 0, "err", Obs(Closed, fper)))     \* EmptyPerspective
     ELSE /\ idx' = <<[prior |-> 0, depth |-> 1, m |-> per.fp.m]>>
          /\ segs' = <<[prior |-> NoLoc, cmds |-> per.cmds, facts |-> 1, pf |-> 0, disc |-> per.disc,
                         merge |-> FALSE, mbase |-> FlatEmpty]>>
          /\ per' = Closed /\ cps' = <<>> /\ UNCHANGED <<fper, braid>>
          /\ Log(Rec("create", NoX, 0, 1, Len(per.cmds), 0, "ok",
                     [Obs(Closed, fper) EXCEPT !.sf = FlatSeq(FApplyCmds(FlatEmpty, per.cmds))]))

(* Storage::write(perspective) — called, as the runtime does, without pending updates *)
Write ==
  /\ per.open /\ segs # <<>> /\ per.cur = <<>>
  /\ LET w == WF(idx, per.fp) IN
     /\ idx' = w.ix                          \* fact indexes are appended before the commands are looked at
     /\ IF per.cmds = <<>>
        THEN /\ UNCHANGED segs
             /\ Log(Rec("write", NoX, 0, 0, 0, 0, "err", Obs(Closed, fper)))  \* EmptyPerspective
        ELSE /\ segs' = Append(segs, [prior |-> per.parent, cmds |-> per.cmds, facts |-> w.id, pf |-> w.pf,
                                                  disc |-> per.disc, merge |-> per.merge, mbase |-> per.mbase])
             /\ Log(Rec("write", NoX, 0, Len(segs) + 1, Len(per.cmds), 0, "ok",
                        [Obs(Closed, fper) EXCEPT !.sf = FlatSeq(FApplyCmds(BaseIn(segs, per), per.cmds))]))
  /\ per' = Closed /\ cps' = <<>> /\ UNCHANGED <<fper, braid>>

(* Storage::get_linear_perspective(location) (a still open perspective is dropped) *)
Open(s, i) ==
  /\ s \in 1..Len(segs) /\ i \in 1..Len(segs[s].cmds)
  /\ per' = [open |-> TRUE, parent |-> <<s, i>>, fp |-> NewFp(PriorAt(s, i)), cmds |-> <<>>, cur |-> <<>>,
             disc |-> {}, merge |-> FALSE, mbase |-> FlatEmpty]
  /\ cps' = <<>>
  /\ UNCHANGED <<idx, segs, fper, braid>>
  /\ Log(Rec("open", NoX, 0, s, i, 0, "ok", Obs(per', fper)))

(* Storage::new_merge_perspective(left, right, lca, policy, braid): the braid index returned by
   write_facts becomes the prior facts of the merge perspective (it is consumed).  In the
   history record the right parent is carried in the fields v (segment) and j (command). *)
OpenMerge(s, i, s2, i2) ==
  /\ braid.id # 0 /\ <<s, i>> # <<s2, i2>>
  /\ s \in 1..Len(segs) /\ i \in 1..Len(segs[s].cmds) /\ s2 \in 1..Len(segs) /\ i2 \in 1..Len(segs[s2].cmds)
  /\ per' = [open |-> TRUE, parent |-> <<s, i>>, fp |-> NewFp(PIdx(braid.id)), cmds |-> <<>>, cur |-> <<>>,
             disc |-> {}, merge |-> TRUE, mbase |-> braid.g]
  /\ braid' = NoBraid /\ cps' = <<>>
  /\ UNCHANGED <<idx, segs, fper>>
  /\ Log(Rec("open_merge", NoX, s2, s, i, i2, "ok", Obs(per', fper)))

(* Storage::get_fact_perspective(location) *)
OpenFacts(s, i) ==
  /\ s \in 1..Len(segs) /\ i \in 1..Len(segs[s].cmds)
  /\ fper' = [open |-> TRUE, loc |-> <<s, i>>, fp |-> FactPerspAt(s, i), g |-> FlatAt(<<s, i>>)]
  /\ UNCHANGED <<idx, segs, per, braid, cps>>
  /\ Log(Rec("open_facts", NoX, 0, s, i, 0, "ok", Obs(per, fper')))

(* QueryMut on the bare fact perspective (what a braid does) *)
FInsert(x, v) ==
  /\ fper.open
  /\ fper' = [fper EXCEPT !.fp = FpIns(fper.fp, x, v), !.g = [fper.g EXCEPT ![x] = v]]
  /\ UNCHANGED <<idx, segs, per, braid, cps>>
  /\ Log(Rec("f_insert", x, v, 0, 0, 0, "ok", Obs(per, fper')))
FDelete(x) ==
  /\ fper.open
  /\ fper' = [fper EXCEPT !.fp = FpDel(fper.fp, x), !.g = [fper.g EXCEPT ![x] = 0]]
  /\ UNCHANGED <<idx, segs, per, braid, cps>>
  /\ Log(Rec("f_delete", x, 0, 0, 0, 0, "ok", Obs(per, fper')))

(* Storage::write_facts(fact perspective) -> a fact index (the braid result) *)
WriteFacts ==
  /\ fper.open
  /\ LET w == WF(idx, fper.fp) IN
     /\ idx' = w.ix
     /\ Log(Rec("write_facts", NoX, 0, 0, 0, 0, "ok",
                [Obs(per, FClosed) EXCEPT !.sf = FlatSeq(fper.g),
                                          !.ex = FlatSeq(IViewIn(w.ix, w.id))]))
  /\ fper' = FClosed
  /\ UNCHANGED <<segs, per, cps>>
  /\ braid' = [id |-> WF(idx, fper.fp).id, g |-> fper.g]

(* quantified actions get a name of their own (TLC attributes coverage to the operator that
   holds the first conjunction) *)
InsertAny    == \E x \in FK : \E v \in ValChoice(Len(segs) + 1, Len(per.cmds) + 1) : v > 0 /\ Insert(x, v)
DeleteAny    == \E x \in FK : x \in FK /\ Delete(x)
FInsertAny   == \E x \in FK : \E v \in ValChoice(Len(segs) + 1, 9) : v > 0 /\ FInsert(x, v)
FDeleteAny   == \E x \in FK : x \in FK /\ FDelete(x)
RevertAny    == \E j \in 1..Len(cps) : j > 0 /\ Revert(j)
OpenAny      == \E c \in OpenCands(segs) : c[1] > 0 /\ Open(c[1], c[2])
OpenFactsAny == \E c \in OpenCands(segs) : c[1] > 0 /\ OpenFacts(c[1], c[2])
OpenMergeAny == \E c \in MergeCands(segs) : c[1] > 0 /\ OpenMerge(c[1], c[2], c[3], c[4])

Next == \/ NewPerspective \/ AddCommand \/ Checkpoint \/ Create \/ Write \/ WriteFacts
        \/ InsertAny \/ DeleteAny \/ FInsertAny \/ FDeleteAny \/ RevertAny \/ OpenAny \/ OpenFactsAny \/ OpenMergeAny

Spec == Init /\ [][Next]_vars

----------------------------------------------------------------------------------
(* C12 — the layered model refines the flat map *)
(* every committed segment's fact index shows the flat map at the segment's head *)
SegRefines == \A s \in 1..Len(segs) : IView(segs[s].facts) = FlatAt(<<s, Len(segs[s].cmds)>>)
LastSegRefines == segs # <<>> => IView(segs[Len(segs)].facts) = FlatAt(<<Len(segs), Len(segs[Len(segs)].cmds)>>)
(* … and so does a perspective / fact perspective reconstructed at ANY location *)
MidRefines == \A s \in 1..Len(segs) : \A i \in 1..Len(segs[s].cmds) :
                 /\ PView(PriorAt(s, i)) = FlatAt(<<s, i>>)
                 /\ FpView(FactPerspAt(s, i)) = FlatAt(<<s, i>>)
(* the open graph perspective shows base + its commands + its pending updates *)
PerspRefines == per.open => FpView(per.fp) = PerFlat(per)
(* the open bare fact perspective shows what was applied to it *)
FactPerspRefines == fper.open => FpView(fper.fp) = fper.g

(* the braid index returned by write_facts shows what the fact perspective showed *)
BraidRefines == braid.id # 0 => IView(braid.id) = braid.g

(* structure of the index chain *)
ChainOK == \A id \in 1..Len(idx) :
             /\ idx[id].prior < id
             /\ idx[id].depth = (IF idx[id].prior = 0 THEN 1 ELSE idx[idx[id].prior].depth + 1)
             /\ idx[id].depth <= MaxDepth
             /\ idx[id].prior = 0 => \A x \in DOMAIN idx[id].m : idx[id].m[x] # TOMB
(* a segment's own updates are relative to its prior_facts index *)
PriorFactsOK == \A s \in 1..Len(segs) :
                  LET g == segs[s] IN
                  IViewIn(idx, g.pf) = (IF g.merge THEN g.mbase ELSE IF s = 1 THEN FlatEmpty ELSE FlatAt(g.prior))

(* C13 — action property: reverting to a checkpoint is exact — the facts visible, the number of
   commands and the pending updates are those of the moment the checkpoint was taken *)
RevertExactStep ==
  last'.o = "revert" =>
    LET cp == cps[last'.j] IN
    /\ FpView(per'.fp) = cp.g
    /\ Len(per'.cmds) = cp.cnt
    /\ Len(per'.cur) = cp.pend
    /\ PerFlat(per') = cp.g
(* nothing but write/create/write_facts touches storage; indexes and segments are immutable *)
AppendOnlyStep == /\ Len(idx') >= Len(idx) /\ SubSeq(idx', 1, Len(idx)) = idx
                  /\ Len(segs') >= Len(segs) /\ SubSeq(segs', 1, Len(segs)) = segs
(* write_facts returns an index showing exactly what the fact perspective showed *)
WriteFactsStep == last'.o = "write_facts" => last'.sf = last'.ex

RevertExact == [][RevertExactStep /\ AppendOnlyStep /\ WriteFactsStep]_vars

----------------------------------------------------------------------------------
(* S2I emission: one behaviour per TRANSITION of the (view) state graph (an ACTION_CONSTRAINT is
   evaluated for every generated successor): the slim history that leads to the successor,
   the expected observation of the successor (`last'`) and the flat map every committed
   segment must show. *)
SegViewsOf(sg) == [s \in 1..Len(sg) |-> FlatSeq(FlatAtIn(sg, <<s, Len(sg[s].cmds)>>))]
EmitStep == PrintT("REPLAY " \o ToJson([h |-> hist', e |-> last', sv |-> SegViewsOf(segs')]))
=================================================================================
