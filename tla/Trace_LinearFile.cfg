SPECIFICATION TSpec
CONSTANTS
  HdrLen = 4
  SlotA = 4096
  SlotB = 8192
  FreeStart = 12288
  Chunk = 4194304
  BodySizes = {}
  RootSizes = {}
  ScrubLen = 64
  MaxCommits = 100000000
  MaxAppends = 100000000
  MaxCrashes = 0
  MaxCloses = 100000000
  PostCommits = 0
  Mutant = "none"
INVARIANTS TypeOK CleanReopen DurableRootsSound NothingNewerVisible WithinAlloc FailOnlyBeforeFirstCommit
POSTCONDITION Post
CHECK_DEADLOCK FALSE
