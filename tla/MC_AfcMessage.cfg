SPECIFICATION Spec
CONSTANTS
  MaxLen = 40
  BigLens = {4096}
  MaxMsgs = 1
  MaxJunk = 64
  SmallSeal = FALSE
INVARIANTS AcceptOnlyAuthentic AuthenticAccepted ReturnsWhatWasSealed Total0 SeqDense Emit
CHECK_DEADLOCK FALSE
