\* Self-test: bumping the generation before looking the id up (absent id: one list only) must be rejected (C41).
SPECIFICATION Spec
CONSTANTS
  Readers = {1}
  Cap = 4
  WScripts <- ScriptsAbsent
  ROps = 3
  Mutant = "rm_bump_first"
INVARIANTS RemovalEffective
CHECK_DEADLOCK FALSE
