---------------------------- MODULE MC_PolicyStmts ----------------------------
(* Model-checking constants for PolicyStmts (C30). *)
EXTENDS PolicyStmts

Emit1 == [o |-> "emit", n |-> 1]
Emit2 == [o |-> "emit", n |-> 2]
Emit3 == [o |-> "emit", n |-> 3]
Create2 == [o |-> "create", k |-> 2, v |-> 2]
Delete1 == [o |-> "delete", k |-> 1]
Update1 == [o |-> "update", k |-> 1, from |-> 1, to |-> 5]
FF == [o |-> "ff"]

(* finish-block bodies: empty, effect only, fact + effect, delete + finish function, update *)
MCOpsMenu == {<<>>, <<Emit1>>, <<Create2, Emit2>>, <<Delete1, FF>>, <<Update1, Emit3>>}
MCOpsMenuSmall == {<<>>, <<Emit1>>, <<Create2, Emit2>>}

Fin(o) == [t |-> "finish", ops |-> o]
(* recall blocks: empty (falls off the end), finish, statements before finish, a panic, a
   conditional finish *)
MCRecallMenu ==
  { <<>>,
    <<Fin(<<Emit3>>)>>,
    <<[t |-> "let"], Fin(<<Delete1, Emit3>>)>>,
    <<[t |-> "check", c |-> FALSE, e |-> "panic"], Fin(<<Emit3>>)>>,
    <<[t |-> "if", c |-> TRUE, a |-> <<Fin(<<FF>>)>>, b |-> <<>>, els |-> FALSE]>>,
    <<[t |-> "if", c |-> FALSE, a |-> <<Fin(<<FF>>)>>, b |-> <<>>, els |-> FALSE], [t |-> "call", c |-> TRUE]>> }
MCRecallMenuSmall == { <<>>, <<Fin(<<Emit3>>)>>, <<[t |-> "call", c |-> FALSE], Fin(<<Emit3>>)>> }

MCMatchArms == { <<>>, <<Fin(<<Emit1>>)>>, <<[t |-> "check", c |-> FALSE, e |-> "panic"]>> }

MCXKinds == {r.k : r \in FinishExprKinds}
(* a user-function call accepted in a finish field would break the property: *)
ASSUME XKinds = {} \/ \E p \in XPrograms : LET o == Run(p) IN o.exit = "Panic" /\ o.io # <<>>

MCExtraSimple == {[t |-> "dassert", c |-> c] : c \in BOOLEAN}

(* base programs for misplaced finish-only statements: each fails (Panic) on some path after
   the point where a statement can be inserted *)
ChkP(c) == [t |-> "check", c |-> c, e |-> "panic"]
P(pol, rec) == [policy |-> pol, recall |-> rec]
MCStrayBase ==
  { P(<<>>, <<>>),                                                             \* falls off the end
    P(<<ChkP(FALSE)>>, <<>>),
    P(<<[t |-> "call", c |-> FALSE]>>, <<>>),
    P(<<[t |-> "if", c |-> TRUE, a |-> <<ChkP(FALSE)>>, b |-> <<>>, els |-> FALSE]>>, <<>>),
    P(<<[t |-> "match", n |-> 1, arms |-> <<<<>>, <<ChkP(FALSE)>>, <<>>>>]>>, <<>>),
    P(<<[t |-> "recall"]>>, <<ChkP(FALSE)>>),                                 \* panic inside the recall block
    P(<<ChkP(TRUE), Fin(<<Emit1>>)>>, <<>>) }                                  \* a passing program (stray + Normal)
MCStrayOps == {Emit2, Create2, Delete1, FF}
MCStrayOpsQuick == {Emit2, Create2}
(* were any of them accepted, the property would fail: *)
ASSUME StrayBase = {} \/ \E p \in StrayPrograms : StrayBreaks(p)

(* Simulation (tlc -simulate): random derivations for bounds whose exhaustive enumeration is
   too large (<= 4 statements, nesting 2: 307 704 programs).  Every step of a trace draws one
   fresh program; each random choice is bound by a singleton-set quantifier so that it is
   evaluated exactly once.  The drawn programs satisfy WellFormed (checked) and are judged by
   the same Run / Compile / VmRun definitions. *)
Pick(S) == CHOOSE x \in S : TRUE
RECURSIVE RandBlock(_, _, _)
RandStmt(n, d) ==
  Pick(UNION {
    IF k <= 4 \/ d = 0 \/ n < 2 THEN {RandomElement(Simple)}
    ELSE IF k <= 8 THEN
      UNION {{[t |-> "if", c |-> c, a |-> a, b |-> b, els |-> b # <<>>] :
                 c \in {RandomElement(BOOLEAN)}, b \in {RandBlock(n - 1 - SizeB(a), d - 1, FALSE)}} :
              a \in {RandBlock(n - 1, d - 1, TRUE)}}
    ELSE LET ms == Matches(n) \cup Elifs(n) IN IF ms = {} THEN {RandomElement(Simple)} ELSE {RandomElement(ms)}
    : k \in {RandomElement(1..10)}})
RandBlock(n, d, nonempty) ==
  IF n <= 0 THEN <<>>
  ELSE Pick(UNION {
    IF k = 1 /\ ~nonempty THEN {<<>>}
    ELSE IF k <= 2 THEN {<<RandomElement(Finishes)>>}
    ELSE UNION {{<<s>> \o rest : rest \in {RandBlock(n - SizeS(s), d, FALSE)}} : s \in {RandStmt(n, d)}}
    : k \in {RandomElement(1..10)}})
RandProgram(prev) ==      \* the parameter only keeps TLC from treating this as a constant to precompute
  Pick(UNION {{[policy |-> p, recall |-> r] :
                 r \in {IF CanRecallB(p) THEN RandomElement(RecallMenu) ELSE <<>>}} :
              p \in {RandBlock(MaxStmts, MaxDepth, FALSE)}})
SimInit == prog = [policy |-> <<>>, recall |-> <<>>]
SimNext == prog' = RandProgram(prog)
SimSpec == SimInit /\ [][SimNext]_prog
===============================================================================
