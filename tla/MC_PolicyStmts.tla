---------------------------- MODULE MC_PolicyStmts ----------------------------
(* Model-checking constants for PolicyStmts (C30). *)
EXTENDS PolicyStmts

Emit1 == [o |-> "emit", n |-> 1]
Emit2 == [o |-> "emit", n |-> 2]
Emit3 == [o |-> "emit", n |-> 3]
Create2 == [o |-> "create", k |-> 2, v |-> 2]
Delete1 == [o |-> "delete", k |-> 1]
Update1 == [o |-> "update", k |-> 1, from |-> 1, to |-> 5]
FF == [o |-> "ff"]

(* finish-block bodies: empty, effect only, fact + effect, delete + finish function, update *)
MCOpsMenu == {<<>>, <<Emit1>>, <<Create2, Emit2>>, <<Delete1, FF>>, <<Update1, Emit3>>}
MCOpsMenuSmall == {<<>>, <<Emit1>>, <<Create2, Emit2>>}

Fin(o) == [t |-> "finish", ops |-> o]
(* recall blocks: empty (falls off the end), finish, statements before finish, a panic, a
   conditional finish *)
MCRecallMenu ==
  { <<>>,
    <<Fin(<<Emit3>>)>>,
    <<[t |-> "let"], Fin(<<Delete1, Emit3>>)>>,
    <<[t |-> "check", c |-> FALSE, e |-> "panic"], Fin(<<Emit3>>)>>,
    <<[t |-> "if", c |-> TRUE, a |-> <<Fin(<<FF>>)>>, b |-> <<>>, els |-> FALSE]>>,
    <<[t |-> "if", c |-> FALSE, a |-> <<Fin(<<FF>>)>>, b |-> <<>>, els |-> FALSE], [t |-> "call", c |-> TRUE]>> }
MCRecallMenuSmall == { <<>>, <<Fin(<<Emit3>>)>>, <<[t |-> "call", c |-> FALSE], Fin(<<Emit3>>)>> }

MCMatchArms == { <<>>, <<Fin(<<Emit1>>)>>, <<[t |-> "check", c |-> FALSE, e |-> "panic"]>> }
===============================================================================
