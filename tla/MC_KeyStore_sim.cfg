SPECIFICATION Spec
CONSTANTS
  NIds = 3
  MaxOps = 10
  GoneTail = 2
  SymBreak = TRUE
  SeekOnGet = TRUE
  ReadThenUnlink = TRUE
  UnlinkOnDrop = TRUE
  CreateErrIsExist = TRUE
  DirtyAfterWrite = TRUE
  MaxFail = 2
INVARIANTS TypeOK Refines DirIsMap NothingLeftBehind OccupiedIffInserted ReadsReturnStored GoneIsError Emit

CHECK_DEADLOCK FALSE
