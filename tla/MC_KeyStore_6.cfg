SPECIFICATION Spec
CONSTANTS
  NIds = 2
  MaxOps = 6
  GoneTail = 1
  SymBreak = TRUE
  SeekOnGet = TRUE
  ReadThenUnlink = TRUE
  UnlinkOnDrop = TRUE
  CreateErrIsExist = TRUE
  DirtyAfterWrite = TRUE
  MaxFail = 1
INVARIANTS TypeOK Refines DirIsMap NothingLeftBehind OccupiedIffInserted ReadsReturnStored GoneIsError

CHECK_DEADLOCK FALSE
