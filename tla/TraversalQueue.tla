----------------------------- MODULE TraversalQueue -----------------------------
(* C21 — `aranya_runtime::storage::TraversalQueue` (crates/aranya-runtime/src/storage/mod.rs).

   Two layers.

   CONCRETE (implementation-shaped).  The state is what the code holds: the vector `q` of
   entries and the index `part`; entries 1..part are the uncovered region, part+1..Len(q) the
   covered region (the code is 0-based: entries[0..partition) / entries[partition..len)).
   Every public operation is one action that performs exactly the swaps / swap_removes of the
   code, including which of several candidates `position` (first) and `max_by_key` (LAST
   maximum) pick, and the `assume(..)` checks as a "bug" outcome.  Each entry carries a ghost
   flag `cov` that is updated by the *documented* rule of the operation, independently of
   where the swaps put the entry; `PartitionSep` then says the swaps always put it on the
   right side of `part`.

   ABSTRACT (the documented rules, what C21 promises).  A queue is a bag of
   (segment, max_cut, covered) triples — represented canonically as the ascending sequence of
   the integer codes mc*100 + seg*10 + covered.  `AbsOutcomes(b, op)` is the SET of
   (return value, bag') pairs the doc comments allow.  On the de-duplicating path (no
   `push_duplicate`) there is at most one entry per segment and every operation has exactly
   one allowed outcome.  After `push_duplicate` several entries of one segment may coexist and
   the rules of `push_covered` / `cover_up_to` ("if an entry with the same segment exists …")
   do not say which one is meant, nor which of two equal locations with different flags
   `pop_covered` removes: the abstract layer allows any of them.

   TLC checks (a) the property clauses as invariants / action properties of the concrete
   layer and (b) `Refines`: every concrete step is an allowed abstract outcome.
   Conformance (checks/C21.py, harness/engines/storage/src/queue.rs): one behaviour per
   TRANSITION of the concrete state graph is replayed into the real queue; while the history
   is unambiguous (`amb` false) every return value and the full content after every step must
   equal the spec's; histories that passed an ambiguous step are decided by validating the
   OBSERVED results against the abstract layer (Trace_TraversalQueue.tla).                   *)
EXTENDS TraversalQueueRules, TLC, Json

CONSTANTS Segs,        \* segment indexes (naturals < 10)
          Mcs,         \* max cuts used by push / push_duplicate (naturals >= 1)
          Thresholds,  \* thresholds of drain_above
          CoverMcs,    \* coverage_mc values of cover_up_to
          LongMcs,     \* longest_mc values of cover_up_to
          Record       \* BOOLEAN: keep the history (S2I emission) or not (pure MC)

VARIABLES q,      \* concrete: sequence of [seg, mc, cov]
          part,   \* concrete: number of entries in the uncovered region
          hi,     \* ghost: per segment the highest max cut given to its entry since the segment was last absent
          dedup,  \* ghost: TRUE while no push_duplicate happened since the queue was last empty
          last,   \* the last operation with its return value
          amb,    \* some step so far had more than one allowed abstract outcome
          hist    \* S2I history (only when Record)

vars == <<q, part, hi, dedup, last, amb, hist>>
View == <<q, part, hi, dedup>>

----------------------------------------------------------------------------------
(* Transitions *)
(* ghost bookkeeping for the "highest max cut seen" clause *)
NewHi(op, q1) ==
  LET present == {q1[i].seg : i \in 1..Len(q1)}
      i0 == IF op.o = "cover" THEN FirstSeg(q, op.a) ELSE 0
      given(s) == IF op.o \in {"push", "push_dup"} /\ op.a = s THEN op.b
                  ELSE IF op.o = "cover" /\ op.a = s /\ i0 \in 1..part
                          /\ op.b < op.c /\ op.b >= q[i0].mc
                       THEN op.b + 1      \* "the entry is updated to coverage_mc + 1"
                  ELSE 0
      mx(a, b) == IF a > b THEN a ELSE b
  IN [s \in Segs |-> IF s \in present THEN mx(hi[s], given(s)) ELSE 0]

Init == /\ q = <<>> /\ part = 0
        /\ hi = [s \in Segs |-> 0] /\ dedup = TRUE
        /\ last = [op |-> Op("init", 0, 0, 0), ret |-> ROk]
        /\ amb = FALSE /\ hist = <<>>

Step(op) ==
  LET r  == Concrete(q, part, op)
      a  == Record /\ Cardinality(AbsOutcomes(Abs(q, part), op)) > 1
  IN /\ q' = r.q /\ part' = r.part
     /\ last' = [op |-> op, ret |-> r.ret]
     /\ dedup' = IF r.q = <<>> THEN TRUE ELSE IF op.o = "push_dup" THEN FALSE ELSE dedup
     /\ hi' = IF dedup' THEN NewHi(op, r.q) ELSE [s \in Segs |-> 0]   \* only meaningful on the de-duplicating path
     /\ amb' = (amb \/ a)
     /\ hist' = IF Record
                THEN Append(hist, [o |-> op.o, a |-> op.a, b |-> op.b, c |-> op.c,
                                   k |-> r.ret.k, l |-> r.ret.l, n |-> r.ret.n, d |-> r.ret.d,
                                   s |-> Abs(r.q, r.part), p |-> CPeek(r.q), m |-> (amb \/ a)])
                ELSE hist

(* one named action per public operation (TLC attributes coverage to the operator that holds
   the first conjunction, hence the `kind` conjuncts) *)
Push          == \E s \in Segs, m \in Mcs, c \in {0, 1} : c \in {0, 1} /\ Step(Op("push", s, m, c))
PushDuplicate == \E s \in Segs, m \in Mcs : m \in Mcs /\ Step(Op("push_dup", s, m, 0))
Pop           == \E z \in {0} : z = 0 /\ Step(Op("pop", z, 0, 0))
PopCovered    == \E z \in {0} : z = 0 /\ Step(Op("pop_cov", z, 0, 0))
PopDuplicates == \E z \in {0} : z = 0 /\ Step(Op("pop_dups", z, 0, 0))
DrainAbove    == \E t \in Thresholds : t \in Thresholds /\ Step(Op("drain_above", t, 0, 0))
CoverUpTo     == \E s \in Segs, cm \in CoverMcs, lm \in LongMcs : lm \in LongMcs /\ Step(Op("cover", s, cm, lm))
DrainAll      == \E z \in {0} : z = 0 /\ Step(Op("drain_all", z, 0, 0))
Clear         == \E z \in {0} : z = 0 /\ Step(Op("clear", z, 0, 0))

Next == Push \/ PushDuplicate \/ Pop \/ PopCovered \/ PopDuplicates \/ DrainAbove
        \/ CoverUpTo \/ DrainAll \/ Clear

Spec == Init /\ [][Next]_vars

----------------------------------------------------------------------------------
(* C21 — state invariants (over view variables only, see MC cfg) *)
TypeOK == /\ part \in 0..Len(q)
          /\ \A i \in 1..Len(q) : q[i].seg \in Segs /\ q[i].mc \in Nat /\ q[i].cov \in BOOLEAN

(* "Entries are partitioned into uncovered (entries[0..partition]) and covered": the flag the
   documented rule assigns to an entry agrees with the side of the partition the swaps put it *)
PartitionSep == \A i \in 1..Len(q) : q[i].cov <=> (i > part)

(* "keeps at most one entry per segment with the highest max cut seen" (de-duplicating path) *)
DedupUnique ==
  dedup => /\ \A i, j \in 1..Len(q) : i # j => q[i].seg # q[j].seg
           /\ \A i \in 1..Len(q) : q[i].mc = hi[q[i].seg]

(* C21 — action properties (evaluated on EVERY transition, also into already seen states).
   Each takes the abstraction b of the pre-state and b2 of the post-state. *)
IsPop(o) == o \in {"pop", "pop_cov", "pop_dups"}
Locs(b) == {CLoc(x) : x \in Range(b)}

(* "always pops an entry with the highest max cut" — and removes exactly what it returned *)
PopMaxStep(b, b2, l) ==
  IsPop(l.op.o) =>
    IF b = <<>> THEN l.ret.k = "none" /\ b2 = <<>>
    ELSE /\ l.ret.k = "loc"
         /\ l.ret.l \in Locs(b)
         /\ \A x \in Locs(b) : CMc(x) <= CMc(l.ret.l)        \* a highest max cut
         /\ \A x \in Locs(b) : x <= l.ret.l                  \* … and the Location order among those
         /\ IF l.op.o = "pop_dups"
            THEN /\ l.ret.n = Len(SelectSeq(b, LAMBDA x : CLoc(x) = l.ret.l))
                 /\ b2 = SelectSeq(b, LAMBDA x : CLoc(x) # l.ret.l)
            ELSE \E x \in Range(b) :
                    /\ CLoc(x) = l.ret.l
                    /\ (l.op.o = "pop_cov" => (l.ret.n = 1) = CCov(x))
                    /\ b2 = Del(b, x)

(* "drains exactly the uncovered entries above a threshold" *)
DrainExactStep(b, b2, l) ==
  /\ l.op.o = "drain_above" =>
       /\ l.ret.d = SelectSeq(b, LAMBDA x : CMc(x) > l.op.a /\ ~CCov(x))
       /\ b2 = SelectSeq(b, LAMBDA x : CMc(x) <= l.op.a)
  /\ l.op.o = "drain_all" =>
       /\ l.ret.d = SelectSeq(b, LAMBDA x : ~CCov(x))
       /\ b2 = <<>>

(* the `assume` checks of the code never fire *)
NoBugStep(l) == l.ret.k # "bug"

(* the swap-based vector implements the documented rules *)
RefinesStep(b, b2, l) == Out(l.ret, b2) \in AbsOutcomes(b, l.op)

(* on the de-duplicating path every operation has exactly one allowed outcome *)
DedupDeterministicStep(b, l) == dedup => Cardinality(AbsOutcomes(b, l.op)) = 1

C21Step ==
  LET b == Abs(q, part) b2 == Abs(q', part') l == last' IN
  /\ PopMaxStep(b, b2, l)
  /\ DrainExactStep(b, b2, l)
  /\ NoBugStep(l)
  /\ RefinesStep(b, b2, l)
  /\ DedupDeterministicStep(b, l)
C21 == [][C21Step]_vars

----------------------------------------------------------------------------------
(* S2I emission: one behaviour per transition of the (view) state graph.  As an ACTION
   CONSTRAINT it is evaluated for every generated successor, new or not. *)
EmitStep == PrintT("REPLAY " \o ToJson([h |-> hist']))
=================================================================================
