\* C12/C13: seeded simulation with the code's real compaction depth (16), the whole key
\* universe (sequences of length <= 2 over {"", "a", "b"}), two names; every step of a
\* behaviour carries its expected observation (Fat).
SPECIFICATION Spec
CONSTANTS
  Names = {"x", "y"}
  Keys <- AllKeys
  ValChoice <- MCVal
  OpenCands <- NearLocs
  MergeCands <- NearPairs
  MaxDepth = 16
  Record = TRUE
  Fat = TRUE
  MaxSegs = 1000
  MaxCmds = 3
  MaxCur = 2
  MaxCps = 0
  MaxTotCmds = 1000
  MaxTotUps = 1000
  MaxFUps = 2
  MaxIdx = 1000
  NoErr = FALSE
  SimDepth = 300
ACTION_CONSTRAINT SimBound
INVARIANTS LastSegRefines PerspRefines FactPerspRefines BraidRefines EmitSim
CHECK_DEADLOCK FALSE
