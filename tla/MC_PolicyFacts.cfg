\* C29 quick: model-level invariants on every store (<= 4 facts) of every schema shape of the quick set
SPECIFICATION Spec
CONSTANTS
  Schemas <- ShapesQuick
  ValDom = 2
  MaxFacts = 4
  Limits = {1, 2, 3}
  MaxSteps = 0
  InitMode = "all"
INVARIANTS TypeOK StoreSorted ScanIsPrefixRange QueryIsLeastMatch CountsAreCapped ExistsIffAtLeastOne MapVisitsMatchesInOrder
CHECK_DEADLOCK FALSE
