SPECIFICATION Spec
CONSTANTS
  Scheme = "sealedgk"
  MaxTamper = 2
  HashModel = "tuple"
  PLens = {0}
INVARIANTS AcceptIffUnchanged IdAgreement Emit
CHECK_DEADLOCK FALSE
