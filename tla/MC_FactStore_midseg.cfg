\* C12: mid-segment reconstruction by replay of per-command updates over a committed prior index
\* (canned contexts B, C): one segment of <= 3 commands x <= 2 updates (<= 3 updates in all) over
\* two keys, written and reopened at every command as perspective and as fact perspective.
INIT MidInit
NEXT Next
CONSTANTS
  Names = {"x"}
  Keys <- MCKeys
  ValChoice <- MCVal
  OpenCands <- Locs
  MergeCands <- AllPairs
  MaxDepth = 3
  Record = TRUE
  Fat = FALSE
  MaxSegs = 2
  MaxCmds = 3
  MaxCur = 2
  MaxCps = 0
  MaxTotCmds = 4
  MaxTotUps = 4
  MaxFUps = 2
  MaxIdx = 4
  NoErr = TRUE
  SimDepth = 0
ACTION_CONSTRAINT EmitMid
VIEW View
INVARIANTS SegRefines MidRefines PerspRefines FactPerspRefines ChainOK PriorFactsOK
PROPERTIES RevertExact
CHECK_DEADLOCK FALSE
