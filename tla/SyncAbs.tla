------------------------------- MODULE SyncAbs -------------------------------
(* C16 / C17 — sync sessions between a requester A and a responder B
   (crates/aranya-runtime/src/sync/{requester,responder}.rs).

   Property level (Impl = FALSE).  A session is
        Sample  ->  Respond(D_0) .. Respond(D_n)  ->  End  ->  Commit
   where the sample is any set of at most SampleMax commands A holds, every batch D_i is a
   non-empty sequence of at most RespMax commands that B has committed (Sound), none of which was
   sent before in this session, each of whose parents A holds or received earlier (ParentsFirst),
   carried with index i.  `Progress`: a session that ends while B holds a command A lacks delivered
   at least one command A lacked.  Under Progress repeated sessions reach A \supseteq B (Converges,
   a liveness property under weak fairness).

   Implementation shaped (Impl = TRUE): the same session machine with the requester's sampling
   (`SyncRequester::get_commands`: peer-cache heads, then a breadth-first walk from the graph heads
   that stops at the peer cache, at most SampleMax addresses, duplicates included), the responder's
   `find_needed_segments` (everything B holds that is not an ancestor-or-self of a sample address B
   can locate; only the SegMax entries with the lowest max cut are kept; sorted by max cut), the
   per-response limit RespMax, and the requester's peer cache (CacheMax entries, `update_heads`
   after commit = add_command over the received addresses newest first).  Commands stand for
   segments here (the STRETCH of the conformance harness makes segments longer than responses).
   TLC checks that every implementation-shaped step is a property-level step (Refines: Sound,
   ParentsFirst, limits, indices) and that Progress holds except in the two classes in which the
   design gives no per-session progress (DESIGN §7.6):
        WideRequester   A has more heads than SampleMax: the sample never reaches below them;
        UnknownSample   the sample is full and B can locate none of its addresses (A diverged by
                        >= SampleMax commands of its own): B re-sends its oldest SegMax segments;
        UncoveredDupFull a full response of commands A holds but no located sample address covers
                        (one-response sessions: found with RespMax = 1 by MC_SyncAbs_impl1).
   `OneShot` models the transports that use a fresh responder per request (one response per
   session: aranya-tcp-syncer, the DSL `sync`) instead of polling until SyncEnd.             *)
EXTENDS Naturals, Sequences, FiniteSets, TLC, Json, SyncDag

CONSTANTS MaxNodes,      \* DAG shapes with 1..MaxNodes commands
          SampleMax,     \* COMMAND_SAMPLE_MAX   (100)
          RespMax,       \* COMMAND_RESPONSE_MAX (100)
          SegMax,        \* SEGMENT_BUFFER_MAX   (100)
          CacheMax,      \* PEER_HEAD_MAX        (10)
          Impl,          \* BOOLEAN
          OneShot,       \* BOOLEAN (Impl only): the session is dropped after the first response
          MaxSessions,
          AssumeProgress,\* BOOLEAN (property level): End requires Progress
          Exempt         \* BOOLEAN (Impl): exempt WideRequester / UnknownSample from Progress

VARIABLES par, anc, mc,        \* the DAG, its ancestor relation and max cuts (fixed by Init)
          haveA, haveB,        \* committed command sets
          pcA,                 \* A's peer cache for B (sequence)
          phase,               \* "idle" | "sampled" | "sending" | "ended"
          sample,              \* sequence of sampled addresses
          toSend, nextSend,    \* responder: needed segments, position
          idx,                 \* number of responses sent in this session
          got,                 \* commands received in this session, in order
          sess,                \* completed sessions
          flags                \* per session: [wide, unknown] exemption witnesses

vars == <<par, anc, mc, haveA, haveB, pcA, phase, sample, toSend, nextSend, idx, got, sess, flags>>

SeqSet(s) == {s[i] : i \in 1..Len(s)}
Min(a, b) == IF a < b THEN a ELSE b

----------------------------------------------------------------------------------
(* the property's predicates, as pure operators (re-used by Trace_Sync on recorded sessions) *)

Sound(batch, resp) == SeqSet(batch) \subseteq resp

RECURSIVE ParentsFirstFrom(_, _, _, _)
ParentsFirstFrom(p, have, batch, i) ==        \* IF, not \/: TLC explores both disjuncts inside an action
  IF i > Len(batch) THEN TRUE
  ELSE IF batch[i] \in have                  \* a duplicate is skipped by add_commands
       THEN ParentsFirstFrom(p, have, batch, i + 1)
       ELSE IF p[batch[i]] \subseteq have
            THEN ParentsFirstFrom(p, have \cup {batch[i]}, batch, i + 1)
            ELSE FALSE
ParentsFirst(p, have, batch) == ParentsFirstFrom(p, have, batch, 1)

Fresh(batch, have) == SeqSet(batch) \ have

ProgressOK(have, resp, received) == IF resp \subseteq have THEN TRUE ELSE received \ have # {}

----------------------------------------------------------------------------------
Init ==
  /\ par \in UNION {Shapes(k) : k \in 1..MaxNodes}
  /\ anc = [n \in Nodes(par) |-> AncOf(par, n)]
  /\ mc = [n \in Nodes(par) |-> McOf(par, n)]
  /\ haveA \in Downsets(par)
  /\ haveB \in Downsets(par)
  /\ pcA = <<>>
  /\ phase = "idle"
  /\ sample = <<>> /\ toSend = <<>> /\ nextSend = 1 /\ idx = 0 /\ got = <<>> /\ sess = 0
  /\ flags = [wide |-> FALSE, unknown |-> FALSE, everWide |-> FALSE]

Acc == haveA \cup SeqSet(got)        \* what A's transaction holds

----------------------------------------------------------------------------------
(* property level *)

Batches(S, k) == UNION {{b \in [1..l -> S] : \A i, j \in 1..l : i # j => b[i] # b[j]} : l \in 1..k}

SetToSeq(S) == LET RECURSIVE F(_) F(T) == IF T = {} THEN <<>> ELSE LET m == CHOOSE x \in T : \A y \in T : x <= y IN <<m>> \o F(T \ {m}) IN F(S)

ASample ==
  /\ ~Impl
  /\ phase = "idle" /\ sess < MaxSessions
  /\ \E S \in SUBSET haveA : /\ Cardinality(S) <= SampleMax
                             /\ sample' = SetToSeq(S)
  /\ phase' = "sampled"
  /\ UNCHANGED <<par, anc, mc, haveA, haveB, pcA, toSend, nextSend, idx, got, sess, flags>>

ARespond ==
  /\ ~Impl
  /\ phase \in {"sampled", "sending"}
  /\ \E D \in Batches(haveB \ SeqSet(got), RespMax) :
        /\ ParentsFirst(par, Acc, D)
        /\ got' = got \o D
  /\ idx' = idx + 1
  /\ phase' = "sending"
  /\ UNCHANGED <<par, anc, mc, haveA, haveB, pcA, sample, toSend, nextSend, sess, flags>>

AEnd ==
  /\ ~Impl
  /\ phase \in {"sampled", "sending"}
  /\ AssumeProgress => ProgressOK(haveA, haveB, SeqSet(got))
  /\ phase' = "ended"
  /\ UNCHANGED <<par, anc, mc, haveA, haveB, pcA, sample, toSend, nextSend, idx, got, sess, flags>>

ACommit ==
  /\ ~Impl
  /\ phase = "ended"
  /\ haveA' = Acc
  /\ phase' = "idle" /\ got' = <<>> /\ idx' = 0 /\ sample' = <<>> /\ sess' = sess + 1
  /\ UNCHANGED <<par, anc, mc, haveB, pcA, toSend, nextSend, flags>>

----------------------------------------------------------------------------------
(* implementation shaped *)

(* SyncRequester::get_commands without an open transaction *)
RECURSIVE Level(_, _, _, _, _)
Level(cur, i, smp, next, stop) ==
  IF i > Len(cur) \/ Len(smp) >= SampleMax THEN [smp |-> smp, next |-> next]
  ELSE LET loc == cur[i] IN
       IF loc \in stop \/ \E c \in stop : loc \in anc[c]
       THEN Level(cur, i + 1, smp, next, stop)
       ELSE Level(cur, i + 1, Append(smp, loc), next \o SetToSeq(par[loc]), stop)

RECURSIVE Bfs(_, _, _)
Bfs(cur, smp, stop) ==
  IF Len(smp) >= SampleMax \/ cur = <<>> THEN smp
  ELSE LET r == Level(cur, 1, smp, <<>>, stop) IN Bfs(r.next, r.smp, stop)

ImplSample == Bfs(SetToSeq(Heads(par, haveA)), SubSeq(pcA, 1, Min(Len(pcA), SampleMax)), SeqSet(pcA))

(* SyncResponder::find_needed_segments *)
Key(n) == mc[n] * 100 + n
SortByKey(S) == LET RECURSIVE F(_) F(T) == IF T = {} THEN <<>> ELSE LET m == CHOOSE x \in T : \A y \in T : Key(x) <= Key(y) IN <<m>> \o F(T \ {m}) IN F(S)
ImplNeeded(smp) ==
  LET located == SeqSet(smp) \cap haveB
      covered == located \cup UNION {anc[l] : l \in located}
      sorted == SortByKey(haveB \ covered)
  IN SubSeq(sorted, 1, Min(Len(sorted), SegMax))

ISample ==
  /\ Impl
  /\ phase = "idle" /\ sess < MaxSessions
  /\ sample' = ImplSample
  /\ toSend' = ImplNeeded(sample')
  /\ nextSend' = 1
  /\ phase' = "sampled"
  /\ LET w == Cardinality(Heads(par, haveA)) > SampleMax IN
       flags' = [wide |-> w,
                 unknown |-> Len(sample') >= SampleMax /\ SeqSet(sample') \cap haveB = {},
                 everWide |-> flags.everWide \/ w]
  /\ UNCHANGED <<par, anc, mc, haveA, haveB, pcA, idx, got, sess>>

IRespond ==
  /\ Impl
  /\ phase \in {"sampled", "sending"}
  /\ ~(OneShot /\ idx >= 1)
  /\ nextSend <= Len(toSend)
  /\ LET last == Min(nextSend + RespMax - 1, Len(toSend)) IN
       /\ got' = got \o SubSeq(toSend, nextSend, last)
       /\ nextSend' = last + 1
  /\ idx' = idx + 1
  /\ phase' = "sending"
  /\ UNCHANGED <<par, anc, mc, haveA, haveB, pcA, sample, toSend, sess, flags>>

IEnd ==
  /\ Impl
  /\ phase \in {"sampled", "sending"}
  /\ nextSend > Len(toSend) \/ (OneShot /\ idx >= 1)
  /\ phase' = "ended"
  /\ UNCHANGED <<par, anc, mc, haveA, haveB, pcA, sample, toSend, nextSend, idx, got, sess, flags>>

(* commit, then ClientState::update_heads: add_command over the received addresses, newest first *)
RECURSIVE FoldCache(_, _, _, _)
FoldCache(c, s, i, committed) ==
  IF i < 1 THEN c ELSE FoldCache(CacheAdd(anc, committed, CacheMax, c, s[i], TRUE), s, i - 1, committed)

ICommit ==
  /\ Impl
  /\ phase = "ended"
  /\ haveA' = Acc
  /\ pcA' = FoldCache(pcA, got, Len(got), Acc)
  /\ phase' = "idle" /\ got' = <<>> /\ idx' = 0 /\ sample' = <<>> /\ toSend' = <<>> /\ nextSend' = 1
  /\ sess' = sess + 1
  /\ UNCHANGED <<par, anc, mc, haveB, flags>>

----------------------------------------------------------------------------------
Next == \/ ASample \/ ARespond \/ AEnd \/ ACommit        \* property level  (~Impl)
        \/ ISample \/ IRespond \/ IEnd \/ ICommit        \* implementation shaped (Impl)

Spec == Init /\ [][Next]_vars /\ WF_vars(Next)

----------------------------------------------------------------------------------
(* C17: safety of every session *)
TypeOK       == haveA \subseteq Nodes(par) /\ haveB \subseteq Nodes(par)
AClosed      == Closed(par, haveA) /\ Closed(par, Acc)          \* add_commands accepted everything so far
GotSound     == SeqSet(got) \subseteq haveB                     \* only commands B committed
NoRepeat     == Cardinality(SeqSet(got)) = Len(got)
SampleOK     == Len(sample) <= SampleMax /\ SeqSet(sample) \subseteq haveA
CacheOK      == /\ Len(pcA) <= CacheMax
                /\ SeqSet(pcA) \subseteq haveA \cap haveB       \* C20 at the system level: A only records what B really has
                /\ Antichain(par, SeqSet(pcA))
IndexOK      == (phase \in {"idle", "sampled"} => idx = 0) /\ idx <= Len(got)
(* every response was a property-level batch (Refines): checked as an action property *)
StepSound ==
  [][ got' # got /\ got' # <<>> =>
        LET D == SubSeq(got', Len(got) + 1, Len(got'))
        IN /\ Len(D) >= 1 /\ Len(D) <= RespMax
           /\ Sound(D, haveB)
           /\ SeqSet(D) \cap SeqSet(got) = {}
           /\ ParentsFirst(par, Acc, D)
           /\ idx' = idx + 1 ]_vars
Monotone == [][haveA \subseteq haveA' /\ haveB' = haveB]_vars
(* finitely many responses: a session of B sends each command at most once *)
Terminates == idx <= Cardinality(haveB)

(* C16 *)
(* third class (found by the conformance run, Trace_Sync key `>=100-uncovered-duplicates`): a full
   response (or a full needed-segment buffer) of commands A holds but that no sample address B can
   locate covers — sampling by segment head cannot tell B about them *)
CoveredBySample == LET located == SeqSet(sample) \cap haveB IN located \cup UNION {anc[l] : l \in located}
UncoveredDupFull == /\ Len(got) >= RespMax
                    /\ SeqSet(got) \subseteq haveA
                    /\ SeqSet(got) \cap CoveredBySample = {}
Exempted == Exempt /\ (flags.wide \/ flags.unknown \/ UncoveredDupFull)
Progress == phase = "ended" => (ProgressOK(haveA, haveB, SeqSet(got)) \/ Exempted)
Converges == <>[](haveB \subseteq haveA)
(* with Progress every session closes the gap, so MaxSessions >= MaxNodes - 1 sessions suffice *)
ConvergedWhenDone == (sess = MaxSessions /\ phase = "idle") => (haveB \subseteq haveA)
(* implementation shaped: a requester that never had more heads than SampleMax does converge (the
   UnknownSample sessions only delay it); MaxSessions must cover missing commands + delays *)
ImplConverged == (sess = MaxSessions /\ phase = "idle" /\ ~flags.everWide) => (haveB \subseteq haveA)

----------------------------------------------------------------------------------
(* I2S input for the conformance engine: every DAG shape with every pair of committed sets *)
EmitPairs == (sess = 0 /\ phase = "idle") =>
               PrintT("REPLAY " \o ToJson([par |-> [n \in 1..Len(par) |-> par[n]], A |-> haveA, B |-> haveB]))
=============================================================================
