---------------------------- MODULE LinearFileCrash ----------------------------
(* C15, S2I half — crash plans for a *recorded* I/O log of the real file-backed storage.

   Input (IOEnv.CRASHLOG, ndjson written by `vh-crash record`): the abstract I/O log of a real
   workload, one record per event, in issue order:
     [ev |-> "c", id]                 file created
     [ev |-> "w", id, nt, root]       pwrite #id; nt = number of candidate tear positions the
                                      engine can concretise (proper prefixes); root = the write
                                      lies in a root slot
     [ev |-> "f", id]                 fallocate #id (a size change; lost or kept)
     [ev |-> "s", id]                 fdatasync / fsync #id
     [ev |-> "ret", k]                the k-th committing API call returned
   This module knows nothing about what the code *should* have written: it is the generic
   file semantics of LinearFile.tla (writes since the last sync persist in any subset, each
   possibly torn at a prefix; a sync makes everything before it durable) applied to the log,
   plus the property-level bookkeeping: a *commit* is complete when a sync follows a write into
   a root slot.  TLC enumerates, for every crash point, the crash plans and the set of commits
   the reopened file may show (C15: the last completed commit or the one in progress; an error
   only if none completed), and emits them as REPLAY lines which the engine concretises:

     [t |-> "commit", j, sync]        commit j is complete once sync #sync returned: the engine
                                      snapshots the clean image at that point = state S_j
     [t |-> "ret", k, last]           API call k returned: the live state must be S_last
     [t |-> "plan", pt, sync, ids, plan, allowed, err_ok]
                                      crash after event #pt; everything before sync #sync is
                                      durable; write ids[i] persists per plan[i]
                                      (0 lost, 1..nt torn at candidate plan[i], nt+1 kept);
                                      the reopened state must be S_j for some j in allowed,
                                      or an error iff err_ok.

   Plans are exhaustive while the number of unsynced writes is <= Exhaustive and the product is
   <= Cap; beyond that: all lost, all kept, each single deviation from all-kept and from
   all-lost, every prefix/suffix of the issue order, and `Samples` seeded pseudo-random plans. *)
EXTENDS Naturals, Sequences, FiniteSets, TLC, Json, IOUtils

CONSTANTS Exhaustive, Cap, Samples, Seed

Log == ndJsonDeserialize(IOEnv.CRASHLOG)

VARIABLES idx,        \* next log record to consume
          unsynced,   \* <<[id, nt]>> writes/fallocates/create since the last sync
          lastsync,   \* id of the last sync consumed (0 = none)
          lastio,     \* id of the last I/O event consumed
          last,       \* number of completed commits
          rootpend,   \* a root-slot write was issued since the last sync
          mode, out

vars == <<idx, unsynced, lastsync, lastio, last, rootpend, mode, out>>

None == [t |-> "none"]

Init == /\ idx = 1 /\ unsynced = <<>> /\ lastsync = 0 /\ lastio = 0 /\ last = 0
        /\ rootpend = FALSE /\ mode = "run" /\ out = None

(* consume one record of the log *)
Step ==
  /\ mode = "run"
  /\ idx <= Len(Log)
  /\ idx' = idx + 1
  /\ mode' = mode
  /\ LET e == Log[idx] IN
     CASE e.ev = "w" ->
            /\ unsynced' = Append(unsynced, [id |-> e.id, nt |-> e.nt])
            /\ rootpend' = (rootpend \/ e.root)
            /\ lastio' = e.id
            /\ out' = None
            /\ UNCHANGED <<lastsync, last>>
       [] e.ev \in {"f", "c"} ->
            /\ unsynced' = Append(unsynced, [id |-> e.id, nt |-> 0])
            /\ lastio' = e.id
            /\ out' = None
            /\ UNCHANGED <<lastsync, last, rootpend>>
       [] e.ev = "s" ->
            /\ unsynced' = <<>>
            /\ lastsync' = e.id
            /\ lastio' = e.id
            /\ rootpend' = FALSE
            /\ last' = IF rootpend THEN last + 1 ELSE last
            /\ out' = IF rootpend THEN [t |-> "commit", j |-> last + 1, sync |-> e.id] ELSE None
       [] e.ev = "ret" ->
            /\ out' = [t |-> "ret", k |-> e.k, last |-> last, sync |-> lastsync]
            /\ UNCHANGED <<unsynced, lastsync, lastio, last, rootpend>>
       [] OTHER -> FALSE

--------------------------------------------------------------------------------
(* plans over the current unsynced writes *)

N == Len(unsynced)
Kept(i) == unsynced[i].nt + 1

RECURSIVE Prod(_)
Prod(i) == IF i > N THEN {<<>>}
           ELSE {<<v>> \o t : v \in 0..Kept(i), t \in Prod(i + 1)}

RECURSIVE Size(_)
Size(i) == IF i > N THEN 1
           ELSE LET r == Size(i + 1) IN IF r > Cap THEN r ELSE r * (Kept(i) + 1)

AllKept == [i \in 1..N |-> Kept(i)]
AllLost == [i \in 1..N |-> 0]

\* small deterministic hash (all intermediate values < 2^31)
Mix(s, i) == ((s % 9973) * 1103 + (i % 9973) * 7919 + (idx % 9973) * 10477
              + (s % 997) * (i % 997) * 31 + (Seed % 9973) * 4513) % 65521
Sampled(s) == [i \in 1..N |-> Mix(s, i) % (Kept(i) + 1)]

Structured ==
  {AllKept, AllLost}
  \cup UNION {{[AllKept EXCEPT ![i] = v] : v \in 0..(Kept(i) - 1)} : i \in 1..N}
  \cup UNION {{[AllLost EXCEPT ![i] = v] : v \in 1..Kept(i)} : i \in 1..N}
  \cup {[i \in 1..N |-> IF i <= j THEN Kept(i) ELSE 0] : j \in 1..N}
  \cup {[i \in 1..N |-> IF i > j THEN Kept(i) ELSE 0] : j \in 1..N}
  \cup {Sampled(s) : s \in 1..Samples}

Valid(p) == \A i \in 1..N : p[i] <= Kept(i)

PlanSet == IF N <= Exhaustive /\ Size(1) <= Cap THEN Prod(1)
           ELSE {p \in Structured : Valid(p)}

(* the machine dies after the last consumed event *)
Crash ==
  /\ mode = "run"
  /\ lastio > 0
  /\ \E p \in PlanSet :
       out' = [t |-> "plan", pt |-> lastio, sync |-> lastsync,
               ids |-> [i \in 1..N |-> unsynced[i].id], plan |-> p,
               allowed |-> IF rootpend THEN <<last, last + 1>> ELSE <<last>>,
               err_ok |-> (last = 0)]
  /\ mode' = "crashed"
  /\ UNCHANGED <<idx, unsynced, lastsync, lastio, last, rootpend>>

Next == Step \/ Crash
Spec == Init /\ [][Next]_vars

Emit == out.t # "none" => PrintT("REPLAY " \o ToJson(out))
=================================================================================
