\* C20 thorough: DAG shapes <= 5 nodes
SPECIFICATION Spec
CONSTANTS
  Cap = 10
  MaxDepth = 6
  InitShapes <- MC_Shapes5
  StatusMode = "all"
  Canon = FALSE
VIEW View
INVARIANTS AtMostCap NoDuplicates OnlyCommitted IsAntichain Emit
PROPERTIES StepRule
CHECK_DEADLOCK FALSE
