\* C29 S2I generation by simulation: histories of create/update/delete/commit/observe from the
\* empty store over every key-type list of length 1..3 (tlc -simulate, depth MaxSteps+1)
SPECIFICATION SimSpec
CONSTANTS
  Schemas <- SchemasAll
  ValDom = 2
  MaxFacts = 4
  Limits = {1, 2, 3}
  MaxSteps = 8
  InitMode = "empty"
INVARIANTS TypeOK StoreSorted Emit
PROPERTIES OneKeyPerStep
CHECK_DEADLOCK FALSE
