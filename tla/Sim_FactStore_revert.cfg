\* C13: seeded simulation of long perspectives with nested checkpoints and reverts (two names,
\* whole key universe), segments written and reopened; every step carries its expectation.
SPECIFICATION Spec
CONSTANTS
  Names = {"x", "y"}
  Keys <- AllKeys
  ValChoice <- MCVal
  OpenCands <- NearLocs
  MergeCands <- NearPairs
  MaxDepth = 16
  Record = TRUE
  Fat = TRUE
  MaxSegs = 1000
  MaxCmds = 3
  MaxCur = 3
  MaxCps = 3
  MaxTotCmds = 1000
  MaxTotUps = 1000
  MaxFUps = 0
  MaxIdx = 1000
  NoErr = FALSE
  SimDepth = 120
ACTION_CONSTRAINT SimBound
INVARIANTS LastSegRefines PerspRefines EmitSim
PROPERTIES RevertExact
CHECK_DEADLOCK FALSE
