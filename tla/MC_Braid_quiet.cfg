\* quiet commands (write no fact): segments whose prefix writes nothing, N=4
SPECIFICATION Spec
CONSTANTS
  MergeTag = 2
  N = 4
  Kinds = {"b0"}
  Ops = {"n", "q"}
  EmitEvery = 1
  EmitSalt = 0
INVARIANTS InvAlgEqRef InvLcaWalk InvFoldWalk InvFinalize InvOnce InvDominator InvFinalizeFirst Emit
CHECK_DEADLOCK FALSE
