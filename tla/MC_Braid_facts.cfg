\* fact semantics: set / delete / set-if-absent (rejected in braid)
SPECIFICATION Spec
CONSTANTS
  MergeTag = 2
  N = 3
  Kinds = {"b0", "fin"}
  Ops = {"n", "s", "d", "x"}
  EmitEvery = 1
  EmitSalt = 0
INVARIANTS InvAlgEqRef InvLcaWalk InvFoldWalk InvFinalize InvOnce InvDominator InvFinalizeFirst Emit
CHECK_DEADLOCK FALSE
