SPECIFICATION Spec
CONSTANTS
  MergeTag = 2
  N = 3
  Kinds = {"b0", "b1", "fin"}
  Ops = {"n"}
  EmitEvery = 1
INVARIANTS InvAlgEqRef InvLcaWalk InvFoldWalk InvFinalize InvOnce InvDominator InvFinalizeFirst Emit
CHECK_DEADLOCK FALSE
