\* exhaustive: every production over every combination of atoms (expression depth 1)
SPECIFICATION Spec
CONSTANTS
  MaxDepth = 1
  StmtDepth = 0
  Effects = FALSE
  Focus = "all"
  Quirks = FALSE
  EnvCap = 16
  RetTypes <- MC_RetQuick
INVARIANTS Emit DerivationInExprs
CHECK_DEADLOCK FALSE
