-------------------------- MODULE Trace_TraversalQueue --------------------------
(* I2S for C21: validates OBSERVED results of the real TraversalQueue against the abstract
   layer (the documented rules) of TraversalQueueRules.

   Input IOEnv.TRACE: ndjson, one event per line
     {"o": op, "a","b","c": args, "k","l","n","d": observed return value,
      "s": observed content after the operation (ascending codes)}
   or {"o": "reset"} (a new queue; many traces are concatenated).
   An event is accepted iff (observed return, observed content) is one of the outcomes the
   rules allow from the current content.  Because the observed content is part of the event
   the trace spec is deterministic; the bag in the state is the last observed content.      *)
EXTENDS TraversalQueueRules, TLC, Json, IOUtils

Rec == ndJsonDeserialize(IOEnv.TRACE)

VARIABLES i, bag
tvars == <<i, bag>>

TInit == i = 0 /\ bag = <<>>

TNext ==
  /\ i < Len(Rec)
  /\ i' = i + 1
  /\ LET e == Rec[i + 1] IN
       IF e.o = "reset" THEN bag' = <<>>
       ELSE /\ Out(Ret(e.k, e.l, e.n, e.d), e.s) \in AbsOutcomes(bag, Op(e.o, e.a, e.b, e.c))
            /\ bag' = e.s

TSpec == TInit /\ [][TNext]_tvars

(* content is always a well-formed bag; pops respect the order — re-checked on observed data *)
Sorted(b) == \A j \in 1..(Len(b) - 1) : b[j] <= b[j + 1]
TInv == Sorted(bag)

Accepted ==
  IF TLCGet("stats").diameter - 1 = Len(Rec)
  THEN PrintT("TRACE-ACCEPTED")
  ELSE PrintT("TRACE-REJECTED at " \o ToString(TLCGet("stats").diameter))
=================================================================================
