------------------------------ MODULE CliValidate ------------------------------
(* C31 — the `policy-compiler` binary (`crates/aranya-policy-compiler/src/bin/policy-compiler/
   main.rs`) as a sequential pipeline, one action per stage of `main`:

       read -> parse -> compile -> validate (unless --no-validate) -> stub check -> write

   and the decision table the property quantifies over.  A *cell* is a corpus class of the
   input document together with the command-line flags:

       class       missing      the input file does not exist
                   unparsable   `parse_policy_document` fails
                   uncompilable parses, `Compiler::compile` fails
                   invalid      compiles, a validation trace fails (missing return /
                                action branch without publish / use before assignment ...)
                   valid        compiles and passes validation
       ffi         the document `use`s an FFI module the CLI has no schema for: it compiles
                   only with --stub-ffi (only for the classes that get as far as compiling)
       novalidate  --no-validate            stubffi   --stub-ffi
       out         --out <path> given       verbose   --verbose

   `validate()` of the library returns TRUE when a trace FAILED (its tests pin that meaning).
   `Negate` is the design switch for how `main` uses it: FALSE = exit with failure when
   validate() is true (the property's design); TRUE = `!validate(..)` — the inverted use found
   in the tree (DESIGN §7.3), kept as configuration MC_CliValidate_inverted.cfg to show that the
   invariants notice it.

   TABLE binding (DESIGN §2.1): TLC enumerates every cell (one initial state each), runs the
   pipeline, checks the invariants and emits cell + outcome; the harness concretises each cell
   with every corpus document of its class, runs the real binary and decides on exit status
   and on which files exist afterwards.                                                       *)
EXTENDS Naturals, Sequences, FiniteSets, TLC, Json

CONSTANTS Classes, Negate

VARIABLES cell,       \* the input of this run
          pc,         \* stage of main
          exit,       \* "running" | "success" | "failure" | "panic"
          written,    \* an output module was written
          said        \* stages that printed a diagnostic (stdout), drift-level information

vars == <<cell, pc, exit, written, said>>

CompilingClasses == {"uncompilable", "invalid", "valid"}

Cells == { c \in [class : Classes, ffi : BOOLEAN, novalidate : BOOLEAN, stubffi : BOOLEAN,
                  out : BOOLEAN, verbose : BOOLEAN] :
             c.ffi => c.class \in {"invalid", "valid"} }

(* the facts about the document that the stages compute *)
Exists(c)   == c.class # "missing"
Parses(c)   == c.class \in {"uncompilable", "invalid", "valid"}
Compiles(c) == c.class \in {"invalid", "valid"} /\ (c.ffi => c.stubffi)
TraceFails(c) == c.class = "invalid"          \* what the library's validate() returns

Init == /\ cell \in Cells
        /\ pc = "read"
        /\ exit = "running"
        /\ written = FALSE
        /\ said = <<>>

Stop(e, msg) == /\ exit' = e
                /\ pc' = "done"
                /\ said' = IF msg = "" THEN said ELSE Append(said, msg)
                /\ UNCHANGED <<cell, written>>

Go(next) == /\ pc' = next
            /\ UNCHANGED <<cell, exit, written, said>>

(* std::fs::read_to_string(..).expect(..) *)
Read == /\ pc = "read"
        /\ IF Exists(cell) THEN Go("parse") ELSE Stop("panic", "could not read input file")

(* parse_policy_document *)
Parse == /\ pc = "parse"
         /\ IF Parses(cell) THEN Go("compile") ELSE Stop("failure", "parse error")

(* Compiler::new(&ast).stub_ffi(args.stub_ffi).compile() *)
Compile == /\ pc = "compile"
           /\ IF Compiles(cell) THEN Go("validate") ELSE Stop("failure", "compile error")

(* if !args.no_validate && <use of validate(&module)> { return FAILURE } *)
Validate ==
  /\ pc = "validate"
  /\ IF cell.novalidate THEN Go("stub")
     ELSE LET failed == TraceFails(cell)                 \* validate(&module)
              reject == IF Negate THEN ~failed ELSE failed
          IN IF reject THEN Stop("failure", IF failed THEN "trace failure" ELSE "")
             ELSE /\ pc' = "stub"
                  /\ said' = IF failed THEN Append(said, "trace failure") ELSE said
                  /\ UNCHANGED <<cell, exit, written>>

(* if args.stub_ffi { println!("Not creating output file with --stub-ffi"); return SUCCESS } *)
StubCheck == /\ pc = "stub"
             /\ IF cell.stubffi THEN Stop("success", "not creating output file") ELSE Go("write")

(* File::create(out_path); ciborium::into_writer(&module, ..) *)
Write == /\ pc = "write"
         /\ written' = TRUE
         /\ exit' = "success"
         /\ pc' = "done"
         /\ UNCHANGED <<cell, said>>

Next == Read \/ Parse \/ Compile \/ Validate \/ StubCheck \/ Write

Spec == Init /\ [][Next]_vars

----------------------------------------------------------------------------------
(* Properties (C31) *)
Done == pc = "done"

Acceptable(c) == Exists(c) /\ Parses(c) /\ Compiles(c) /\ (c.novalidate \/ ~TraceFails(c))

TypeOK == /\ cell \in Cells
          /\ exit \in {"running", "success", "failure", "panic"}
          /\ (exit = "running") = (pc # "done")

(* exits successfully / writes a module only if the policy parses, compiles and, unless
   validation is disabled, passes validation *)
SuccessOnlyIfAcceptable == (Done /\ exit = "success") => Acceptable(cell)
WrittenOnlyIfSuccess == written => (Done /\ exit = "success" /\ Acceptable(cell))

(* a policy that fails validation makes it exit with failure *)
InvalidFails == (Done /\ Compiles(cell) /\ TraceFails(cell) /\ ~cell.novalidate) => exit = "failure"

(* and the tool is useful: an acceptable document is accepted, its module written unless
   --stub-ffi was given *)
AcceptableSucceeds == (Done /\ Acceptable(cell)) => (exit = "success" /\ (written <=> ~cell.stubffi))

----------------------------------------------------------------------------------
(* TABLE emission: one line per cell with the outcome the relation defines *)
Emit == Done => PrintT("REPLAY " \o ToJson([cell |-> cell,
                                            success |-> exit = "success",
                                            exit |-> exit,
                                            written |-> written,
                                            said |-> said]))
=================================================================================
