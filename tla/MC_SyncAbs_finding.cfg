\* design-level reproduction of DESIGN 7.6: without the exemptions Progress is violated (expected)
\* every step is a property-level step; Progress outside the two exempted classes; convergence
SPECIFICATION Spec
CONSTANTS
  MaxNodes = 5
  SampleMax = 2
  RespMax = 2
  SegMax = 2
  CacheMax = 2
  Impl = TRUE
  OneShot = FALSE
  MaxSessions = 8
  AssumeProgress = FALSE
  Exempt = FALSE
INVARIANTS TypeOK AClosed GotSound NoRepeat SampleOK CacheOK IndexOK Terminates Progress ImplConverged
PROPERTIES StepSound Monotone
CHECK_DEADLOCK FALSE
