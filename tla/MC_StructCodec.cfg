\* C26 quick: every single-field schema of nesting depth <= 2 over all field kinds, and every
\* two-field schema (depth <= 1) x (base kind)
SPECIFICATION Spec
CONSTANTS
  Ints <- QuickInts
  Depth = 2
  TwoFields = TRUE
  FirstDepth = 1
  Randoms = 2
INVARIANTS RoundTrip RequiredRejected Predicted ClassesKnown Emit
CHECK_DEADLOCK FALSE
