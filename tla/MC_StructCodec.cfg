\* C26 quick: every single-field schema of nesting depth <= 2 over all field kinds
SPECIFICATION Spec
CONSTANTS
  Ints <- QuickInts
  Depth = 2
  TwoFields = FALSE
  Randoms = 2
INVARIANTS RoundTrip RequiredRejected Predicted ClassesKnown Emit
CHECK_DEADLOCK FALSE
