\* untyped: `return e` for every e in AnyExprs(1) over a reduced atom set (Effects = TRUE: all atoms)
SPECIFICATION AnySpec
CONSTANTS
  MaxDepth = 1
  StmtDepth = 0
  Effects = FALSE
  Focus = "all"
  Quirks = TRUE
  EnvCap = 6
  RetTypes <- MC_RetInt
INVARIANTS Emit
CHECK_DEADLOCK FALSE
