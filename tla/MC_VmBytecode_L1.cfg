\* C25 quick+thorough: the totality table — every instruction cell x every initial stack of depth 0..2
SPECIFICATION Spec
CONSTANTS
  Lens = {1}
  MaxInit = 2
  Budget = 4
  CellSet <- AllCells
  InitSet <- AllInits
INVARIANTS OutcomeDefined StackBounded TypeOK Emit
CHECK_DEADLOCK FALSE
