\* C25 quick+thorough: every 2-instruction prefix tree from initial stacks of depth 0..1
SPECIFICATION Spec
CONSTANTS
  Lens = {2}
  MaxInit = 1
  Budget = 6
  CellSet <- AllCells
  InitSet <- AllInits
INVARIANTS OutcomeDefined StackBounded TypeOK Emit
CHECK_DEADLOCK FALSE
