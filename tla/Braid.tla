--------------------------------- MODULE Braid ---------------------------------
(* Graph layer of aranya-runtime (DESIGN §3.1): ids, the command DAG, max cuts, the
   bottleneck chain / last common ancestor, and braiding.

   Two braids are defined and compared by TLC:

   * RefBraid — the storage-independent reference of C03: the commands above the heads'
     last common ancestor are ordered in reverse topological order, least (priority, id)
     first among the commands all of whose in-region descendants are placed; the walk stops
     when a single candidate remains and the stored state of that command is the start
     state.  Two finalize candidates at once = ParallelFinalize (C05).
   * AlgBraid — transcription of `client/braiding.rs::braid` + `convergence_map.rs`:
     strand heap, per-location convergence counts (in-region in-degree), the
     `max_cut <= lca.max_cut` cut-off, merge commands skipped, `lone()` exit, a heap limited
     to one finalize command.

   The audit fact semantics (`Apply`) is the harness policy's: every accepted command
   appends itself to `seq` (except quiet commands, op q, which write nothing — segments whose
   prefix writes no facts take a shortcut in the storage); ops s/d/x set / delete /
   set-if-absent the key "k", `x` being
   *rejected* (no write at all) when the key is present — the realistic "rejected in braid"
   case.                                                                                  *)
EXTENDS Naturals, Sequences, FiniteSets, TLC

CONSTANTS MergeTag      \* first id element of merge commands: 2 (after basics) or 0 (before)

VARIABLE dag            \* sequence of [par, kind, prio, rank, lca, op]; dag[1] = init

Nodes      == 1..Len(dag)
Par(c)     == dag[c].par                       \* <<>>, <<p>>, <<l, r>>
ParSet(c)  == {Par(c)[i] : i \in 1..Len(Par(c))}
IsMerge(c) == dag[c].kind = "merge"
IsFin(c)   == dag[c].kind = "fin"
IsInit(c)  == dag[c].kind = "init"

RECURSIVE AncSelf(_)
AncSelf(c) == {c} \cup UNION {AncSelf(p) : p \in ParSet(c)}
Anc(c)     == AncSelf(c) \ {c}
AncSelfSet(S) == UNION {AncSelf(c) : c \in S}
Concurrent(a, b) == a # b /\ a \notin Anc(b) /\ b \notin Anc(a)
IsAntichain(H) == \A a \in H, b \in H : a = b \/ Concurrent(a, b)
(* frontier of a causally closed command set *)
HeadsOf(S) == {c \in S : ~\E d \in S : c \in Anc(d)}
Closed(S)  == \A c \in S : ParSet(c) \subseteq S

SetMax(S) == CHOOSE x \in S : \A y \in S : y <= x
RECURSIVE Mc(_)
Mc(c) == IF Par(c) = <<>> THEN 0 ELSE 1 + SetMax({Mc(p) : p \in ParSet(c)})

--------------------------------------------------------------------------------
(* Ids: sequences ordered lexicographically; a prefix code, so the harness maps them to
   zero-padded 32-byte ids whose byte order is this order (engine `ids.rs`).               *)
RECURSIVE SeqLess(_, _)
SeqLess(a, b) ==
  IF a = <<>> THEN b # <<>>
  ELSE IF b = <<>> THEN FALSE
  ELSE IF a[1] # b[1] THEN a[1] < b[1]
  ELSE SeqLess(Tail(a), Tail(b))

RECURSIVE IdOf(_)
IdOf(c) == IF IsInit(c) THEN <<3>>
           ELSE IF IsMerge(c)
                THEN LET l == IdOf(Par(c)[1]) r == IdOf(Par(c)[2]) IN
                     IF SeqLess(l, r) THEN <<MergeTag>> \o l \o r ELSE <<MergeTag>> \o r \o l
                ELSE <<1, dag[c].rank>>
MergeIdOf(x, y) == IF SeqLess(x, y) THEN <<MergeTag>> \o x \o y ELSE <<MergeTag>> \o y \o x

(* Priority::{Merge < Basic(p) < Finalize < Init} *)
PrioKey(c) == CASE IsMerge(c) -> 0 [] IsFin(c) -> 1000 [] IsInit(c) -> 2000 [] OTHER -> 1 + dag[c].prio
Key(c)     == <<PrioKey(c)>> \o IdOf(c)
MinByKey(S) == CHOOSE c \in S : \A d \in S : d = c \/ SeqLess(Key(c), Key(d))
IdLess(a, b) == SeqLess(IdOf(a), IdOf(b))

--------------------------------------------------------------------------------
(* Bottleneck chain and last common ancestor (`lca_pair`, folded over the heads).          *)
NextB(c) == IF IsMerge(c) THEN dag[c].lca ELSE Par(c)[1]
RECURSIVE Chain(_)
Chain(c) == IF Par(c) = <<>> THEN {c} ELSE {c} \cup Chain(NextB(c))
MaxMc(S) == CHOOSE c \in S : \A d \in S : Mc(d) <= Mc(c)
Lca(H)   == MaxMc({c \in Nodes : \A h \in H : c \in Chain(h)})
RECURSIVE Walk(_, _)
Walk(l, r) == IF l = r THEN l
              ELSE IF Mc(l) > Mc(r) THEN Walk(NextB(l), r) ELSE Walk(l, NextB(r))
(* the code's N-way fold of the pairwise walk, heads in the given order *)
RECURSIVE FoldWalk(_, _)
FoldWalk(acc, hs) == IF hs = <<>> THEN acc ELSE FoldWalk(Walk(acc, Head(hs)), Tail(hs))

--------------------------------------------------------------------------------
(* Reference braid *)
Region(H, L) == {c \in AncSelfSet(H) : Mc(c) > Mc(L)}
Kids(R, c)   == {d \in R : c \in ParSet(d)}
Avail(R, placed) == {c \in R \ placed : Kids(R, c) \subseteq placed}

RECURSIVE Ref(_, _, _)
Ref(R, placed, out) ==
  LET A == Avail(R, placed) IN
  IF Cardinality({c \in A : IsFin(c)}) >= 2 THEN [order |-> out, err |-> TRUE]
  ELSE IF Cardinality(A) = 1 THEN [order |-> Append(out, CHOOSE c \in A : TRUE), err |-> FALSE]
  ELSE LET c == MinByKey(A) IN
       Ref(R, placed \cup {c}, IF IsMerge(c) THEN out ELSE Append(out, c))
(* push order: the LAST element is the lone strand whose stored state starts the braid,
   the others are applied in REVERSE push order *)
RefBraid(H) == Ref(Region(H, Lca(H)), {}, <<>>)

Rev(s) == [i \in 1..Len(s) |-> s[Len(s) + 1 - i]]
Front(s) == SubSeq(s, 1, Len(s) - 1)

(* application order of every non-merge command up to a point — what the `seq` fact of an
   all-accepting policy holds *)
RECURSIVE BraidOrder(_), OrderAt(_)
BraidOrder(H) == LET o == RefBraid(H).order IN OrderAt(o[Len(o)]) \o Rev(Front(o))
OrderAt(c) == IF Par(c) = <<>> THEN <<c>>
              ELSE IF IsMerge(c) THEN BraidOrder(ParSet(c))
              ELSE Append(OrderAt(Par(c)[1]), c)

--------------------------------------------------------------------------------
(* Audit fact semantics.  A fact state is [seq, k] with k = 0 (absent) or the command that
   last set it.  `Apply` returns the unchanged state when the command is rejected.          *)
EmptyFacts == [seq |-> <<>>, k |-> 0]
ApplyOp(f, c, o) ==
  IF o = "q" THEN f                       \* quiet command: accepted, writes no fact at all
  ELSE IF o = "x" /\ f.k # 0 THEN f
  ELSE [seq |-> Append(f.seq, c),
        k   |-> CASE o = "s" -> c [] o = "x" -> c [] o = "d" -> 0 [] OTHER -> f.k]
Rejects(f, c) == dag[c].op = "x" /\ f.k # 0
Apply(f, c) == ApplyOp(f, c, dag[c].op)
RECURSIVE ApplyAll(_, _)
ApplyAll(f, s) == IF s = <<>> THEN f ELSE ApplyAll(Apply(f, Head(s)), Tail(s))

RECURSIVE FactsBraid(_), FactsAt(_)
FactsBraid(H) == LET o == RefBraid(H).order IN ApplyAll(FactsAt(o[Len(o)]), Rev(Front(o)))
FactsAt(c) == IF Par(c) = <<>> THEN Apply(EmptyFacts, c)
              ELSE IF IsMerge(c) THEN FactsBraid(ParSet(c))
              ELSE Apply(FactsAt(Par(c)[1]), c)
(* facts of a committed head set *)
FactsOf(H) == IF Cardinality(H) = 1 THEN FactsAt(CHOOSE h \in H : TRUE) ELSE FactsBraid(H)
(* a basic command can only exist if its origin evaluation accepted it *)
AcceptedAtOrigin(p, o) == ~(o = "x" /\ FactsAt(p).k # 0)

--------------------------------------------------------------------------------
(* Implementation-shaped braid: heap + convergence counts *)
Count(R, H, c) == Cardinality(Kids(R, c)) + (IF c \in H THEN 1 ELSE 0)

RECURSIVE PushAll(_, _, _, _)
PushAll(R, st, ps, i) ==
  IF i > Len(ps) \/ st.err THEN st ELSE
  LET p == ps[i] IN
  IF p \notin R THEN PushAll(R, st, ps, i + 1)                         \* max_cut <= lca.max_cut
  ELSE IF st.cnt[p] > 1 THEN PushAll(R, [st EXCEPT !.cnt[p] = @ - 1], ps, i + 1)   \* convergence drop
  ELSE IF IsFin(p) /\ (\E q \in st.heap : IsFin(q)) THEN [st EXCEPT !.err = TRUE]   \* StrandHeap::push
  ELSE PushAll(R, [st EXCEPT !.heap = @ \cup {p}], ps, i + 1)

RECURSIVE Alg(_, _)
Alg(R, st) ==
  IF st.err \/ st.heap = {} THEN st ELSE
  LET c  == MinByKey(st.heap)
      s1 == [st EXCEPT !.heap = @ \ {c}, !.out = IF IsMerge(c) THEN @ ELSE Append(@, c)]
      s2 == PushAll(R, s1, Par(c), 1)
  IN IF s2.err THEN s2
     ELSE IF Cardinality(s2.heap) = 1
          THEN [s2 EXCEPT !.out = Append(@, CHOOSE x \in s2.heap : TRUE), !.heap = {}]
          ELSE Alg(R, s2)

AlgBraid(H) ==
  LET L  == Lca(H)
      R  == Region(H, L)
      st == [heap |-> H, out |-> <<>>,
             err  |-> Cardinality({h \in H : IsFin(h)}) >= 2,
             cnt  |-> [c \in Nodes |-> IF c \in R THEN Count(R, H, c) ELSE 0]]
      r  == Alg(R, st)
  IN [order |-> r.out, err |-> r.err]

--------------------------------------------------------------------------------
(* Lazy merges: the pairwise fold shared by collapse_heads and synthetic_head (C04)        *)
SortedById(H) == CHOOSE s \in [1..Cardinality(H) -> H] :
                   \A i, j \in 1..Cardinality(H) : i < j => IdLess(s[i], s[j])
RECURSIVE FoldIds(_)
FoldIds(q) == IF Len(q) = 1 THEN q[1]
              ELSE FoldIds(Append(SubSeq(q, 3, Len(q)), MergeIdOf(q[1], q[2])))
HelloId(H) == FoldIds([i \in 1..Cardinality(H) |-> IdOf(SortedById(H)[i])])

SeqSet(s) == {s[i] : i \in 1..Len(s)}
NonMerge(S) == {c \in S : ~IsMerge(c)}
=================================================================================
