------------------------------ MODULE MC_FactStore ------------------------------
(* Bounds for model checking FactStore (the base module is unbounded). *)
EXTENDS FactStore
MCKeys == {<<"a">>, <<"a", "">>}
MCKey1 == {<<"a">>}
MCVal(s, c) == {10 * s + c}
(* every location / every pair of distinct locations *)
Locs(sg) == UNION {{<<s, i>> : i \in 1..Len(sg[s].cmds)} : s \in 1..Len(sg)}
AllPairs(sg) == {<<a[1], a[2], b[1], b[2]>> : a \in Locs(sg), b \in Locs(sg)}
(* simulation: the two newest segments; merges of the newest head with a command of the one before *)
NearLocs(sg) == UNION {{<<s, i>> : i \in 1..Len(sg[s].cmds)} : s \in {t \in 1..Len(sg) : t >= Len(sg) - 1}}
NearPairs(sg) == IF Len(sg) < 2 THEN {}
                 ELSE {<<Len(sg), Len(sg[Len(sg)].cmds), Len(sg) - 1, i>> : i \in 1..Len(sg[Len(sg) - 1].cmds)}
CONSTANTS MaxSegs,     \* segments written
          MaxCmds,     \* commands per perspective / segment
          MaxCur,      \* pending updates
          MaxCps,      \* live checkpoints
          MaxTotCmds,  \* commands over all segments and the open perspective
          MaxTotUps,   \* updates over all of them
          MaxFUps,     \* entries written to a bare fact perspective
          MaxIdx,      \* fact indexes
          NoErr,       \* cut error outcomes (they leave unreachable indexes behind)
          SimDepth

RECURSIVE SumLen(_)
SumLen(ss) == IF ss = <<>> THEN 0 ELSE Len(ss[1]) + SumLen(Tail(ss))
SegCmds(sg) == SumLen([s \in 1..Len(sg) |-> sg[s].cmds])
SegUps(sg) == SumLen([s \in 1..Len(sg) |-> [c \in 1..Len(sg[s].cmds) |-> SumLen(<<sg[s].cmds[c]>>)]])
AllUps(sg) == LET RECURSIVE U(_)
                  U(s) == IF s = 0 THEN 0 ELSE SumLen(sg[s].cmds) + U(s - 1)
              IN U(Len(sg))

Bound ==
  /\ Len(segs') <= MaxSegs
  /\ Len(per'.cmds) <= MaxCmds
  /\ Len(per'.cur) <= MaxCur
  /\ Len(cps') <= MaxCps
  /\ Len(idx') <= MaxIdx
  /\ SegCmds(segs') + Len(per'.cmds) <= MaxTotCmds
  /\ AllUps(segs') + SumLen(per'.cmds) + Len(per'.cur) <= MaxTotUps
  /\ Cardinality(DOMAIN fper'.fp.m) <= MaxFUps
  /\ (fper'.open => MaxFUps > 0)
  /\ (NoErr => last'.r = "ok")
EmitBounded == Bound /\ EmitStep

(* Simulation bias (ACTION_CONSTRAINT of Sim_FactStore.cfg): keep perspectives short so that a
   random walk of a few hundred steps writes dozens of chained segments (crossing the real
   compaction depth 16), open new perspectives only near the newest segments. *)
AllKeys == LET P == {"", "a", "b"} IN {<<>>} \cup {<<a>> : a \in P} \cup {<<a, b>> : a \in P, b \in P}
SimBound ==
  /\ Len(per'.cur) <= MaxCur
  /\ Len(per'.cmds) <= MaxCmds
  /\ Len(cps') <= MaxCps
  /\ (last'.o \in {"insert", "delete"} => Len(per.cmds) < MaxCmds)
  /\ (last'.o = "open" => ~per.open /\ last'.s >= Len(segs) - 1)
  /\ (last'.o = "open_facts" => ~fper.open /\ ~per.open /\ braid.id = 0 /\ last'.s = Len(segs))
  /\ (last'.o = "open_merge" => ~per.open /\ last'.s >= Len(segs) - 1 /\ last'.v >= Len(segs) - 1)
  /\ (last'.o \in {"f_insert", "f_delete"} => Cardinality(DOMAIN fper.fp.m) < MaxFUps)
  /\ (NoErr => last'.r = "ok")
  /\ (Len(hist') = SimDepth => last'.n = "")       \* few candidates for the last (emitting) step
(* C13 configuration: start from canned contexts (the history that builds them is pre-recorded
   so the replay builds the same storage) and explore every interleaving of insert / delete /
   add_command / checkpoint / revert on the open perspective, then optionally write it and
   reopen the written segment at any of its commands (mid-segment reconstruction replays the
   per-command updates, which is where discarded writes would resurface).
     A  the init perspective (no prior: a delete removes the entry)
     B  a perspective on the head of a one-command segment (prior = fact index: tombstones)
     C  a perspective in the middle of a two-command segment (prior = nested perspective) *)
XA == <<"x", <<"a">>>>
H(o, x, v, s, i) == [o |-> o, n |-> x[1], k |-> x[2], v |-> v, s |-> s, i |-> i, j |-> 0, r |-> "ok"]
CtxHist(c) ==
  CASE c = "A" -> <<H("new_perspective", NoX, 0, 0, 0)>>
    [] c = "B" -> <<H("new_perspective", NoX, 0, 0, 0), H("insert", XA, 11, 0, 0),
                    H("add_command", NoX, 0, 0, 0), H("create", NoX, 0, 1, 1), H("open", NoX, 0, 1, 1)>>
    [] c = "C" -> <<H("new_perspective", NoX, 0, 0, 0), H("insert", XA, 11, 0, 0),
                    H("add_command", NoX, 0, 0, 0), H("delete", XA, 0, 0, 0),
                    H("add_command", NoX, 0, 0, 0), H("create", NoX, 0, 1, 2), H("open", NoX, 0, 1, 1)>>
CtxSegs(c) ==
  CASE c = "A" -> <<>>
    [] c = "B" -> <<[prior |-> NoLoc, cmds |-> << <<<<XA, 11>>>> >>, facts |-> 1, pf |-> 0, disc |-> {},
                    merge |-> FALSE, mbase |-> FlatEmpty]>>
    [] c = "C" -> <<[prior |-> NoLoc, cmds |-> << <<<<XA, 11>>>>, <<<<XA, 0>>>> >>, facts |-> 1, pf |-> 0, disc |-> {},
                    merge |-> FALSE, mbase |-> FlatEmpty]>>
CtxIdx(c) ==
  CASE c = "A" -> <<>>
    [] c = "B" -> <<[prior |-> 0, depth |-> 1, m |-> (XA :> 11)]>>
    [] c = "C" -> <<[prior |-> 0, depth |-> 1, m |-> Empty]>>
CtxInit(C) ==
  \E c \in C :
    /\ idx = CtxIdx(c) /\ segs = CtxSegs(c)
    /\ per = IF c = "A" THEN [Closed EXCEPT !.open = TRUE]
             ELSE [open |-> TRUE, parent |-> <<1, 1>>, fp |-> NewFp(PriorAtIn(CtxSegs(c), 1, 1)),
                   cmds |-> <<>>, cur |-> <<>>, disc |-> {}, merge |-> FALSE, mbase |-> FlatEmpty]
    /\ fper = FClosed /\ braid = NoBraid /\ cps = <<>>
    /\ last = Rec("init", NoX, 0, 0, 0, 0, "ok", ObsIn(CtxSegs(c), per, FClosed))
    /\ hist = CtxHist(c)
RevInit == CtxInit({"A", "B", "C"})
(* C12 mid-segment configuration: over a committed prior index (contexts B, C) build one segment
   of up to MaxCmds commands with up to MaxCur updates each (so that a fact of the prior index is
   overwritten and then deleted inside the segment, with further commands after the delete),
   write it, and reopen it at EVERY command both as a graph perspective and as a bare fact
   perspective: both are rebuilt by replaying the recorded per-command updates. *)
MidInit == CtxInit({"B", "C"})
MidBound == /\ Bound
            /\ last'.o \in {"insert", "delete", "add_command", "write", "open", "open_facts"}
            /\ (last'.o \in {"open", "open_facts"} => last.o = "write" /\ last'.s = Len(segs))
            /\ last.o \notin {"open", "open_facts"}
EmitMid == MidBound /\ (last'.o \in {"open", "open_facts", "write"} => EmitStep)   \* the rest are prefixes
RevBound ==
  /\ Bound
  /\ last'.o \notin {"new_perspective", "open_facts"}
  /\ (last'.o = "open" => Len(segs) > Len(CtxSegs("C")) - 1 /\ last'.s = Len(segs) /\ ~per.open /\ last.o = "write")
  /\ (per.open /\ per.parent[1] = MaxSegs => FALSE)      \* nothing after the reopening
EmitRev == RevBound /\ EmitStep
(* thorough tier: emit only the transitions at which C13 is observed (a revert, a written
   segment, a reopening) — the others are prefixes of those *)
EmitRevKey == RevBound /\ (last'.o \in {"revert", "open", "write", "create"} => EmitStep)
(* bare fact perspectives over the canned contexts: open at any location, a few inserts and
   deletes, write_facts *)
FactsBound == /\ Bound
              /\ last'.o \in {"open_facts", "f_insert", "f_delete", "write_facts", "open_merge",
                              "insert", "delete", "add_command", "write", "open"}
              /\ (last'.o = "open_facts" => ~fper.open /\ braid.id = 0 /\ ~per.merge /\ Len(segs) = 1)
              /\ (last.o = "write_facts" => last'.o = "open_merge")   \* the braid goes into a merge perspective
              /\ (last'.o \in {"insert", "delete", "add_command", "write"} => per.merge)
              /\ (last'.o = "open" => last.o = "write" /\ last'.s = Len(segs))
              /\ last.o # "open"                                      \* nothing after the reopening
EmitFacts == FactsBound /\ EmitStep

EmitSim == (Len(hist) = SimDepth /\ last.n = "") => PrintT("REPLAY " \o ToJson([h |-> hist]))
================================================================================
