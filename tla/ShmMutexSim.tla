------------------------------ MODULE ShmMutexSim ------------------------------
(* Simulation-mode wrapper of ShmMutex (DESIGN §2.1 S2I, simulation mode): the same actions plus
   a history variable recording, per step, the thread that moved, the label it executed and the
   projection of the state after the step — the schedule format of `vh-afc mutex`.  Used with
   `-simulate` for constants whose state graph is too large to dump (3 threads x 2 rounds with
   PASSIVE_SPIN = 5).                                                                        *)
EXTENDS ShmMutex, Sequences, Json

VARIABLE hist

Mover == CHOOSE th \in Threads : <<pc[th], wait[th], spins[th], rounds[th]>> #
                                 <<pc'[th], wait'[th], spins'[th], rounds'[th]>>

SetToSeq(S) == LET RECURSIVE F(_) F(T) == IF T = {} THEN <<>> ELSE
                     LET x == CHOOSE y \in T : \A z \in T : y <= z IN <<x>> \o F(T \ {x})
               IN F(S)

HInit == Init /\ hist = <<>>
HNext == /\ \E self \in Threads : t(self)
         /\ hist' = Append(hist, [a |-> pc[Mover], t |-> Mover, key |-> key',
                                  pc |-> [i \in 1..Cardinality(Threads) |-> pc'[i]],
                                  sl |-> SetToSeq(sleepers'), wk |-> SetToSeq(wakeTok')])
HSpec == HInit /\ [][HNext]_<<vars, hist>>

Finished == \A th \in Threads : pc[th] = "Done"
Emit == Finished => PrintT("REPLAY " \o ToJson([threads |-> Cardinality(Threads), rounds |-> Rounds, steps |-> hist]))
=============================================================================
