\* exhaustive operator nests of depth 2 (one operand of a binary operator expanded): every pair
\* (outer operator, inner operator, side) -- with minimal parentheses this is the precedence table
SPECIFICATION Spec
CONSTANTS
  MaxDepth = 2
  StmtDepth = 0
  Effects = FALSE
  Focus = "ops"
  Quirks = FALSE
  EnvCap = 8
  RetTypes <- MC_RetOps
INVARIANTS Emit
CHECK_DEADLOCK FALSE
