SPECIFICATION Spec
CONSTANTS
  Schemes = {"groupkey", "sealedgk", "pskseed", "topicmsg", "sealedtopic"}
  MaxTamper = 2
  HashModel = "tuple"
  PLens = {0, 1, 16, 17, 48, 4097}
  DataLens = {0}
INVARIANTS AcceptIffUnchanged IdAgreement NoBothEnds OnlyRightful Emit
CHECK_DEADLOCK FALSE
