\* C30 thorough: every flat command policy with <= 4 statements, full menus (37 831 programs)
SPECIFICATION Spec
CONSTANTS
  MaxStmts = 4
  MaxDepth = 0
  OpsMenu <- MCOpsMenu
  RecallMenu <- MCRecallMenu
  MatchArms <- MCMatchArms
  ExtraSimple <- MCExtraSimple
  WithElif = TRUE
  StrayBase <- MCStrayBase
  StrayOps <- MCStrayOps
  XKinds <- MCXKinds
  Enumerate = TRUE
INVARIANTS WellFormed NoSideEffectsOnFailure RecalledMarked ExitShape CompiledAgrees Emit
CHECK_DEADLOCK FALSE
