\* C30 thorough: every command policy with <= 4 statements, nesting 2, full menus
SPECIFICATION Spec
CONSTANTS
  MaxStmts = 4
  MaxDepth = 2
  OpsMenu <- MCOpsMenu
  RecallMenu <- MCRecallMenu
  MatchArms <- MCMatchArms
INVARIANTS NoSideEffectsOnFailure RecalledMarked ExitShape CompiledAgrees Emit
CHECK_DEADLOCK FALSE
