SPECIFICATION Spec
CONSTANTS
  NIds = 3
  MaxOps = 9
  GoneTail = 8
  SymBreak = FALSE
  SeekOnGet = TRUE
  ReadThenUnlink = TRUE
  UnlinkOnDrop = TRUE
  CreateErrIsExist = TRUE
INVARIANTS TypeOK Refines DirIsMap NothingLeftBehind OccupiedIffInserted ReadsReturnStored GoneIsError
VIEW ViewNoHist
CHECK_DEADLOCK FALSE
