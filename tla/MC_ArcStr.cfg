\* C33 quick: 3 threads, each starting with one handle, <= 1 clone and <= 1 read each (also the schedule graph).
SPECIFICATION Spec
CONSTANTS
  Threads = {1, 2, 3}
  Owners = {1, 2, 3}
  MaxClones = 1
  MaxReads = 1
  FreeOn = 1
INVARIANTS NoUseAfterFree FreedOnce CountNonNeg CountIsHandles NoEarlyFree NoLeak
