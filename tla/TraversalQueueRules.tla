-------------------------- MODULE TraversalQueueRules --------------------------
(* Constant-level definitions of the TraversalQueue specification (see TraversalQueue.tla):
   the CONCRETE layer — a transcription of the swap-based vector operations of
   `aranya_runtime::storage::TraversalQueue` — and the ABSTRACT layer — the documented rules
   over bags of (segment, max_cut, covered).  No variables: shared by the state machine
   (TraversalQueue.tla) and the trace specification (Trace_TraversalQueue.tla).            *)
EXTENDS Integers, Sequences, FiniteSets

----------------------------------------------------------------------------------
(* Codes: integers whose order is the order of `Location` (max_cut, then segment), then flag *)
Mk(s, m, c) == m * 100 + s * 10 + (IF c THEN 1 ELSE 0)
Code(e)     == Mk(e.seg, e.mc, e.cov)
LocOf(e)    == Mk(e.seg, e.mc, FALSE)
CMc(x)      == x \div 100
CSeg(x)     == (x % 100) \div 10
CCov(x)     == x % 10 = 1
CLoc(x)     == x - (x % 10)

Range(s) == {s[i] : i \in DOMAIN s}

RECURSIVE Ins(_, _)
Ins(b, x) == IF b = <<>> THEN <<x>>
             ELSE IF x <= Head(b) THEN <<x>> \o b
             ELSE <<Head(b)>> \o Ins(Tail(b), x)
RECURSIVE Del(_, _)
Del(b, x) == IF b = <<>> THEN <<>>
             ELSE IF Head(b) = x THEN Tail(b)
             ELSE <<Head(b)>> \o Del(Tail(b), x)
RECURSIVE SortCodes(_)
SortCodes(s) == IF s = <<>> THEN <<>> ELSE Ins(SortCodes(Tail(s)), Head(s))

(* abstraction function: the covered flag the code can report is the POSITION *)
Abs(qq, pp) == SortCodes([i \in 1..Len(qq) |-> Mk(qq[i].seg, qq[i].mc, i > pp)])

MaxOf(S) == CHOOSE x \in S : \A y \in S : y <= x

----------------------------------------------------------------------------------
(* Return values — one record shape for every operation (TLC compares only like with like) *)
Ret(k, l, n, d) == [k |-> k, l |-> l, n |-> n, d |-> d]
ROk       == Ret("ok", 0, 0, <<>>)
RNone     == Ret("none", 0, 0, <<>>)
RBug      == Ret("bug", 0, 0, <<>>)
RLoc(l, n)   == Ret("loc", l, n, <<>>)      \* n: covered flag (pop_covered) or count (pop_duplicates)
RDrained(d)  == Ret("drained", 0, 0, SortCodes(d))   \* order of the callbacks is not specified
Op(o, a, b, c) == [o |-> o, a |-> a, b |-> b, c |-> c]
Res(qq, pp, r) == [q |-> qq, part |-> pp, ret |-> r]

----------------------------------------------------------------------------------
(* CONCRETE LAYER — transcription of the code *)
Swap(s, i, j) == [s EXCEPT ![i] = s[j], ![j] = s[i]]
SwapRemove(s, i) == LET n == Len(s) IN SubSeq([s EXCEPT ![i] = s[n]], 1, n - 1)

(* Iterator::position — first match; 0 = none *)
FirstSeg(s, seg) ==
  IF \E i \in 1..Len(s) : s[i].seg = seg
  THEN CHOOSE i \in 1..Len(s) : s[i].seg = seg /\ \A j \in 1..(i-1) : s[j].seg # seg
  ELSE 0
(* Iterator::max_by_key — the LAST maximal element *)
MaxIdx(s) ==
  CHOOSE i \in 1..Len(s) : /\ \A j \in 1..Len(s) : LocOf(s[j]) <= LocOf(s[i])
                           /\ \A j \in (i+1)..Len(s) : LocOf(s[j]) < LocOf(s[i])

(* push_covered(loc, covered); push(loc) = push_covered(loc, false) *)
CPush(qq, pp, s, m, c) ==
  LET i == FirstSeg(qq, s) IN
  IF i # 0 THEN
    LET was == i > pp IN
    IF m < qq[i].mc THEN Res(qq, pp, ROk)
    ELSE LET newc == IF m > qq[i].mc THEN c ELSE (was \/ c)
             q1   == [qq EXCEPT ![i] = [seg |-> s, mc |-> m, cov |-> newc]]
         IN IF ~was /\ newc THEN
              (IF pp = 0 THEN Res(qq, pp, RBug)        \* checked_sub(1).assume(..)
               ELSE Res(Swap(q1, i, pp), pp - 1, ROk))
            ELSE IF was /\ ~newc THEN Res(Swap(q1, i, pp + 1), pp + 1, ROk)
            ELSE Res(q1, pp, ROk)
  ELSE LET q1 == Append(qq, [seg |-> s, mc |-> m, cov |-> c]) IN
       IF c THEN Res(q1, pp, ROk)
       ELSE Res(Swap(q1, pp + 1, Len(q1)), pp + 1, ROk)

(* push_duplicate(loc) *)
CPushDup(qq, pp, s, m) ==
  LET q1 == Append(qq, [seg |-> s, mc |-> m, cov |-> FALSE]) IN
  Res(Swap(q1, pp + 1, Len(q1)), pp + 1, ROk)

(* remove_uncovered(i): partition -= 1; swap(i, partition); swap_remove(partition) *)
RemoveUncovered(qq, pp, i) == [q |-> SwapRemove(Swap(qq, i, pp), pp), part |-> pp - 1]

(* pop_covered() / pop() (withFlag = FALSE: the flag is discarded) *)
CPop(qq, pp, withFlag) ==
  IF qq = <<>> THEN Res(qq, pp, RNone)
  ELSE LET i == MaxIdx(qq) l == LocOf(qq[i]) IN
       IF i <= pp THEN
         (IF pp = 0 THEN Res(qq, pp, RBug)
          ELSE LET r == RemoveUncovered(qq, pp, i) IN Res(r.q, r.part, RLoc(l, 0)))
       ELSE Res(SwapRemove(qq, i), pp, RLoc(l, IF withFlag THEN 1 ELSE 0))

(* peek() *)
CPeek(qq) == IF qq = <<>> THEN 0 ELSE LocOf(qq[MaxIdx(qq)])

(* pop_duplicates(): backward scan removing every entry equal to the maximum location *)
RECURSIVE PopDupScan(_, _, _, _, _)
PopDupScan(qq, pp, j, l, cnt) ==
  IF j = 0 THEN [q |-> qq, part |-> pp, n |-> cnt]
  ELSE IF LocOf(qq[j]) = l THEN
         (IF j <= pp
          THEN LET r == RemoveUncovered(qq, pp, j) IN PopDupScan(r.q, r.part, j - 1, l, cnt + 1)
          ELSE PopDupScan(SwapRemove(qq, j), pp, j - 1, l, cnt + 1))
  ELSE PopDupScan(qq, pp, j - 1, l, cnt)
CPopDup(qq, pp) ==
  IF qq = <<>> THEN Res(qq, pp, RNone)
  ELSE LET l == LocOf(qq[MaxIdx(qq)])
           r == PopDupScan(qq, pp, Len(qq), l, 0)
       IN Res(r.q, r.part, RLoc(l, r.n))

(* drain_above(threshold, f): first the uncovered region (f called), then the covered one *)
RECURSIVE DrainUnc(_, _, _, _, _)
DrainUnc(qq, pp, i, th, out) ==
  IF i > pp THEN [q |-> qq, part |-> pp, out |-> out]
  ELSE IF qq[i].mc > th
       THEN LET r == RemoveUncovered(qq, pp, i) IN DrainUnc(r.q, r.part, i, th, Append(out, LocOf(qq[i])))
       ELSE DrainUnc(qq, pp, i + 1, th, out)
RECURSIVE DrainCov(_, _, _)
DrainCov(qq, i, th) ==
  IF i > Len(qq) THEN qq
  ELSE IF qq[i].mc > th THEN DrainCov(SwapRemove(qq, i), i, th)
       ELSE DrainCov(qq, i + 1, th)
CDrainAbove(qq, pp, th) ==
  LET u == DrainUnc(qq, pp, 1, th, <<>>) IN
  Res(DrainCov(u.q, u.part + 1, th), u.part, RDrained(u.out))

(* cover_up_to(segment, coverage_mc, longest_mc) *)
CCover(qq, pp, s, cm, lm) ==
  LET i == FirstSeg(qq, s) IN
  IF i = 0 \/ i > pp THEN Res(qq, pp, ROk)
  ELSE IF cm >= lm THEN
         (IF pp = 0 THEN Res(qq, pp, RBug)
          ELSE Res(Swap([qq EXCEPT ![i].cov = TRUE], i, pp), pp - 1, ROk))
       ELSE IF cm >= qq[i].mc THEN Res([qq EXCEPT ![i].mc = cm + 1], pp, ROk)
       ELSE Res(qq, pp, ROk)

(* drain_all(f) *)
CDrainAll(qq, pp) == Res(<<>>, 0, RDrained([i \in 1..pp |-> LocOf(qq[i])]))

(* clear() *)
CClear == Res(<<>>, 0, ROk)

Concrete(qq, pp, op) ==
  CASE op.o = "push"      -> CPush(qq, pp, op.a, op.b, op.c = 1)
    [] op.o = "push_dup"  -> CPushDup(qq, pp, op.a, op.b)
    [] op.o = "pop"       -> CPop(qq, pp, FALSE)
    [] op.o = "pop_cov"   -> CPop(qq, pp, TRUE)
    [] op.o = "pop_dups"  -> CPopDup(qq, pp)
    [] op.o = "drain_above" -> CDrainAbove(qq, pp, op.a)
    [] op.o = "cover"     -> CCover(qq, pp, op.a, op.b, op.c)
    [] op.o = "drain_all" -> CDrainAll(qq, pp)
    [] op.o = "clear"     -> CClear

----------------------------------------------------------------------------------
(* ABSTRACT LAYER — the documented rules over bags (ascending code sequences) *)
Out(r, b) == [ret |-> r, b |-> b]
OfSeg(b, s) == {x \in Range(b) : CSeg(x) = s}

(* push_covered: "If an entry with the same segment already exists, max cut is updated to the
   max.  When a higher max_cut changes the head, the new push's covered status is adopted.  At
   the same max_cut, covered flags are OR'd.  Lower max_cut is ignored." *)
APush(b, s, m, c) ==
  IF OfSeg(b, s) = {} THEN {Out(ROk, Ins(b, Mk(s, m, c)))}
  ELSE {Out(ROk, IF m > CMc(x) THEN Ins(Del(b, x), Mk(s, m, c))
                 ELSE IF m = CMc(x) THEN Ins(Del(b, x), Mk(s, m, CCov(x) \/ c))
                 ELSE b) : x \in OfSeg(b, s)}

(* push_duplicate: "each call adds a new entry … All duplicate entries are uncovered." *)
APushDup(b, s, m) == {Out(ROk, Ins(b, Mk(s, m, FALSE)))}

MaxLoc(b) == MaxOf({CLoc(x) : x \in Range(b)})
(* pop / pop_covered: "Pop the location with the highest max cut, including its covered flag." *)
APop(b, withFlag) ==
  IF b = <<>> THEN {Out(RNone, b)}
  ELSE {Out(RLoc(MaxLoc(b), IF withFlag /\ CCov(x) THEN 1 ELSE 0), Del(b, x))
          : x \in {y \in Range(b) : CLoc(y) = MaxLoc(b)}}

(* pop_duplicates: "removing all entries at that exact location. Returns (location, count)." *)
APopDup(b) ==
  IF b = <<>> THEN {Out(RNone, b)}
  ELSE LET l == MaxLoc(b) IN
       {Out(RLoc(l, Len(SelectSeq(b, LAMBDA x : CLoc(x) = l))), SelectSeq(b, LAMBDA x : CLoc(x) # l))}

(* drain_above: "Remove all entries with max_cut > threshold.  Uncovered entries are passed to
   f.  Covered entries are discarded." *)
ADrainAbove(b, th) ==
  {Out(Ret("drained", 0, 0, SelectSeq(b, LAMBDA x : CMc(x) > th /\ ~CCov(x))),
       SelectSeq(b, LAMBDA x : CMc(x) <= th))}

(* cover_up_to: fully covered / advanced to coverage_mc+1 / untouched; a covered entry is left alone *)
ACover(b, s, cm, lm) ==
  IF OfSeg(b, s) = {} THEN {Out(ROk, b)}
  ELSE {Out(ROk, IF CCov(x) THEN b
                 ELSE IF cm >= lm THEN Ins(Del(b, x), Mk(s, CMc(x), TRUE))
                 ELSE IF cm >= CMc(x) THEN Ins(Del(b, x), Mk(s, cm + 1, FALSE))
                 ELSE b) : x \in OfSeg(b, s)}

ADrainAll(b) == {Out(Ret("drained", 0, 0, SelectSeq(b, LAMBDA x : ~CCov(x))), <<>>)}

AbsOutcomes(b, op) ==
  CASE op.o = "push"      -> APush(b, op.a, op.b, op.c = 1)
    [] op.o = "push_dup"  -> APushDup(b, op.a, op.b)
    [] op.o = "pop"       -> APop(b, FALSE)
    [] op.o = "pop_cov"   -> APop(b, TRUE)
    [] op.o = "pop_dups"  -> APopDup(b)
    [] op.o = "drain_above" -> ADrainAbove(b, op.a)
    [] op.o = "cover"     -> ACover(b, op.a, op.b, op.c)
    [] op.o = "drain_all" -> ADrainAll(b)
    [] op.o = "clear"     -> {Out(ROk, <<>>)}

(* In the emitted drained list the flag digit is 0, i.e. a location code. *)

=================================================================================
