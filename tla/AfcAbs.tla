--------------------------------- MODULE AfcAbs ---------------------------------
(* C40 / C41 / C42 at the level of calls and returns — the property-level machine of the AFC
   channel state (`AranyaState`: add / remove / remove_if / remove_all, `AfcState`:
   setup_seal_ctx / setup_open_ctx / seal / open), independent of how the state is implemented
   (shared memory or `memory::State`).

   A history is a sequence of *invocation* and *return* events in real-time order.  The single
   writer's calls are sequential; every reader has at most one call in progress.  The machine
   accepts a history iff every event satisfies the guards below, i.e. iff

     C42  `add` returns strictly increasing ids, never a used one; it returns OutOfSpace iff the
          table is full (Cap = 0: unbounded, the in-memory state);
     C41  a seal / open / setup that was *invoked after* a removal of its channel had *returned*
          does not find the channel (`ok` / `fail` = the channel was found and its key used);
          NotFound is only returned for a channel some removal was invoked for;
     C40  the successful seals of one context return 0, 1, 2, ...; a second live seal context
          for the same channel is never handed out when `SingleCtx` (memory state).

   This module is used (a) as the specification the trace validator `Trace_AfcAbs` runs the real
   call/return histories against, and (b) by itself, model-checked with a free environment, to
   show that the guards are satisfiable and the bookkeeping invariants hold.                 *)
EXTENDS Naturals, Sequences, FiniteSets, TLC

CONSTANTS Readers,     \* reader thread ids
          Cap,         \* table capacity; 0 = unbounded
          SingleCtx,   \* TRUE: at most one live seal context per channel (memory::State)
          MaxId,       \* bound for model checking the machine by itself
          Check        \* subset of {"C40", "C41", "C42"}: the properties whose guards are enforced

VARIABLES table,           \* channels after the last returned writer call
          lastId,          \* highest id returned by add (NoId if none)
          ever,            \* ids returned by add
          removalStarted,  \* ids targeted by an invoked removal
          removedDone,     \* ids targeted by a returned removal
          wcall,           \* the writer's call in progress: <<"none">> / <<"add">> / <<"rm", targets>>
          rcall,           \* per reader: <<"none">> or <<what, id, after, sawLive>>
          ctx,             \* per reader: <<"none">> / <<"seal", id, nextseq>> / <<"open", id>>
          live,            \* (SingleCtx) channels with a live seal context
          chanSeq          \* (SingleCtx) next sequence number of a channel's key: id -> Nat

vars == <<table, lastId, ever, removalStarted, removedDone, wcall, rcall, ctx, live, chanSeq>>

(* the harness adds seal channels under even and open channels under odd ids (shared memory);
   the in-memory harness adds seal channels only *)
IsSeal(id) == SingleCtx \/ id % 2 = 0

NoId == 999

Init == /\ table = {} /\ lastId = NoId /\ ever = {} /\ removalStarted = {} /\ removedDone = {}
        /\ wcall = <<"none">>
        /\ rcall = [r \in Readers |-> <<"none">>]
        /\ ctx = [r \in Readers |-> <<"none">>]
        /\ live = {} /\ chanSeq = <<>>

Full == Cap # 0 /\ Cardinality(table) >= Cap

(* ---- writer ---- *)
InvAdd == /\ wcall = <<"none">>
          /\ wcall' = <<"add">>
          /\ UNCHANGED <<table, lastId, ever, removalStarted, removedDone, rcall, ctx, live, chanSeq>>

RetAddOk(id) == /\ wcall = <<"add">>
                /\ ("C41" \in Check) => id \notin removedDone   \* C41: removed channels never reappear
                /\ ("C42" \in Check) =>
                      /\ ~Full                             \* C42: not on a full table
                      /\ (lastId = NoId \/ id > lastId)    \* C42: strictly increasing
                      /\ id \notin ever
                /\ table' = table \cup {id} /\ ever' = ever \cup {id} /\ lastId' = id
                /\ wcall' = <<"none">>
                /\ chanSeq' = [i \in DOMAIN chanSeq \cup {id} |-> IF i \in DOMAIN chanSeq THEN chanSeq[i] ELSE 0]
                /\ UNCHANGED <<removalStarted, removedDone, rcall, ctx, live>>

RetAddOos == /\ wcall = <<"add">>
             /\ ("C42" \in Check) => Full                 \* C42: only when full
             /\ wcall' = <<"none">>
             /\ UNCHANGED <<table, lastId, ever, removalStarted, removedDone, rcall, ctx, live, chanSeq>>

(* remove(id) targets {id}; remove_if(p) targets the ids p selects; remove_all targets table *)
InvRemove(T) == /\ wcall = <<"none">>
                /\ wcall' = <<"rm", T>>
                /\ removalStarted' = removalStarted \cup T
                /\ UNCHANGED <<table, lastId, ever, removedDone, rcall, ctx, live, chanSeq>>

RetRemove == /\ wcall[1] = "rm"
             /\ table' = table \ wcall[2]
             /\ removedDone' = removedDone \cup wcall[2]
             /\ UNCHANGED live
             /\ wcall' = <<"none">>
             /\ UNCHANGED <<lastId, ever, removalStarted, rcall, ctx, chanSeq>>

(* ---- readers ---- *)
InvReader(r, what, id) ==
   /\ rcall[r] = <<"none">>
   /\ what \in {"setup", "seal", "open"}
   /\ (what = "seal") => (ctx[r][1] = "seal" /\ ctx[r][2] = id)
   /\ (what = "open") => (ctx[r][1] = "open" /\ ctx[r][2] = id)
   /\ rcall' = [rcall EXCEPT ![r] = <<what, id, id \in removedDone, id \in live>>]
   /\ UNCHANGED <<table, lastId, ever, removalStarted, removedDone, wcall, ctx, live, chanSeq>>

(* the channel was found (its key was used); `seq` only matters for a successful seal *)
RetFound(r, res, seq) ==
   /\ rcall[r][1] \in {"setup", "seal", "open"}
   /\ res \in {"ok", "fail"}
   /\ ("C41" \in Check) => ~rcall[r][3]                   \* C41: not after the removal returned
   /\ LET what == rcall[r][1]  id == rcall[r][2] IN
      /\ ("C40" \in Check /\ what = "setup" /\ SingleCtx) => id \notin live                \* C40 (memory)
      /\ ("C40" \in Check /\ what = "seal" /\ res = "ok") => seq = ctx[r][3]                 \* C40
      /\ ctx' = [ctx EXCEPT ![r] =
                    IF what = "setup"
                    THEN (IF IsSeal(id)
                          \* a context on the in-memory state continues the channel's numbering
                          THEN <<"seal", id, IF SingleCtx /\ id \in DOMAIN chanSeq THEN chanSeq[id] ELSE 0>>
                          ELSE <<"open", id>>)
                    ELSE IF what = "seal" /\ res = "ok" THEN <<"seal", id, seq + 1>>
                    ELSE @]
      /\ live' = IF what = "setup" /\ IsSeal(id) THEN live \cup {id} ELSE live
      /\ chanSeq' = IF what = "seal" /\ res = "ok" /\ id \in DOMAIN chanSeq
                    THEN [chanSeq EXCEPT ![id] = seq + 1] ELSE chanSeq
   /\ rcall' = [q \in Readers |->
                 IF q = r THEN <<"none">>
                 ELSE IF rcall[q][1] # "none" /\ rcall[r][1] = "setup" /\ rcall[q][2] = rcall[r][2]
                      THEN <<rcall[q][1], rcall[q][2], rcall[q][3], TRUE>> ELSE rcall[q]]
   /\ UNCHANGED <<table, lastId, ever, removalStarted, removedDone, wcall>>

RetNotFound(r) ==
   /\ rcall[r][1] \in {"setup", "seal", "open"}
   /\ LET what == rcall[r][1]  id == rcall[r][2] IN
      \* C41: only for a channel a removal was invoked for — or (memory) a refused second context
      /\ \/ "C41" \notin Check
         \/ id \in removalStarted
         \/ (SingleCtx /\ what = "setup" /\ (id \in live \/ rcall[r][4]))   \* refused: a loan was live
      \* shared memory: a seal context expires on NotFound; in memory it stays (still a live loan)
      /\ ctx' = [ctx EXCEPT ![r] = IF what = "open" \/ SingleCtx THEN @ ELSE <<"none">>]
      /\ UNCHANGED live
   /\ rcall' = [rcall EXCEPT ![r] = <<"none">>]
   /\ UNCHANGED <<table, lastId, ever, removalStarted, removedDone, wcall, chanSeq>>

(* a reader drops its context (in-memory state: the loan goes back) *)
DropCtx(r) ==
   /\ rcall[r] = <<"none">> /\ ctx[r][1] # "none"
   /\ live' = live \ {ctx[r][2]}
   /\ ctx' = [ctx EXCEPT ![r] = <<"none">>]
   /\ UNCHANGED <<table, lastId, ever, removalStarted, removedDone, wcall, rcall, chanSeq>>

Ids == 0..MaxId
Next == \/ InvAdd \/ RetAddOos \/ RetRemove
        \/ \E id \in Ids : RetAddOk(id)
        \/ \E T \in SUBSET Ids : InvRemove(T)
        \/ \E r \in Readers, id \in ever : \E what \in {"setup", "seal", "open"} : InvReader(r, what, id)
        \/ \E r \in Readers : RetNotFound(r)
        \/ \E r \in Readers : DropCtx(r)
        \/ \E r \in Readers, res \in {"ok", "fail"}, seq \in 0..3 : RetFound(r, res, seq)

Spec == Init /\ [][Next]_vars

(* bookkeeping invariants of the machine itself *)
TypeOK == table \subseteq ever /\ removedDone \subseteq removalStarted
NoReuse == lastId # NoId => \A i \in ever : i <= lastId
WithinCap == Cap # 0 => Cardinality(table) <= Cap
=============================================================================
