--------------------------------- MODULE AfcAbs ---------------------------------
(* C40 / C41 / C42 at the level of calls and returns — the property-level machine of the AFC
   channel state (`AranyaState`: add / remove / remove_if / remove_all, `AfcState`:
   setup_seal_ctx / setup_open_ctx / seal / open), independent of how the state is implemented
   (shared memory or `memory::State`).

   A history is a sequence of *invocation* and *return* events in real-time order.  The single
   writer's calls are sequential; every reader has at most one call in progress.  The machine
   accepts a history iff every event satisfies the guards below, i.e. iff

     C42  `add` returns strictly increasing ids, never a used one; it returns OutOfSpace iff the
          table is full (Cap = 0: unbounded, the in-memory state);
     C41  a seal / open / setup that was *invoked after* a removal of its channel had *returned*
          does not find the channel (`ok` / `fail` = the channel was found and its key used);
          NotFound is only returned for a channel some removal was invoked for;
     C40  the successful seals of one context return 0, 1, 2, ...; a second live seal context
          for the same channel is never handed out when `SingleCtx` (memory state).

   This module is used (a) as the specification the trace validator `Trace_AfcAbs` runs the real
   call/return histories against, and (b) by itself, model-checked with a free environment, to
   show that the guards are satisfiable and the bookkeeping invariants hold.                 *)
EXTENDS Naturals, Sequences, FiniteSets, TLC

CONSTANTS Readers,     \* reader thread ids
          Cap,         \* table capacity; 0 = unbounded
          SingleCtx,   \* TRUE: at most one live seal context per channel (memory::State)
          MaxId,       \* bound for model checking the machine by itself
          Check        \* subset of {"C40", "C41", "C42"}: the properties whose guards are enforced

VARIABLES table,           \* channels after the last returned writer call
          lastId,          \* highest id returned by add (NoId if none)
          ever,            \* ids returned by add
          removalStarted,  \* ids targeted by an invoked removal
          removedDone,     \* ids targeted by a returned removal
          wcall,           \* the writer's call in progress: <<"none">> / <<"add">> / <<"rm", targets>>
          rcall,           \* per reader: <<"none">> or <<what, id, after>>
          ctx,             \* per reader: <<"none">> / <<"seal", id, nextseq>> / <<"open", id>>
          live             \* (SingleCtx) channels with a live seal context

vars == <<table, lastId, ever, removalStarted, removedDone, wcall, rcall, ctx, live>>

NoId == 999

Init == /\ table = {} /\ lastId = NoId /\ ever = {} /\ removalStarted = {} /\ removedDone = {}
        /\ wcall = <<"none">>
        /\ rcall = [r \in Readers |-> <<"none">>]
        /\ ctx = [r \in Readers |-> <<"none">>]
        /\ live = {}

Full == Cap # 0 /\ Cardinality(table) >= Cap

(* ---- writer ---- *)
InvAdd == /\ wcall = <<"none">>
          /\ wcall' = <<"add">>
          /\ UNCHANGED <<table, lastId, ever, removalStarted, removedDone, rcall, ctx, live>>

RetAddOk(id) == /\ wcall = <<"add">>
                /\ ("C42" \in Check) =>
                      /\ ~Full                             \* C42: not on a full table
                      /\ (lastId = NoId \/ id > lastId)    \* C42: strictly increasing
                      /\ id \notin ever
                /\ table' = table \cup {id} /\ ever' = ever \cup {id} /\ lastId' = id
                /\ wcall' = <<"none">>
                /\ UNCHANGED <<removalStarted, removedDone, rcall, ctx, live>>

RetAddOos == /\ wcall = <<"add">>
             /\ ("C42" \in Check) => Full                 \* C42: only when full
             /\ wcall' = <<"none">>
             /\ UNCHANGED <<table, lastId, ever, removalStarted, removedDone, rcall, ctx, live>>

(* remove(id) targets {id}; remove_if(p) targets the ids p selects; remove_all targets table *)
InvRemove(T) == /\ wcall = <<"none">>
                /\ wcall' = <<"rm", T>>
                /\ removalStarted' = removalStarted \cup T
                /\ UNCHANGED <<table, lastId, ever, removedDone, rcall, ctx, live>>

RetRemove == /\ wcall[1] = "rm"
             /\ table' = table \ wcall[2]
             /\ removedDone' = removedDone \cup wcall[2]
             /\ live' = live \ wcall[2]
             /\ wcall' = <<"none">>
             /\ UNCHANGED <<lastId, ever, removalStarted, rcall, ctx>>

(* ---- readers ---- *)
InvReader(r, what, id) ==
   /\ rcall[r] = <<"none">>
   /\ what \in {"setup", "seal", "open"}
   /\ (what = "seal") => (ctx[r][1] = "seal" /\ ctx[r][2] = id)
   /\ (what = "open") => (ctx[r][1] = "open" /\ ctx[r][2] = id)
   /\ rcall' = [rcall EXCEPT ![r] = <<what, id, id \in removedDone>>]
   /\ UNCHANGED <<table, lastId, ever, removalStarted, removedDone, wcall, ctx, live>>

(* the channel was found (its key was used); `seq` only matters for a successful seal *)
RetFound(r, res, seq) ==
   /\ rcall[r][1] \in {"setup", "seal", "open"}
   /\ res \in {"ok", "fail"}
   /\ ("C41" \in Check) => ~rcall[r][3]                   \* C41: not after the removal returned
   /\ LET what == rcall[r][1]  id == rcall[r][2] IN
      /\ ("C40" \in Check /\ what = "setup" /\ SingleCtx /\ id % 2 = 0) => id \notin live   \* C40 (memory)
      /\ ("C40" \in Check /\ what = "seal" /\ res = "ok") => seq = ctx[r][3]                 \* C40
      /\ ctx' = [ctx EXCEPT ![r] =
                    IF what = "setup" THEN (IF id % 2 = 0 THEN <<"seal", id, 0>> ELSE <<"open", id>>)
                    ELSE IF what = "seal" /\ res = "ok" THEN <<"seal", id, seq + 1>>
                    ELSE @]
      /\ live' = IF what = "setup" /\ id % 2 = 0
                 THEN (live \ (IF ctx[r][1] = "seal" THEN {ctx[r][2]} ELSE {})) \cup {id}
                 ELSE live
   /\ rcall' = [rcall EXCEPT ![r] = <<"none">>]
   /\ UNCHANGED <<table, lastId, ever, removalStarted, removedDone, wcall>>

RetNotFound(r) ==
   /\ rcall[r][1] \in {"setup", "seal", "open"}
   /\ LET what == rcall[r][1]  id == rcall[r][2] IN
      \* C41: only for a channel a removal was invoked for — or (memory) a refused second context
      /\ \/ "C41" \notin Check
         \/ id \in removalStarted
         \/ (SingleCtx /\ what = "setup" /\ id \in live)
      /\ ctx' = [ctx EXCEPT ![r] = IF what = "open" THEN @ ELSE <<"none">>]
      /\ live' = IF ctx[r][1] = "seal" /\ what # "open" THEN live \ {ctx[r][2]} ELSE live
   /\ rcall' = [rcall EXCEPT ![r] = <<"none">>]
   /\ UNCHANGED <<table, lastId, ever, removalStarted, removedDone, wcall>>

Ids == 0..MaxId
Next == \/ InvAdd \/ RetAddOos \/ RetRemove
        \/ \E id \in Ids : RetAddOk(id)
        \/ \E T \in SUBSET Ids : InvRemove(T)
        \/ \E r \in Readers, id \in ever : \E what \in {"setup", "seal", "open"} : InvReader(r, what, id)
        \/ \E r \in Readers : RetNotFound(r)
        \/ \E r \in Readers, res \in {"ok", "fail"}, seq \in 0..3 : RetFound(r, res, seq)

Spec == Init /\ [][Next]_vars

(* bookkeeping invariants of the machine itself *)
TypeOK == table \subseteq ever /\ removedDone \subseteq removalStarted
NoReuse == lastId # NoId => \A i \in ever : i <= lastId
WithinCap == Cap # 0 => Cardinality(table) <= Cap
=============================================================================
