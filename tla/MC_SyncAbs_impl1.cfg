\* as MC_SyncAbs_impl but one response per session (fresh responder per request)
\* every step is a property-level step; Progress outside the two exempted classes; convergence
SPECIFICATION Spec
CONSTANTS
  MaxNodes = 5
  SampleMax = 2
  RespMax = 1
  SegMax = 2
  CacheMax = 2
  Impl = TRUE
  OneShot = TRUE
  MaxSessions = 8
  AssumeProgress = FALSE
  Exempt = TRUE
INVARIANTS TypeOK AClosed GotSound NoRepeat SampleOK CacheOK IndexOK Terminates Progress ImplConverged
PROPERTIES StepSound Monotone
CHECK_DEADLOCK FALSE
