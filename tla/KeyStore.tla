------------------------------- MODULE KeyStore -------------------------------
(* C45 — `aranya_crypto::keystore::{KeyStore, Entry, Vacant, Occupied}` with the two stores
   `memstore::MemStore` and `fs_keystore::Store`.

   Three layers, one action per public call:

   * property level: `map` (id -> value, 0 = not occupied) and the ghosts `ins` (ids inserted
     through a vacant entry and not removed since) and `lastins` (the value of the last insert).
     `MemStore` is a `BTreeMap` and *is* this layer.
   * implementation level of the fs store: `file` (id -> -1 no directory entry / 0 empty file /
     v > 0 a file holding the CBOR of value v), the open handle `h` (an `Entry` borrows the store
     mutably, so there is at most one) with its kind, id and *file offset* (0 = start, 1 = end
     of file: `ciborium::from_reader(&fd)` consumes the whole file), and `gone` (the root
     directory was deleted under the open store — the situation `check_canary` exists for).
   * `last` holds the result of the last call as the property level defines it (`a`) and as
     the fs design produces it (`f`); `Refines` says they coincide.

   Design switches (TRUE = the design the property wants; FALSE = the named deviation, used by
   the MC_KeyStore_*bug.cfg configurations to show the invariants are not vacuous):
     SeekOnGet     `OccupiedEntry::get` reads from offset 0 (FALSE: from the current offset —
                   DESIGN §7.5, the state of the tree before the fix)
     ReadThenUnlink `OccupiedEntry::remove` reads the value before it unlinks
     UnlinkOnDrop  `VacantEntry::drop` unlinks the empty file it created (§11 mutant)
     CreateErrIsExist  `Store::entry` retries on EEXIST from the exclusive create and reports
                   ENOENT (FALSE: it retries on ENOENT — DESIGN §7.10 — and therefore never
                   returns once the root directory is gone; modelled as outcome "hang")
     DirtyAfterWrite  `VacantEntry::insert` marks the entry dirty only after the key was encoded,
                   written and synced (FALSE: before the write — a failing insert then leaves
                   the empty/partial file behind: a ghost entry that looks occupied)

   History mode (DESIGN §2.1): `hist` is part of the state, every maximal behaviour is emitted
   as one REPLAY line and replayed on both real stores.                                      *)
EXTENDS Integers, Sequences, FiniteSets, TLC, Json

CONSTANTS NIds,        \* ids 1..NIds
          MaxOps,      \* length of a behaviour
          GoneTail,    \* RootGone may only happen when at most GoneTail ops follow (-1: never)
          SymBreak,    \* ids are interchangeable: first use of id i+1 only after id i was used
          MaxFail,     \* at most this many failing inserts per behaviour
          SeekOnGet, ReadThenUnlink, UnlinkOnDrop, CreateErrIsExist, DirtyAfterWrite

VARIABLES map, ins, lastins,      \* property level
          file, h, gone,          \* fs implementation level
          nextv, maxused, fails, last, hist

vars == <<map, ins, lastins, file, h, gone, nextv, maxused, fails, last, hist>>

Ids == 1..NIds
NoHandle == [k |-> "none", id |-> 0, off |-> 0]
Res(r, v) == [r |-> r, v |-> v]          \* result class and returned value (0: none)

Files == {i \in Ids : file[i] >= 0}
AsSeq(f) == [i \in 1..NIds |-> f[i]]

Rec(op, i, how, insv, m, fl, hk) ==
  [op |-> op, id |-> i, how |-> how, ins |-> insv, r |-> last'.a.r, v |-> last'.a.v,
   map |-> AsSeq(m), files |-> fl, h |-> hk, gone |-> gone']

Log(op, i, how, insv) ==
  hist' = Append(hist, Rec(op, i, how, insv, map', {j \in Ids : file'[j] >= 0}, h'.k))

IdOk(i) == ~SymBreak \/ i <= maxused + 1
Use(i) == maxused' = IF i > maxused THEN i ELSE maxused
More == Len(hist) < MaxOps

Init == /\ map = [i \in Ids |-> 0]
        /\ ins = {}
        /\ lastins = [i \in Ids |-> 0]
        /\ file = [i \in Ids |-> -1]
        /\ h = NoHandle
        /\ gone = FALSE
        /\ nextv = 1
        /\ maxused = 0
        /\ fails = 0
        /\ last = [a |-> Res("init", 0), f |-> Res("init", 0)]
        /\ hist = <<>>

(* what reading file i through a descriptor at offset `off` yields in the fs design *)
ReadAt(i, off) ==
  IF (SeekOnGet \/ off = 0) /\ file[i] > 0 THEN Res("some", file[i]) ELSE Res("err", 0)

(* what `Store::entry` does once the root directory is gone: both opens fail with ENOENT *)
GoneEntry == IF CreateErrIsExist THEN Res("err", 0) ELSE Res("hang", 0)

----------------------------------------------------------------------------------
(* KeyStore::entry — fs: open(O_RDWR)+flock, on ENOENT open(O_CREAT|O_EXCL)+flock *)
Entry(i) ==
  /\ More /\ fails' = fails /\ h.k = "none" /\ ~gone /\ IdOk(i) /\ Use(i)
  /\ IF file[i] = -1
     THEN /\ file' = [file EXCEPT ![i] = 0]
          /\ h' = [k |-> "vacant", id |-> i, off |-> 0]
     ELSE /\ file' = file
          /\ h' = [k |-> "occupied", id |-> i, off |-> 0]
  /\ last' = [a |-> Res(IF map[i] = 0 THEN "vacant" ELSE "occupied", 0),
              f |-> Res(IF file[i] = -1 THEN "vacant" ELSE "occupied", 0)]
  /\ UNCHANGED <<map, ins, lastins, gone, nextv>>
  /\ Log("entry", i, "", 0)

(* Vacant::insert — fs: write CBOR, fdatasync, mark dirty *)
VInsert ==
  /\ More /\ fails' = fails /\ h.k = "vacant"
  /\ map' = [map EXCEPT ![h.id] = nextv]
  /\ ins' = ins \cup {h.id}
  /\ lastins' = [lastins EXCEPT ![h.id] = nextv]
  /\ file' = [file EXCEPT ![h.id] = nextv]
  /\ h' = NoHandle
  /\ nextv' = nextv + 1
  /\ last' = [a |-> Res("ok", 0), f |-> Res("ok", 0)]
  /\ UNCHANGED <<gone, maxused>>
  /\ Log("vinsert", h.id, "", nextv)

(* Vacant::insert whose write fails (the wrapped key cannot be encoded, or an I/O error):
   the call reports the error, the id stays vacant and nothing is left in the directory *)
KeepsGhost == ~(DirtyAfterWrite /\ UnlinkOnDrop)

VInsertFail ==
  /\ More /\ h.k = "vacant" /\ fails < MaxFail
  /\ fails' = fails + 1
  /\ file' = IF KeepsGhost THEN file ELSE [file EXCEPT ![h.id] = -1]
  /\ h' = NoHandle
  /\ last' = [a |-> Res("err", 0), f |-> Res("err", 0)]
  /\ UNCHANGED <<map, ins, lastins, gone, nextv, maxused>>
  /\ Log("vinsertfail", h.id, "", 0)

(* KeyStore::try_insert with such a key: AlreadyExists if occupied, else the failing insert *)
TryInsertFail(i) ==
  /\ More /\ h.k = "none" /\ IdOk(i) /\ Use(i) /\ fails < MaxFail
  /\ fails' = fails + 1
  /\ UNCHANGED <<map, ins, lastins, h, gone, nextv>>
  /\ IF gone
     THEN last' = [a |-> Res("err", 0), f |-> GoneEntry] /\ file' = file
     ELSE /\ last' = [a |-> Res(IF map[i] = 0 THEN "err" ELSE "exists", 0),
                      f |-> Res(IF file[i] = -1 THEN "err" ELSE "exists", 0)]
          /\ file' = IF file[i] = -1 /\ KeepsGhost THEN [file EXCEPT ![i] = 0] ELSE file
  /\ Log("tryinsertfail", i, "", 0)

(* dropping a vacant entry without insert — fs: unlink the empty file *)
VDrop ==
  /\ More /\ fails' = fails /\ h.k = "vacant"
  /\ file' = IF UnlinkOnDrop THEN [file EXCEPT ![h.id] = -1] ELSE file
  /\ h' = NoHandle
  /\ last' = [a |-> Res("ok", 0), f |-> Res("ok", 0)]
  /\ UNCHANGED <<map, ins, lastins, gone, nextv, maxused>>
  /\ Log("vdrop", h.id, "", 0)

(* Occupied::get — may be called any number of times *)
OGet ==
  /\ More /\ fails' = fails /\ h.k = "occupied"
  /\ h' = [h EXCEPT !.off = 1]
  /\ last' = [a |-> Res("some", map[h.id]), f |-> ReadAt(h.id, h.off)]
  /\ UNCHANGED <<map, ins, lastins, file, gone, nextv, maxused>>
  /\ Log("oget", h.id, "", 0)

(* Occupied::remove — returns the value and removes the entry.  If the read fails in the
   ReadThenUnlink design the entry stays; in the unlink-first design it is gone either way. *)
ORemove ==
  /\ More /\ fails' = fails /\ h.k = "occupied"
  /\ LET rd == ReadAt(h.id, h.off) IN
       /\ last' = [a |-> Res("some", map[h.id]), f |-> rd]
       /\ file' = IF ReadThenUnlink /\ rd.r = "err" THEN file ELSE [file EXCEPT ![h.id] = -1]
  /\ map' = [map EXCEPT ![h.id] = 0]
  /\ ins' = ins \ {h.id}
  /\ h' = NoHandle
  /\ UNCHANGED <<lastins, gone, nextv, maxused>>
  /\ Log("oremove", h.id, "", 0)

(* dropping an occupied entry *)
ODrop ==
  /\ More /\ fails' = fails /\ h.k = "occupied"
  /\ h' = NoHandle
  /\ last' = [a |-> Res("ok", 0), f |-> Res("ok", 0)]
  /\ UNCHANGED <<map, ins, lastins, file, gone, nextv, maxused>>
  /\ Log("odrop", h.id, "", 0)

(* KeyStore::get — fs: open(O_RDONLY)+flock(shared), decode; ENOENT -> canary check -> None *)
Get(i) ==
  /\ More /\ fails' = fails /\ h.k = "none" /\ IdOk(i) /\ Use(i)
  /\ last' = IF gone THEN [a |-> Res("err", 0), f |-> Res("err", 0)]
             ELSE [a |-> IF map[i] = 0 THEN Res("none", 0) ELSE Res("some", map[i]),
                   f |-> IF file[i] = -1 THEN Res("none", 0)
                         ELSE IF file[i] = 0 THEN Res("err", 0) ELSE Res("some", file[i])]
  /\ UNCHANGED <<map, ins, lastins, file, h, gone, nextv>>
  /\ Log("get", i, "", 0)

(* KeyStore::try_insert = entry; Vacant -> insert / Occupied -> AlreadyExists *)
TryInsert(i) ==
  /\ More /\ fails' = fails /\ h.k = "none" /\ IdOk(i) /\ Use(i)
  /\ UNCHANGED <<h, gone>>
  /\ IF gone
     THEN /\ last' = [a |-> Res("err", 0), f |-> GoneEntry]
          /\ UNCHANGED <<map, ins, lastins, file, nextv>>
          /\ Log("tryinsert", i, "", 0)
     ELSE IF file[i] = -1
     THEN /\ file' = [file EXCEPT ![i] = nextv]
          /\ map' = [map EXCEPT ![i] = nextv]
          /\ ins' = ins \cup {i}
          /\ lastins' = [lastins EXCEPT ![i] = nextv]
          /\ nextv' = nextv + 1
          /\ last' = [a |-> Res(IF map[i] = 0 THEN "ok" ELSE "exists", 0), f |-> Res("ok", 0)]
          /\ Log("tryinsert", i, "", nextv)
     ELSE /\ last' = [a |-> Res(IF map[i] = 0 THEN "ok" ELSE "exists", 0), f |-> Res("exists", 0)]
          /\ UNCHANGED <<map, ins, lastins, file, nextv>>
          /\ Log("tryinsert", i, "", 0)

(* KeyStore::remove = entry; Vacant -> None (the vacant entry is dropped) / Occupied -> remove *)
Remove(i) ==
  /\ More /\ fails' = fails /\ h.k = "none" /\ IdOk(i) /\ Use(i)
  /\ IF gone
     THEN /\ last' = [a |-> Res("err", 0), f |-> GoneEntry]
          /\ UNCHANGED <<map, ins, file>>
     ELSE /\ last' = [a |-> IF map[i] = 0 THEN Res("none", 0) ELSE Res("some", map[i]),
                      f |-> IF file[i] = -1 THEN Res("none", 0) ELSE ReadAt(i, 0)]
          /\ map' = [map EXCEPT ![i] = 0]
          /\ ins' = ins \ {i}
          /\ file' = IF file[i] = -1
                     THEN (IF UnlinkOnDrop THEN file ELSE [file EXCEPT ![i] = 0])
                     ELSE IF ReadThenUnlink /\ ReadAt(i, 0).r = "err" THEN file
                     ELSE [file EXCEPT ![i] = -1]
  /\ UNCHANGED <<lastins, h, gone, nextv>>
  /\ Log("remove", i, "", 0)

(* KeyStore::entry after the root is gone (no handle results) *)
EntryGone(i) ==
  /\ More /\ fails' = fails /\ h.k = "none" /\ gone /\ IdOk(i) /\ Use(i)
  /\ last' = [a |-> Res("err", 0), f |-> GoneEntry]
  /\ UNCHANGED <<map, ins, lastins, file, h, gone, nextv>>
  /\ Log("entry", i, "", 0)

(* drop the store object and open the directory again ("open"), or continue on
   `Store::try_clone` / `MemStore::clone` and drop the original ("clone") *)
Reopen(how) ==
  /\ More /\ fails' = fails /\ h.k = "none" /\ ~gone
  /\ last' = [a |-> Res("ok", 0), f |-> Res("ok", 0)]
  /\ UNCHANGED <<map, ins, lastins, file, h, gone, nextv, maxused>>
  /\ Log("reopen", 0, how, 0)

(* environment: the root directory is removed while the store is open *)
RootGone ==
  /\ More /\ fails' = fails /\ h.k = "none" /\ ~gone
  /\ GoneTail >= 0 /\ MaxOps - Len(hist) - 1 <= GoneTail
  /\ gone' = TRUE
  /\ file' = [i \in Ids |-> -1]
  /\ map' = [i \in Ids |-> 0]
  /\ ins' = {}
  /\ last' = [a |-> Res("ok", 0), f |-> Res("ok", 0)]
  /\ UNCHANGED <<lastins, h, nextv, maxused>>
  /\ Log("rootgone", 0, "", 0)

Next == \/ \E i \in Ids : Entry(i) \/ EntryGone(i) \/ Get(i) \/ TryInsert(i) \/ Remove(i)
                         \/ TryInsertFail(i)
        \/ VInsert \/ VInsertFail \/ VDrop \/ OGet \/ ORemove \/ ODrop
        \/ \E how \in {"open", "clone"} : Reopen(how)
        \/ RootGone

Spec == Init /\ [][Next]_vars

----------------------------------------------------------------------------------
(* Properties (C45) *)

TypeOK == /\ map \in [Ids -> Nat] /\ file \in [Ids -> Int]
          /\ h.k \in {"none", "vacant", "occupied"} /\ h.off \in {0, 1}
          /\ (h.k = "none") = (h.id = 0)

(* every call returns what the map model defines *)
Refines == last.a = last.f

(* the directory is the map: one file holding the stored value per occupied id, nothing else
   — except the empty file of the vacant entry that is currently open *)
DirIsMap ==
  \A i \in Ids :
    IF h.k = "vacant" /\ h.id = i THEN map[i] = 0 /\ file[i] = 0
    ELSE IF map[i] = 0 THEN file[i] = -1 ELSE file[i] = map[i]

(* a vacant entry dropped without insert (directly or inside `remove`) leaves nothing behind *)
NothingLeftBehind == h.k # "vacant" => \A i \in Ids : file[i] # 0

(* an id is occupied exactly after an insert through a vacant entry and until removed *)
OccupiedIffInserted == \A i \in Ids : (file[i] > 0) = (i \in ins)

(* reads return the stored key: the value of the last insert of that id *)
ReadsReturnStored ==
  (Len(hist) > 0 /\ last.f.r = "some") => last.f.v = lastins[hist[Len(hist)].id]

(* after the root directory is gone every call reports an error (never blocks) *)
GoneIsError == (gone /\ hist[Len(hist)].op # "rootgone") => last.f.r = "err"

----------------------------------------------------------------------------------
(* deep design-level runs: identify states that differ only in the history before the last call *)
ViewNoHist == <<map, ins, lastins, file, h, gone, nextv, maxused, fails, last, Len(hist),
                IF Len(hist) = 0 THEN <<>> ELSE <<hist[Len(hist)]>> >>

(* S2I emission: one line per maximal behaviour *)
Emit == Len(hist) = MaxOps => PrintT("REPLAY " \o ToJson([steps |-> hist]))
=================================================================================
