--------------------------------- MODULE ArcStr ---------------------------------
(* C33 — `arc::ArcStr` of `crates/aranya-policy-text/src/repr.rs`: the heap representation of
   `Text` / `Identifier`, an atomically reference counted string.

   Every thread owns some handles to one shared allocation (it starts with one) and repeatedly
   chooses to clone one of its handles, to read the text through one, or to drop one, until it
   owns none.  One label per atomic access of the code (one yield point each under SCHED):

     op     (harness) the thread picks its next operation
     inc    ArcStr::clone:  strong.fetch_add(1, Relaxed)
     rd     (harness)       as_str(): reads the bytes of the allocation
     dec    ArcStr::drop:   strong.fetch_sub(1, Release); the handle is gone
     fence  ArcStr::drop:   fence(Acquire)          — only when fetch_sub returned 1
     free   ArcStr::drop:   dealloc

   `FreeOn` is the value of `fetch_sub` on which `drop` frees: 1 in the code.
   MC_ArcStr_mutant sets it to 2 and must be rejected by TLC.
   Memory orderings are outside the model (sequentially consistent steps, DESIGN §9).      *)
EXTENDS Integers, FiniteSets, TLC

CONSTANTS Threads,     \* thread ids 1..N, each starts with one handle
          MaxClones,   \* clones per thread
          MaxReads,    \* reads per thread
          FreeOn       \* 1 = the code

(* --algorithm ArcStr {
  variables count = Cardinality(Threads),   \* ArcStrInner::strong
            freed = 0,                      \* number of deallocs
            uaf = FALSE;                    \* monitor: an access after the dealloc
  process (t \in Threads)
    variables held = 1, clones = 0, reads = 0, old = 0;
  {
  op:     either { await clones < MaxClones; goto inc; }
          or     { await reads < MaxReads; goto rd; }
          or     { goto dec; };
  inc:    if (freed > 0) { uaf := TRUE; };
          count := count + 1; held := held + 1; clones := clones + 1;
          goto op;
  rd:     if (freed > 0) { uaf := TRUE; };
          reads := reads + 1;
          goto op;
  dec:    if (freed > 0) { uaf := TRUE; };
          old := count; count := count - 1; held := held - 1;
          if (old # FreeOn) { if (held > 0) { goto op; } else { goto Done; } };
  fence:  skip;
  free:   freed := freed + 1;
          if (held > 0) { goto op; };
  }
} *)
\* BEGIN TRANSLATION
VARIABLES pc, count, freed, uaf, held, clones, reads, old

vars == << pc, count, freed, uaf, held, clones, reads, old >>

ProcSet == (Threads)

Init == (* Global variables *)
        /\ count = Cardinality(Threads)
        /\ freed = 0
        /\ uaf = FALSE
        (* Process t *)
        /\ held = [self \in Threads |-> 1]
        /\ clones = [self \in Threads |-> 0]
        /\ reads = [self \in Threads |-> 0]
        /\ old = [self \in Threads |-> 0]
        /\ pc = [self \in ProcSet |-> "op"]

op(self) == /\ pc[self] = "op"
            /\ \/ /\ clones[self] < MaxClones
                  /\ pc' = [pc EXCEPT ![self] = "inc"]
               \/ /\ reads[self] < MaxReads
                  /\ pc' = [pc EXCEPT ![self] = "rd"]
               \/ /\ pc' = [pc EXCEPT ![self] = "dec"]
            /\ UNCHANGED << count, freed, uaf, held, clones, reads, old >>

inc(self) == /\ pc[self] = "inc"
             /\ IF freed > 0
                   THEN /\ uaf' = TRUE
                   ELSE /\ TRUE
                        /\ uaf' = uaf
             /\ count' = count + 1
             /\ held' = [held EXCEPT ![self] = held[self] + 1]
             /\ clones' = [clones EXCEPT ![self] = clones[self] + 1]
             /\ pc' = [pc EXCEPT ![self] = "op"]
             /\ UNCHANGED << freed, reads, old >>

rd(self) == /\ pc[self] = "rd"
            /\ IF freed > 0
                  THEN /\ uaf' = TRUE
                  ELSE /\ TRUE
                       /\ uaf' = uaf
            /\ reads' = [reads EXCEPT ![self] = reads[self] + 1]
            /\ pc' = [pc EXCEPT ![self] = "op"]
            /\ UNCHANGED << count, freed, held, clones, old >>

dec(self) == /\ pc[self] = "dec"
             /\ IF freed > 0
                   THEN /\ uaf' = TRUE
                   ELSE /\ TRUE
                        /\ uaf' = uaf
             /\ old' = [old EXCEPT ![self] = count]
             /\ count' = count - 1
             /\ held' = [held EXCEPT ![self] = held[self] - 1]
             /\ IF old'[self] # FreeOn
                   THEN /\ IF held'[self] > 0
                              THEN /\ pc' = [pc EXCEPT ![self] = "op"]
                              ELSE /\ pc' = [pc EXCEPT ![self] = "Done"]
                   ELSE /\ pc' = [pc EXCEPT ![self] = "fence"]
             /\ UNCHANGED << freed, clones, reads >>

fence(self) == /\ pc[self] = "fence"
               /\ TRUE
               /\ pc' = [pc EXCEPT ![self] = "free"]
               /\ UNCHANGED << count, freed, uaf, held, clones, reads, old >>

free(self) == /\ pc[self] = "free"
              /\ freed' = freed + 1
              /\ IF held[self] > 0
                    THEN /\ pc' = [pc EXCEPT ![self] = "op"]
                    ELSE /\ pc' = [pc EXCEPT ![self] = "Done"]
              /\ UNCHANGED << count, uaf, held, clones, reads, old >>

t(self) == op(self) \/ inc(self) \/ rd(self) \/ dec(self) \/ fence(self)
              \/ free(self)

(* Allow infinite stuttering to prevent deadlock on termination. *)
Terminating == /\ \A self \in ProcSet: pc[self] = "Done"
               /\ UNCHANGED vars

Next == (\E self \in Threads: t(self))
           \/ Terminating

Spec == Init /\ [][Next]_vars

Termination == <>(\A self \in ProcSet: pc[self] = "Done")

\* END TRANSLATION

-----------------------------------------------------------------------------
(* Properties (C33) *)
Sum(f) == LET RECURSIVE S(_) S(T) == IF T = {} THEN 0 ELSE
                 LET x == CHOOSE y \in T : TRUE IN f[x] + S(T \ {x})
          IN S(Threads)

NoUseAfterFree == ~uaf                                  \* never reads freed memory
FreedOnce      == freed <= 1                            \* never frees twice
CountNonNeg    == count >= 0
CountIsHandles == (freed = 0) => count = Sum(held)      \* the count is the number of live handles
NoEarlyFree    == (freed > 0) => \A th \in Threads : held[th] = 0
AllDone        == \A th \in Threads : pc[th] = "Done"
NoLeak         == AllDone => freed = 1                  \* never leaks
=============================================================================
