--------------------------------- MODULE ArcStr ---------------------------------
(* C33 — `arc::ArcStr` of `crates/aranya-policy-text/src/repr.rs`: the heap representation of
   `Text` / `Identifier`, an atomically reference counted string.

   Every thread owns some handles to one shared allocation and repeatedly chooses to clone a
   handle, to read the text through one, or to drop one, until it owns none.  Owner threads start
   with one handle; borrower threads start with a shared reference to the first owner's handle
   (so several threads can clone the SAME handle concurrently, also when the count is 1).  One label per atomic access of the code (one yield point each under SCHED):

     op     (harness) the thread picks its next operation
     inc    ArcStr::clone:  strong.fetch_add(1, Relaxed)
     rd     (harness)       as_str(): reads the bytes of the allocation
     dec    ArcStr::drop:   strong.fetch_sub(1, Release); the handle is gone
     fence  ArcStr::drop:   fence(Acquire)          — only when fetch_sub returned 1
     free   ArcStr::drop:   dealloc

   `FreeOn` is the value of `fetch_sub` on which `drop` frees: 1 in the code.
   MC_ArcStr_mutant sets it to 2 and must be rejected by TLC.
   Memory orderings are outside the model (sequentially consistent steps, DESIGN §9).      *)
EXTENDS Integers, FiniteSets, TLC

CONSTANTS Threads,     \* thread ids 1..N
          Owners,      \* the threads that start with one handle; the others start with none but
                       \* hold a shared reference (`&Text`) to the first owner's handle, through
                       \* which they may clone and read until they give the reference back; the
                       \* owner cannot drop that handle while it is borrowed (Rust lifetimes)
          MaxClones,   \* clones per thread
          MaxReads,    \* reads per thread
          FreeOn       \* 1 = the code

(* --algorithm ArcStr {
  variables count = Cardinality(Owners),    \* ArcStrInner::strong
            freed = 0,                      \* number of deallocs
            borrowing = [th \in Threads |-> th \notin Owners],
            uaf = FALSE;                    \* monitor: an access after the dealloc
  define {
    Lender == CHOOSE o \in Owners : \A p \in Owners : o <= p
    Lent == \E b \in Threads : borrowing[b]
  }
  macro Next() {
    if (held > 0 \/ borrowing[self]) { goto op; } else { goto Done; };
  }
  process (t \in Threads)
    variables held = IF self \in Owners THEN 1 ELSE 0, clones = 0, reads = 0, old = 0;
  {
  op:     either { await clones < MaxClones; goto inc; }
          or     { await reads < MaxReads; goto rd; }
          or     { \* drop a handle — but not the lent one while it is borrowed
                   await held > 0 /\ ~(self = Lender /\ held = 1 /\ Lent); goto dec; }
          or     { \* give the shared reference back
                   await borrowing[self]; borrowing[self] := FALSE;
                   if (held = 0) { goto Done; } else { goto op; } };
  inc:    if (freed > 0) { uaf := TRUE; };
          count := count + 1; held := held + 1; clones := clones + 1;
          goto op;
  rd:     if (freed > 0) { uaf := TRUE; };
          reads := reads + 1;
          goto op;
  dec:    if (freed > 0) { uaf := TRUE; };
          old := count; count := count - 1; held := held - 1;
          if (old # FreeOn) { Next(); };
  fence:  skip;
  free:   freed := freed + 1;
          Next();
  }
} *)
\* BEGIN TRANSLATION
VARIABLES pc, count, freed, borrowing, uaf

(* define statement *)
Lender == CHOOSE o \in Owners : \A p \in Owners : o <= p
Lent == \E b \in Threads : borrowing[b]

VARIABLES held, clones, reads, old

vars == << pc, count, freed, borrowing, uaf, held, clones, reads, old >>

ProcSet == (Threads)

Init == (* Global variables *)
        /\ count = Cardinality(Owners)
        /\ freed = 0
        /\ borrowing = [th \in Threads |-> th \notin Owners]
        /\ uaf = FALSE
        (* Process t *)
        /\ held = [self \in Threads |-> IF self \in Owners THEN 1 ELSE 0]
        /\ clones = [self \in Threads |-> 0]
        /\ reads = [self \in Threads |-> 0]
        /\ old = [self \in Threads |-> 0]
        /\ pc = [self \in ProcSet |-> "op"]

op(self) == /\ pc[self] = "op"
            /\ \/ /\ clones[self] < MaxClones
                  /\ pc' = [pc EXCEPT ![self] = "inc"]
                  /\ UNCHANGED borrowing
               \/ /\ reads[self] < MaxReads
                  /\ pc' = [pc EXCEPT ![self] = "rd"]
                  /\ UNCHANGED borrowing
               \/ /\ held[self] > 0 /\ ~(self = Lender /\ held[self] = 1 /\ Lent)
                  /\ pc' = [pc EXCEPT ![self] = "dec"]
                  /\ UNCHANGED borrowing
               \/ /\ borrowing[self]
                  /\ borrowing' = [borrowing EXCEPT ![self] = FALSE]
                  /\ IF held[self] = 0
                        THEN /\ pc' = [pc EXCEPT ![self] = "Done"]
                        ELSE /\ pc' = [pc EXCEPT ![self] = "op"]
            /\ UNCHANGED << count, freed, uaf, held, clones, reads, old >>

inc(self) == /\ pc[self] = "inc"
             /\ IF freed > 0
                   THEN /\ uaf' = TRUE
                   ELSE /\ TRUE
                        /\ uaf' = uaf
             /\ count' = count + 1
             /\ held' = [held EXCEPT ![self] = held[self] + 1]
             /\ clones' = [clones EXCEPT ![self] = clones[self] + 1]
             /\ pc' = [pc EXCEPT ![self] = "op"]
             /\ UNCHANGED << freed, borrowing, reads, old >>

rd(self) == /\ pc[self] = "rd"
            /\ IF freed > 0
                  THEN /\ uaf' = TRUE
                  ELSE /\ TRUE
                       /\ uaf' = uaf
            /\ reads' = [reads EXCEPT ![self] = reads[self] + 1]
            /\ pc' = [pc EXCEPT ![self] = "op"]
            /\ UNCHANGED << count, freed, borrowing, held, clones, old >>

dec(self) == /\ pc[self] = "dec"
             /\ IF freed > 0
                   THEN /\ uaf' = TRUE
                   ELSE /\ TRUE
                        /\ uaf' = uaf
             /\ old' = [old EXCEPT ![self] = count]
             /\ count' = count - 1
             /\ held' = [held EXCEPT ![self] = held[self] - 1]
             /\ IF old'[self] # FreeOn
                   THEN /\ IF held'[self] > 0 \/ borrowing[self]
                              THEN /\ pc' = [pc EXCEPT ![self] = "op"]
                              ELSE /\ pc' = [pc EXCEPT ![self] = "Done"]
                   ELSE /\ pc' = [pc EXCEPT ![self] = "fence"]
             /\ UNCHANGED << freed, borrowing, clones, reads >>

fence(self) == /\ pc[self] = "fence"
               /\ TRUE
               /\ pc' = [pc EXCEPT ![self] = "free"]
               /\ UNCHANGED << count, freed, borrowing, uaf, held, clones, 
                               reads, old >>

free(self) == /\ pc[self] = "free"
              /\ freed' = freed + 1
              /\ IF held[self] > 0 \/ borrowing[self]
                    THEN /\ pc' = [pc EXCEPT ![self] = "op"]
                    ELSE /\ pc' = [pc EXCEPT ![self] = "Done"]
              /\ UNCHANGED << count, borrowing, uaf, held, clones, reads, old >>

t(self) == op(self) \/ inc(self) \/ rd(self) \/ dec(self) \/ fence(self)
              \/ free(self)

(* Allow infinite stuttering to prevent deadlock on termination. *)
Terminating == /\ \A self \in ProcSet: pc[self] = "Done"
               /\ UNCHANGED vars

Next == (\E self \in Threads: t(self))
           \/ Terminating

Spec == Init /\ [][Next]_vars

Termination == <>(\A self \in ProcSet: pc[self] = "Done")

\* END TRANSLATION

-----------------------------------------------------------------------------
(* Properties (C33) *)
Sum(f) == LET RECURSIVE S(_) S(T) == IF T = {} THEN 0 ELSE
                 LET x == CHOOSE y \in T : TRUE IN f[x] + S(T \ {x})
          IN S(Threads)

NoUseAfterFree == ~uaf                                  \* never reads freed memory
FreedOnce      == freed <= 1                            \* never frees twice
CountNonNeg    == count >= 0
CountIsHandles == (freed = 0) => count = Sum(held)      \* the count is the number of live handles
NoEarlyFree    == (freed > 0) => \A th \in Threads : held[th] = 0 /\ ~borrowing[th]
AllDone        == \A th \in Threads : pc[th] = "Done"
NoLeak         == AllDone => freed = 1                  \* never leaks
=============================================================================
