\* C33: one owner (count 1) and two borrowers that clone/read through a shared reference to the owner's
\* handle: concurrent clones of the SAME unique handle; <= 1 clone and <= 1 read each (also a schedule graph).
SPECIFICATION Spec
CONSTANTS
  Threads = {1, 2, 3}
  Owners = {1}
  MaxClones = 1
  MaxReads = 1
  FreeOn = 1
INVARIANTS NoUseAfterFree FreedOnce CountNonNeg CountIsHandles NoEarlyFree NoLeak
