\* C20 capacity rule with the code's Cap: 12 siblings + grandchild, siblings first used in
\* increasing order (symmetry), sequences <= 14
SPECIFICATION Spec
CONSTANTS
  Cap = 10
  MaxDepth = 14
  InitShapes <- MC_Star
  StatusMode = "committed"
  Canon = TRUE
VIEW View
INVARIANTS AtMostCap NoDuplicates OnlyCommitted IsAntichain Emit
PROPERTIES StepRule
CHECK_DEADLOCK FALSE
