SPECIFICATION Spec
CONSTANTS
  NCmds = 2
  MaxTamper = 2
  MaxForged = 1
INVARIANTS AuthenticOnly RejectLeavesNoTrace HonestAccepted Prefix Emit
CHECK_DEADLOCK FALSE
