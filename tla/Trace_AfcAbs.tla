------------------------------ MODULE Trace_AfcAbs ------------------------------
(* I2S: validates the real call/return history recorded by `vh-afc shm` / `vh-afc mem`
   (events stamped by the scheduler's global step counter = real-time order) against AfcAbs.
   The ndjson trace (IOEnv.TRACE) holds many runs separated by `reset` events:

     {"ev":"reset","cap":C,"readers":N,"single":b}
     {"ev":"inv","th":0,"what":"add"|"rm"|"rmif"|"clear","targets":[..]}
     {"ev":"ret","th":0,"what":..,"res":"ok"|"oos","id":n}
     {"ev":"inv","th":r,"what":"setup"|"seal"|"open","id":n}
     {"ev":"ret","th":r,"what":..,"res":"ok"|"fail"|"notfound","seq":n}
     {"ev":"drop","th":r}                                   (in-memory state: context dropped)

   Accepted iff every line is matched by an AfcAbs action (POSTCONDITION).                  *)
EXTENDS Naturals, Sequences, FiniteSets, TLC, Json, IOUtils

Rec == ndJsonDeserialize(IOEnv.TRACE)

VARIABLES i, table, lastId, ever, removalStarted, removedDone, wcall, rcall, ctx, live, chanSeq

(* all runs of one trace file share the configuration of the first `reset` record *)
TCap    == Rec[1].cap
TSingle == Rec[1].single
NRead   == Rec[1].readers

(* the property whose guards decide (environment variable PROP: C40, C41 or C42) *)
TCheck  == {IOEnv.PROP}

A == INSTANCE AfcAbs WITH Readers <- 1..NRead, Cap <- TCap, SingleCtx <- TSingle, MaxId <- 0, Check <- TCheck

tvars == <<i, table, lastId, ever, removalStarted, removedDone, wcall, rcall, ctx, live, chanSeq>>

ToSet(s) == {s[j] : j \in 1..Len(s)}

Init == /\ i = 1
        /\ table = {} /\ lastId = A!NoId /\ ever = {} /\ removalStarted = {} /\ removedDone = {}
        /\ wcall = <<"none">>
        /\ rcall = [r \in 1..NRead |-> <<"none">>] /\ ctx = [r \in 1..NRead |-> <<"none">>] /\ live = {} /\ chanSeq = <<>>

Reset(e) == /\ e.ev = "reset"
            /\ e.cap = TCap /\ e.single = TSingle /\ e.readers = NRead
            /\ table' = {} /\ lastId' = A!NoId /\ ever' = {} /\ removalStarted' = {} /\ removedDone' = {}
            /\ wcall' = <<"none">>
            /\ rcall' = [r \in 1..NRead |-> <<"none">>]
            /\ ctx' = [r \in 1..NRead |-> <<"none">>]
            /\ live' = {} /\ chanSeq' = <<>>

Event(e) ==
   \/ /\ e.ev = "inv" /\ e.th = 0 /\ e.what = "add" /\ A!InvAdd
   \/ /\ e.ev = "inv" /\ e.th = 0 /\ e.what # "add" /\ A!InvRemove(ToSet(e.targets))
   \/ /\ e.ev = "ret" /\ e.th = 0 /\ e.what = "add" /\ e.res = "ok" /\ A!RetAddOk(e.id)
   \/ /\ e.ev = "ret" /\ e.th = 0 /\ e.what = "add" /\ e.res = "oos" /\ A!RetAddOos
   \/ /\ e.ev = "ret" /\ e.th = 0 /\ e.what # "add" /\ e.res = "ok" /\ A!RetRemove
   \/ /\ e.ev = "inv" /\ e.th # 0 /\ A!InvReader(e.th, e.what, e.id)
   \/ /\ e.ev = "ret" /\ e.th # 0 /\ e.res \in {"ok", "fail"}
      /\ A!RetFound(e.th, e.res, IF e.seq >= 0 THEN e.seq ELSE 0)
   \/ /\ e.ev = "ret" /\ e.th # 0 /\ e.res = "notfound" /\ A!RetNotFound(e.th)
   \/ /\ e.ev = "drop" /\ A!DropCtx(e.th)

Next == /\ i <= Len(Rec)
        /\ LET e == Rec[i] IN
             \/ Reset(e)
             \/ (e.ev # "reset" /\ Event(e))
        /\ i' = i + 1

Spec == Init /\ [][Next]_tvars

Accepted == IF TLCGet("stats").diameter - 1 = Len(Rec)
            THEN PrintT("TRACE-ACCEPTED")
            ELSE PrintT("TRACE-REJECTED at " \o ToString(TLCGet("stats").diameter))
=============================================================================
