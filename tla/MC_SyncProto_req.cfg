\* C18(a) requester: all call sequences <= 5 (poll, every message kind x own/foreign session x
\* next/skipped/repeated index) from both constructors
SPECIFICATION Spec
CONSTANTS
  Side = "req"
  MaxDepth = 5
  Resp = 2
VIEW View
INVARIANTS TypeOK Accepts InOrder ReadyConsistent UnsupportedClosed Emit
PROPERTIES MismatchInert
CHECK_DEADLOCK FALSE
