------------------------------- MODULE PeerCache -------------------------------
(* C20 — `aranya_runtime::sync::PeerCache` (crates/aranya-runtime/src/sync/responder.rs).

   A peer cache remembers up to `Cap` (= PEER_HEAD_MAX = 10) commands the peer is known to hold,
   as located addresses in the *local committed* graph.  One action per public call:
   `AddCommand(a)` = `PeerCache::add_command(storage, addr, buffer)`.

   The local storage is a DAG `par` whose nodes are
     "c"  committed (reachable from the committed heads),
     "f"  flushed but uncommitted (written to storage by an open transaction, `Transaction::flush`,
          not reachable from the committed heads),
     "u"  unknown (not in storage at all; the peer told us about it).
   An address is a node together with a max cut that is right (`ok`) or wrong: the runtime locates a
   command by (id, max_cut), so a known id with a wrong max cut is not found.

   The action transcribes the code: `get_location` (searches from committed heads only) else ignore;
   then `retain` over the entries in order —
        old = new or new is an ancestor of old   -> keep old, do not add
        old is an ancestor of new                -> drop old
        otherwise                                -> keep old
   — then push the new entry if it is to be added *and there is room* (`heads.push(new).ok()`
   silently drops when the heapless vector is full).  The cache is a sequence (the order of
   `heads()` is the order of insertion) so that the implementation state is exactly the spec state
   and covering every transition of the spec covers every behaviour of the code.             *)
EXTENDS Naturals, Sequences, FiniteSets, TLC, Json, SyncDag

CONSTANTS Cap,            \* PEER_HEAD_MAX (10 in the code)
          MaxDepth,       \* number of add_command calls per behaviour
          InitShapes,     \* set of DAGs (SyncDag) to start from
          StatusMode,     \* "all": every committed/flushed/unknown labelling; "committed": all committed
          Canon           \* TRUE: siblings of a star are first used in increasing order (symmetry)

VARIABLES par, anc, st, cache, depth, maxSib, hist

vars == <<par, anc, st, cache, depth, maxSib, hist>>

(* anc[n] = strict ancestors of n, fixed by Init (a cache of SyncDag!AncOf, not state) *)

Committed == {n \in Nodes(par) : st[n] = "c"}
Stored    == {n \in Nodes(par) : st[n] \in {"c", "f"}}

(* labellings: committed set C is a downset; C \cup F is a downset *)
Labellings(p) ==
  IF StatusMode = "committed" THEN {[n \in Nodes(p) |-> "c"]}
  ELSE {[n \in Nodes(p) |-> IF n \in C THEN "c" ELSE IF n \in S THEN "f" ELSE "u"] :
          <<C, S>> \in {cs \in Downsets(p) \X Downsets(p) : cs[1] \subseteq cs[2]}}

Addrs == [n : Nodes(par), ok : BOOLEAN]

(* canonical first use (only for the wide star configuration, whose siblings are 2..W+1): a sibling
   may be named only if all smaller siblings were named (with a locatable address) before
   (`maxSib` = largest sibling so named); non-siblings (init, deeper nodes) are always allowed *)
Siblings == {n \in Nodes(par) : par[n] = {1}}
Allowed(a) == ~Canon \/ a.n \notin Siblings \/ a.n <= maxSib + 1

Init == /\ par \in InitShapes
        /\ anc = [n \in Nodes(par) |-> AncOf(par, n)]
        /\ st \in Labellings(par)
        /\ cache = <<>>
        /\ depth = 0
        /\ maxSib = 1
        /\ hist = <<>>

(* `storage.get_location(addr)` — committed heads only, id and max cut must both match *)
Located(a) == a.ok /\ a.n \in Committed

(* the cache after add_command(a), as a function of the cache before *)
After(c, a) == CacheAdd(anc, Committed, Cap, c, a.n, a.ok)       \* SyncDag: the transcription

AddCommand(a) ==
  /\ depth < MaxDepth
  /\ Allowed(a)
  /\ cache' = After(cache, a)
  /\ depth' = depth + 1
  /\ maxSib' = IF Canon /\ a.ok /\ a.n \in Siblings /\ a.n > maxSib THEN a.n ELSE maxSib
  /\ hist' = Append(hist, [addr |-> a, cache |-> cache'])
  /\ UNCHANGED <<par, anc, st>>

Next == \E a \in Addrs : AddCommand(a)

Spec == Init /\ [][Next]_vars

View == <<par, st, cache, depth, maxSib>>

----------------------------------------------------------------------------------
(* C20 as invariants and an action property *)

Entries == {cache[i] : i \in 1..Len(cache)}

AtMostCap      == Len(cache) <= Cap
NoDuplicates   == Cardinality(Entries) = Len(cache)
OnlyCommitted  == Entries \subseteq Committed
IsAntichain    == \A a, b \in Entries : a # b => (a \notin anc[b] /\ b \notin anc[a])

(* recording removes only ancestors of the recorded command, ignores commands that are not
   committed locally or are ancestors of (or equal to) an entry, and otherwise records it
   unless the cache is full *)
StepRule ==
  [][LET a == hist'[Len(hist')].addr       \* the address of this step (Next = \E a : AddCommand(a))
          old == Entries
          new == {cache'[i] : i \in 1..Len(cache')}
        IN /\ (old \ new) \subseteq anc[a.n]
           /\ (new \ old) \subseteq {a.n}
           /\ (~Located(a) \/ \E e \in old : (a.n = e \/ a.n \in anc[e])) => new = old
           /\ (Located(a) /\ ~\E e \in old : (a.n = e \/ a.n \in anc[e]))
                => \/ a.n \in new
                   \/ (Cardinality(old \ anc[a.n]) = Cap /\ new = old \ anc[a.n])
  ]_vars

----------------------------------------------------------------------------------
(* S2I emission: one witness per reachable state (VIEW hides hist) + the expected outcome of
   every address from that state, so that every transition of the spec is replayed. *)
AddrList == [i \in 1..(2 * Len(par)) |-> [n |-> ((i - 1) \div 2) + 1, ok |-> (i % 2 = 1)]]

Rec == [par   |-> [n \in 1..Len(par) |-> par[n]],
        st    |-> st,
        cap   |-> Cap,
        steps |-> hist,
        fan   |-> [i \in 1..Len(AddrList) |-> [addr |-> AddrList[i], cache |-> After(cache, AddrList[i])]]]

Emit == PrintT("REPLAY " \o ToJson(Rec))

----------------------------------------------------------------------------------
(* definitions for the configurations *)
MC_Shapes3 == UNION {Shapes(k) : k \in 1..3}
MC_Shapes4 == UNION {Shapes(k) : k \in 1..4}
MC_Shapes5 == UNION {Shapes(k) : k \in 1..5}
MC_Shapes6 == UNION {Shapes(k) : k \in 1..6}
(* capacity rule: 12 siblings (more than Cap) and a grandchild under sibling 2 (evicting an
   ancestor frees a slot in a full cache) *)
MC_Star ==
  {[n \in 1..14 |-> IF n = 1 THEN {} ELSE IF n <= 13 THEN {1} ELSE {2}]}
=================================================================================
