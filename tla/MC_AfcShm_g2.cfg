\* Schedule graph 2: two readers with 2 calls each against add, add, remove / add, remove_all, add.
SPECIFICATION Spec
CONSTANTS
  Readers = {1, 2}
  Cap = 2
  WScripts <- ScriptsTwo
  ROps = 2
  Mutant = "none"
INVARIANTS TypeOK SeqsOk RemovalEffective NoLostChannel NoResurrection SidesEqualWhenIdle TableIsModel NoDuplicates WithinCap ReaderSeesProduced OutOfSpaceIffFull IdsNeverReused InSync
CHECK_DEADLOCK FALSE
