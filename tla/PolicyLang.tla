------------------------------ MODULE PolicyLang ------------------------------
(* Reference semantics of the Aranya policy language (expression and pure-function fragment)
   and a grammar-derivation generator of well-typed programs.            C22, C23, C24, C28.

   What this module is
   -------------------
   * VALUES: the value universe of the language.  `int` is a signed 64-bit integer; a value is
     written a*2^63 + b with a \in {-1,0,1} and a small b, which is exact on the neighbourhoods
     of 0, i64::MIN and i64::MAX and fits TLC's 32-bit integers (DESIGN 3.5).
   * TYPES and the typing judgement `TypeOf` (with the bottom type `never` of `todo()`,
     `test_fail()` and `return`, which fits everywhere, as the language defines it).
   * `Eval` / `Exec` / `CallFn`: a big-step reference evaluator.  An outcome is
         [k |-> "val" | "ret" | "panic" | "stuck", v |-> value, log |-> foreign-call log].
     "panic" is where the language says evaluation fails (todo(), test_fail(), a failed
     debug_assert, falling off the end of a function); "stuck" is *no semantics* (a match
     nothing matches) -- the invariant NoStuck says a well-typed program never gets there.
     `&&`, `||`, `or` (optional coalescing), `if`, `match`, `check` evaluate only what the
     language says they evaluate: the untaken operand/branch contributes neither a panic nor a
     log entry (C23 is literally the definition of these cases).
   * The GENERATOR: a program is derived by repeatedly replacing the left-most hole of a
     partial syntax tree (actions `Choose`: atom or production?, `Expand`: which one).
     Exhaustive TLC search over the derivations of a small depth enumerates every production
     over every combination of atoms; `-simulate` samples deeper derivations (a derivation
     stops at each hole with probability 1/2, so sampled programs stay small).  Modes:
       Effects  every hole may also be todo(), test_fail(), a block with a failing check, an early
                `return`, or a call of a logging foreign function (C23);
       Quirks   the root production is one that lies *outside* the type system but which a lax
                compiler accepts (binding alternations, partial struct literals, unchecked
                global struct constants) (C24).
     The set-valued `Exprs(d, t, ctx, frt, w)` is the same grammar as a set (lemma
     DerivationInExprs + count equality, checked by TLC in MC_PolicyLang); `AnyExprs(d)` ignores
     types (C24, C27).
   * Emission (invariant `Emit`): a finished derivation is type-checked by `BodyOk`, evaluated on
     its argument tuples, checked (well typed unless Quirks/deep never-refinement; never stuck;
     result of the declared type) and printed as one REPLAY line
         [rt, params, body, typed, fx, envs |-> { [args, exp] ... }]
     where exp is Eval's outcome for that argument tuple ("skip" for untyped candidates).  The
     harness renders the tree to policy source, runs the real parser/compiler/VM and compares
     (S2I with the spec as the reference semantics).

   The prelude (enum/struct definitions, helper functions, foreign functions) is part of the
   spec (`Prelude`) and is emitted once, so that the rendered policy document is completely
   determined by this module.                                                               *)
EXTENDS Integers, Sequences, FiniteSets, TLC, Json

CONSTANTS
  MaxDepth,    \* expression nesting depth of the generator (atoms are depth 0)
  StmtDepth,   \* statement nesting/sequence budget of function bodies
  Effects,     \* BOOLEAN: panicking / foreign-call / failing-check atoms in every hole (C23)
  RetTypes,    \* set of return types the root hole ranges over
  EnvCap,      \* at most this many argument environments per program
  Focus,       \* "all" | "ops" | "ret"
               \*   "ops" derives only operator productions (&&, ||, !, ==, <, or, is, add, ...) so that
               \*         derivations are nests of infix/prefix/postfix operators (precedence)
               \*   "ret" derives nests of operand-holding constructs (builtin and function-call arguments,
               \*         struct literal fields, comparisons, match) with early `return` atoms, and the
               \*         function is *called* by a second function that uses the result as a non-first
               \*         operand (the VM must drop every pending operand of the callee on return)
  Quirks       \* BOOLEAN: also derive accepted-but-odd programs (C24): binding alternations, partial struct literals

VARIABLES ast,    \* the syntax tree under construction (a function body with holes)
          rt,     \* return type of the function
          phase,  \* "gen" | "done"
          pick    \* "none" | "atom" | "prod": what the left-most hole will be replaced by
vars == <<ast, rt, phase, pick>>

-----------------------------------------------------------------------------
(* 1. Integers: <<"int", a, b>> denotes a*2^63 + b.                                        *)

IV(a, b) == <<"int", a, b>>
I(n)     == IV(0, n)
MAXI     == IV(1, -1)
MINI     == IV(-1, 0)
ValidAB(a, b) == a = 0 \/ (a = 1 /\ b < 0) \/ (a = -1 /\ b >= 0)
IAdd(x, y) == <<x[2] + y[2], x[3] + y[3]>>         \* exact sum as an (a,b) pair, a \in -2..2
ISub(x, y) == <<x[2] - y[2], x[3] - y[3]>>
ILt(x, y)  == x[2] < y[2] \/ (x[2] = y[2] /\ x[3] < y[3])
Checked(p) == IF ValidAB(p[1], p[2]) THEN <<"some", IV(p[1], p[2])>> ELSE <<"none">>
Saturate(p) == IF ValidAB(p[1], p[2]) THEN IV(p[1], p[2])
               ELSE IF p[1] > 0 THEN MAXI ELSE MINI

-----------------------------------------------------------------------------
(* 2. Types.                                                                               *)

TInt   == <<"int">>
TBool  == <<"bool">>
TStr   == <<"string">>
TId    == <<"id">>
TNever == <<"never">>
TErr   == <<"error">>                \* "does not type-check"
TEnum(n)   == <<"enum", n>>
TStruct(n) == <<"struct", n>>
TOpt(t)    == <<"opt", t>>
TRes(o, e) == <<"res", o, e>>

TColor == TEnum("Color")
TP == TStruct("P")   TQ == TStruct("Q")   TS == TStruct("S")
TE == TStruct("Emp") TN == TStruct("Nest")
TSs == TStruct("Ss") TSo == TStruct("So")
TWa == TStruct("Wa")

EnumDefs == [Color |-> <<"Red", "Green", "Blue">>]

(* struct name -> sequence of <<field, type>> in definition order.
   P and Q have the same fields in a different order (cast); S is a superset of P
   (substruct, composition); Emp has no fields; Nest nests a struct and an enum.         *)
StructDefs ==
  [P    |-> << <<"a", TInt>>, <<"b", TBool>> >>,
   Q    |-> << <<"b", TBool>>, <<"a", TInt>> >>,
   S    |-> << <<"a", TInt>>, <<"b", TBool>>, <<"s", TStr>>, <<"o", TOpt(TInt)>> >>,
   Emp  |-> << >>,
   Nest |-> << <<"p", TP>>, <<"c", TColor>> >>,
   \* Ss and So each hold one field of S: with P they compose S from three sources
   Ss   |-> << <<"s", TStr>> >>,
   So   |-> << <<"o", TOpt(TInt)>> >>,
   \* "twins": same field names and the same outer type constructor, different inside.  Wa is
   \* NOT a superset of / castable to Wb, Wt, Wp: substruct, cast and composition between them
   \* are type errors (quirk family, C24) -- a check that compares only the outer constructor
   \* would accept them and the VM would fail on a Some/Ok/struct value
   Wa   |-> << <<"tag", TOpt(TStr)>>, <<"box", TOpt(TP)>>, <<"inner", TP>>, <<"res", TRes(TInt, TStr)>> >>,
   Wb   |-> << <<"tag", TOpt(TInt)>>, <<"box", TOpt(TQ)>>, <<"inner", TQ>>, <<"res", TRes(TBool, TStr)>> >>,
   Wt   |-> << <<"tag", TOpt(TInt)>> >>,
   Wp   |-> << <<"inner", TQ>> >>,
   Wr   |-> << <<"res", TRes(TBool, TStr)>> >>]
StructOrder == <<"P", "Q", "S", "Emp", "Nest", "Ss", "So", "Wa", "Wb", "Wt", "Wp", "Wr">>      \* order of definition in the document

Range(s) == {s[i] : i \in DOMAIN s}
FieldNames(sn) == {f[1] : f \in Range(StructDefs[sn])}
FieldType(sn, fn) == (CHOOSE f \in Range(StructDefs[sn]) : f[1] = fn)[2]
HasField(sn, fn) == \E f \in Range(StructDefs[sn]) : f[1] = fn

-----------------------------------------------------------------------------
(* 3. Values.                                                                              *)

VBool(b) == <<"bool", b>>
VStr(s)  == <<"str", s>>
VId(n)   == <<"id", n>>
VEnum(e, k) == <<"enum", e, k>>
VNone    == <<"none">>
VSome(v) == <<"some", v>>
VOk(v)   == <<"ok", v>>
VErr(v)  == <<"err", v>>
VStruct(n, f) == <<"struct", n, f>>          \* f: function field name -> value
VT == VBool(TRUE)
VF == VBool(FALSE)

VP(a, b) == VStruct("P", ("a" :> a) @@ ("b" :> VBool(b)))
VS(a, b, s, o) == VStruct("S", ("a" :> a) @@ ("b" :> VBool(b)) @@ ("s" :> VStr(s)) @@ ("o" :> o))

-----------------------------------------------------------------------------
(* 4. Syntax trees.  Every node is <<op, payload, kids>>; kids are nodes.

   expressions
     lit v | var x | some e | ok e | err e | not e | is[b] e
     and|or|eq|ne|lt|gt|le|ge|coalesce a b
     call[f] args        (builtins add, sub, saturating_add, saturating_sub; prelude functions)
     ffi[f] args         (foreign function vt::f)
     if c t f | block stmts e | match[patterns] scrutinee body_1 .. body_n
     dot[f] e | substruct[S] e | cast[S] e | struct[<<S, written field names, sources>>] field exprs
     todo | fail | return e
   statements
     stmts s_1 .. s_n | let[x] e | check c else_e | ret e | dassert e
     glet[x] e       (a *global* `let x = e`, e constant; written as the first statement of the
                      body, rendered in front of the function)
     ifs[hasElse] c_1 stmts_1 .. c_n stmts_n [stmts_else] | matchs[patterns] scrutinee stmts_1 .. stmts_n
   patterns:  one entry per arm, <<"default", <<>>>> or <<"pats", << p .. >>>> with
     p = <<"pv", value>> (literal) or <<"pb", "some"|"ok"|"err", x>> (binding)
   holes (generator only): hole[[t, c, d]] and shole[[rt, c, d, ed]]                        *)

N(op, a, k) == <<op, a, k>>
Lit(v)  == N("lit", v, <<>>)
Var(x)  == N("var", x, <<>>)
Call(f, args) == N("call", f, args)
Ffi(f, args)  == N("ffi", f, args)
Stmts(ss) == N("stmts", 0, ss)
RetS(e) == N("ret", 0, <<e>>)
LetS(x, e) == N("let", x, <<e>>)
PDefault == <<"default", <<>>>>
PPats(ps) == <<"pats", ps>>
PV(v) == <<"pv", v>>
PB(kind, x) == <<"pb", kind, x>>

-----------------------------------------------------------------------------
(* 5. The prelude: helper functions (as syntax trees of this very language) and foreign
      functions.  A foreign function vt::l* logs its arguments and returns its first one.  *)

Funcs ==
  [h_inc  |-> [params |-> << <<"a0", TInt>> >>, ret |-> TInt,
               body |-> << RetS(Call("saturating_add", <<Var("a0"), Lit(I(1))>>)) >>],
   h_pick |-> [params |-> << <<"c0", TBool>>, <<"a0", TInt>>, <<"a1", TInt>> >>, ret |-> TInt,
               body |-> << N("ifs", FALSE, <<Var("c0"), Stmts(<<RetS(Var("a0"))>>)>>),
                           RetS(Var("a1")) >>],
   h_pos  |-> [params |-> << <<"a0", TInt>> >>, ret |-> TOpt(TInt),
               body |-> << N("check", 0, <<N("gt", 0, <<Var("a0"), Lit(I(0))>>),
                                           N("return", 0, <<Lit(VNone)>>)>>),
                           RetS(N("some", 0, <<Var("a0")>>)) >>],
   h_mk   |-> [params |-> << <<"a0", TInt>>, <<"b0", TBool>> >>, ret |-> TP,
               body |-> << RetS(N("struct", <<"P", <<"b", "a">>, <<>>>>, <<Var("b0"), Var("a0")>>)) >>],
   h_both |-> [params |-> << <<"b0", TBool>>, <<"b1", TBool>> >>, ret |-> TBool,
               body |-> << LetS("t0", N("and", 0, <<Var("b0"), Var("b1")>>)), RetS(Var("t0")) >>]]
FuncOrder == <<"h_inc", "h_pick", "h_pos", "h_mk", "h_both">>

Ffis ==
  [li |-> [args |-> <<TInt>>,        ret |-> TInt],
   lb |-> [args |-> <<TBool>>,       ret |-> TBool],
   ls |-> [args |-> <<TStr>>,        ret |-> TStr],
   lc |-> [args |-> <<TColor>>,      ret |-> TColor],
   lo |-> [args |-> <<TOpt(TInt)>>,  ret |-> TOpt(TInt)],
   lp |-> [args |-> <<TP>>,          ret |-> TP],
   l2 |-> [args |-> <<TInt, TInt>>,  ret |-> TInt]]
FfiOrder == <<"li", "lb", "ls", "lc", "lo", "lp", "l2">>

Builtins ==
  [add            |-> [args |-> <<TInt, TInt>>, ret |-> TOpt(TInt)],
   sub            |-> [args |-> <<TInt, TInt>>, ret |-> TOpt(TInt)],
   saturating_add |-> [args |-> <<TInt, TInt>>, ret |-> TInt],
   saturating_sub |-> [args |-> <<TInt, TInt>>, ret |-> TInt]]

IsBuiltin(f) == f \in DOMAIN Builtins
SigOf(f) == IF IsBuiltin(f) THEN Builtins[f]
            ELSE [args |-> [i \in DOMAIN Funcs[f].params |-> Funcs[f].params[i][2]], ret |-> Funcs[f].ret]
Callable == DOMAIN Builtins \cup DOMAIN Funcs

Prelude == [enums |-> EnumDefs, structs |-> StructDefs, struct_order |-> StructOrder,
            funcs |-> Funcs, func_order |-> FuncOrder, ffis |-> Ffis, ffi_order |-> FfiOrder]

-----------------------------------------------------------------------------
(* 6. Reference evaluator.                                                                 *)

Val(v, l)  == [k |-> "val",   v |-> v,     log |-> l]
RetO(v, l) == [k |-> "ret",   v |-> v,     log |-> l]
Panic(l)   == [k |-> "panic", v |-> VNone, log |-> l]
Stuck(l)   == [k |-> "stuck", v |-> VNone, log |-> l]
Pre(l, r)  == [r EXCEPT !.log = l \o r.log]          \* r happened after the log l

PatMatches(p, v) == IF p[1] = "pv" THEN p[2] = v ELSE v[1] = p[2]
ArmMatches(ap, v) == ap[1] = "default" \/ \E j \in DOMAIN ap[2] : PatMatches(ap[2][j], v)
(* index of the first arm that matches, 0 if none *)
FirstArm(pats, v) ==
  LET S == {i \in DOMAIN pats : ArmMatches(pats[i], v)} IN
  IF S = {} THEN 0 ELSE CHOOSE i \in S : \A j \in S : i <= j
(* environment extension by the alternative that matched (reference: the first one) *)
ArmBind(ap, v, env) ==
  IF ap[1] = "default" THEN env
  ELSE LET J == {j \in DOMAIN ap[2] : PatMatches(ap[2][j], v)}
           j == CHOOSE j \in J : \A i \in J : j <= i
           p == ap[2][j]
       IN IF p[1] = "pb" THEN (p[3] :> v[2]) @@ env ELSE env

RECURSIVE Eval(_, _), EvalKids(_, _, _, _, _), Exec(_, _, _), ExecIf(_, _, _, _), CallFn(_, _)

(* kids ks[i..] left to right; stops at the first one that does not produce a value *)
EvalKids(ks, i, env, vs, l) ==
  IF i > Len(ks) THEN [k |-> "val", vs |-> vs, v |-> VNone, log |-> l]
  ELSE LET r == Eval(ks[i], env) IN
       IF r.k # "val" THEN [k |-> r.k, vs |-> <<>>, v |-> r.v, log |-> l \o r.log]
       ELSE EvalKids(ks, i + 1, env, Append(vs, r.v), l \o r.log)

BindArgs(params, args) == [x \in {params[i][1] : i \in DOMAIN params} |->
                             args[CHOOSE i \in DOMAIN params : params[i][1] = x]]

(* a function call: a `return` gives the value, falling off the end panics *)
RunBody(body, env) ==
  LET x == Exec(body, 1, env) IN
  CASE x.k = "ret"  -> Val(x.v, x.log)
    [] x.k = "fall" -> Panic(x.log)
    [] OTHER        -> [k |-> x.k, v |-> x.v, log |-> x.log]

FfiResult(f, args) == args[1]

(* a struct literal: written fields from the kids, the others from the first source that has them *)
StructValue(a, vs, env) ==
  LET sn == a[1] names == a[2] srcs == a[3]
      FromSrc(fn) == LET J == {j \in DOMAIN srcs : HasField(env[srcs[j]][2], fn)}
                         j == CHOOSE j \in J : \A i \in J : j <= i
                     IN env[srcs[j]][3][fn]
      Written == Range(names)
      Provided == Written \cup {fn \in FieldNames(sn) : \E j \in DOMAIN srcs : HasField(env[srcs[j]][2], fn)}
  IN VStruct(sn, [fn \in Provided |->
                    IF fn \in Written THEN vs[CHOOSE i \in DOMAIN names : names[i] = fn]
                    ELSE FromSrc(fn)])

Apply(op, a, vs, l, env) ==
  CASE op = "some" -> Val(VSome(vs[1]), l)
    [] op = "ok"   -> Val(VOk(vs[1]), l)
    [] op = "err"  -> Val(VErr(vs[1]), l)
    [] op = "not"  -> Val(VBool(~vs[1][2]), l)
    [] op = "is"   -> Val(VBool((vs[1][1] = "some") = a), l)
    [] op = "eq"   -> Val(VBool(vs[1] = vs[2]), l)
    [] op = "ne"   -> Val(VBool(vs[1] # vs[2]), l)
    [] op = "lt"   -> Val(VBool(ILt(vs[1], vs[2])), l)
    [] op = "gt"   -> Val(VBool(ILt(vs[2], vs[1])), l)
    [] op = "le"   -> Val(VBool(~ILt(vs[2], vs[1])), l)
    [] op = "ge"   -> Val(VBool(~ILt(vs[1], vs[2])), l)
    [] op = "dot"  -> IF a \in DOMAIN vs[1][3] THEN Val(vs[1][3][a], l) ELSE Stuck(l)
    [] op = "substruct" ->
         IF FieldNames(a) \subseteq DOMAIN vs[1][3]
         THEN Val(VStruct(a, [fn \in FieldNames(a) |-> vs[1][3][fn]]), l) ELSE Stuck(l)
    [] op = "cast" -> Val(VStruct(a, vs[1][3]), l)
    [] op = "struct" -> Val(StructValue(a, vs, env), l)
    [] op = "ffi"  -> Val(FfiResult(a, vs), Append(l, <<a, vs>>))
    [] op = "call" ->
         (CASE a = "add" -> Val(Checked(IAdd(vs[1], vs[2])), l)
            [] a = "sub" -> Val(Checked(ISub(vs[1], vs[2])), l)
            [] a = "saturating_add" -> Val(Saturate(IAdd(vs[1], vs[2])), l)
            [] a = "saturating_sub" -> Val(Saturate(ISub(vs[1], vs[2])), l)
            \* the generated function itself, called from the generated caller (Focus = "ret")
            [] a = "callee" -> Pre(l, RunBody(env["callee"].body, BindArgs(env["callee"].params, vs)))
            [] OTHER -> Pre(l, CallFn(a, vs)))

StrictOps == {"some", "ok", "err", "not", "is", "eq", "ne", "lt", "gt", "le", "ge",
              "dot", "substruct", "cast", "struct", "call", "ffi"}

Eval(e, env) ==
  LET op == e[1] a == e[2] ks == e[3] IN
  CASE op = "lit" -> Val(a, <<>>)
    [] op = "var" -> Val(env[a], <<>>)
    [] op \in {"todo", "fail"} -> Panic(<<>>)
    [] op = "return" ->
         LET r == Eval(ks[1], env) IN IF r.k = "val" THEN RetO(r.v, r.log) ELSE r
    [] op \in StrictOps ->
         LET rs == EvalKids(ks, 1, env, <<>>, <<>>) IN
         IF rs.k # "val" THEN [k |-> rs.k, v |-> rs.v, log |-> rs.log]
         ELSE Apply(op, a, rs.vs, rs.log, env)
    [] op = "and" ->
         LET r == Eval(ks[1], env) IN
         IF r.k # "val" THEN r
         ELSE IF r.v = VT THEN Pre(r.log, Eval(ks[2], env)) ELSE Val(VF, r.log)
    [] op = "or" ->
         LET r == Eval(ks[1], env) IN
         IF r.k # "val" THEN r
         ELSE IF r.v = VT THEN Val(VT, r.log) ELSE Pre(r.log, Eval(ks[2], env))
    [] op = "coalesce" ->
         LET r == Eval(ks[1], env) IN
         IF r.k # "val" THEN r
         ELSE IF r.v[1] = "some" THEN Val(r.v[2], r.log) ELSE Pre(r.log, Eval(ks[2], env))
    [] op = "if" ->
         LET r == Eval(ks[1], env) IN
         IF r.k # "val" THEN r
         ELSE IF r.v = VT THEN Pre(r.log, Eval(ks[2], env)) ELSE Pre(r.log, Eval(ks[3], env))
    [] op = "block" ->
         LET x == Exec(ks[1][3], 1, env) IN
         IF x.k # "fall" THEN [k |-> x.k, v |-> x.v, log |-> x.log]
         ELSE Pre(x.log, Eval(ks[2], x.env))
    [] op = "match" ->
         LET r == Eval(ks[1], env) IN
         IF r.k # "val" THEN r
         ELSE LET i == FirstArm(a, r.v) IN
              IF i = 0 THEN Stuck(r.log)
              ELSE Pre(r.log, Eval(ks[i + 1], ArmBind(a[i], r.v, env)))

(* statements ss[i..]; outcome k \in {"fall","ret","panic","stuck"}; env is meaningful for "fall" *)
Fall(env, l) == [k |-> "fall", v |-> VNone, log |-> l, env |-> env]
Abrupt(r, env) == [k |-> r.k, v |-> r.v, log |-> r.log, env |-> env]
PreX(l, x) == [x EXCEPT !.log = l \o x.log]

Exec(ss, i, env) ==
  IF i > Len(ss) THEN Fall(env, <<>>)
  ELSE
  LET s == ss[i] op == s[1] a == s[2] ks == s[3] IN
  CASE op \in {"let", "glet"} ->
         LET r == Eval(ks[1], env) IN
         IF r.k # "val" THEN Abrupt(r, env)
         ELSE PreX(r.log, Exec(ss, i + 1, (a :> r.v) @@ env))
    [] op = "check" ->
         LET r == Eval(ks[1], env) IN
         IF r.k # "val" THEN Abrupt(r, env)
         ELSE IF r.v = VT THEN PreX(r.log, Exec(ss, i + 1, env))
         ELSE LET r2 == Eval(ks[2], env) IN
              IF r2.k = "val" THEN Abrupt(Stuck(r.log \o r2.log), env)   \* else must not yield a value
              ELSE Abrupt(Pre(r.log, r2), env)
    [] op = "ret" ->
         LET r == Eval(ks[1], env) IN
         IF r.k = "val" THEN Abrupt(RetO(r.v, r.log), env) ELSE Abrupt(r, env)
    [] op = "dassert" ->
         LET r == Eval(ks[1], env) IN
         IF r.k # "val" THEN Abrupt(r, env)
         ELSE IF r.v = VT THEN PreX(r.log, Exec(ss, i + 1, env)) ELSE Abrupt(Panic(r.log), env)
    [] op = "ifs" ->
         LET x == ExecIf(ks, 1, a, env) IN
         IF x.k # "fall" THEN x ELSE PreX(x.log, Exec(ss, i + 1, env))      \* block scope ends
    [] op = "matchs" ->
         LET r == Eval(ks[1], env) IN
         IF r.k # "val" THEN Abrupt(r, env)
         ELSE LET j == FirstArm(a, r.v) IN
              IF j = 0 THEN Abrupt(Stuck(r.log), env)
              ELSE LET x == PreX(r.log, Exec(ks[j + 1][3], 1, ArmBind(a[j], r.v, env))) IN
                   IF x.k # "fall" THEN x ELSE PreX(x.log, Exec(ss, i + 1, env))

(* if / else if / else: ks = c1, stmts1, c2, stmts2, ..., [stmts_else] *)
ExecIf(ks, j, hasElse, env) ==
  IF j > Len(ks) THEN Fall(env, <<>>)
  ELSE IF j = Len(ks) /\ hasElse THEN Exec(ks[j][3], 1, env)
  ELSE LET r == Eval(ks[j], env) IN
       IF r.k # "val" THEN Abrupt(r, env)
       ELSE IF r.v = VT THEN PreX(r.log, Exec(ks[j + 1][3], 1, env))
       ELSE PreX(r.log, ExecIf(ks, j + 2, hasElse, env))

CallFn(f, args) == RunBody(Funcs[f].body, BindArgs(Funcs[f].params, args))

-----------------------------------------------------------------------------
(* 7. Typing.  ctx is a sequence of <<name, type>>.                                        *)

CtxHas(ctx, x) == \E i \in DOMAIN ctx : ctx[i][1] = x
CtxType(ctx, x) == ctx[CHOOSE i \in DOMAIN ctx : ctx[i][1] = x][2]

RECURSIVE Fits(_, _), Unify(_, _), TypeOfValue(_)
(* `a` may be used where `b` is expected *)
Fits(a, b) ==
  IF a = TErr \/ b = TErr THEN FALSE
  ELSE IF a = TNever \/ b = TNever THEN TRUE
  ELSE IF a[1] = "opt" /\ b[1] = "opt" THEN Fits(a[2], b[2])
  ELSE IF a[1] = "res" /\ b[1] = "res" THEN Fits(a[2], b[2]) /\ Fits(a[3], b[3])
  ELSE a = b
Unify(a, b) ==
  IF a = TErr \/ b = TErr THEN TErr
  ELSE IF b = TNever THEN a
  ELSE IF a = TNever THEN b
  ELSE IF a[1] = "opt" /\ b[1] = "opt" THEN
         LET u == Unify(a[2], b[2]) IN IF u = TErr THEN TErr ELSE TOpt(u)
  ELSE IF a[1] = "res" /\ b[1] = "res" THEN
         LET o == Unify(a[2], b[2]) e == Unify(a[3], b[3]) IN
         IF o = TErr \/ e = TErr THEN TErr ELSE TRes(o, e)
  ELSE IF a = b THEN a ELSE TErr
(* check_type: never becomes the target *)
CheckAs(a, target) == IF a = TNever THEN target ELSE IF Fits(a, target) THEN a ELSE TErr

TypeOfValue(v) ==
  CASE v[1] = "int"  -> TInt
    [] v[1] = "bool" -> TBool
    [] v[1] = "str"  -> TStr
    [] v[1] = "id"   -> TId
    [] v[1] = "enum" -> TEnum(v[2])
    [] v[1] = "none" -> TOpt(TNever)
    [] v[1] = "some" -> TOpt(TypeOfValue(v[2]))
    [] v[1] = "ok"   -> TRes(TypeOfValue(v[2]), TNever)
    [] v[1] = "err"  -> TRes(TNever, TypeOfValue(v[2]))
    [] v[1] = "struct" -> TStruct(v[2])

(* number of values of a type; -1 = not finitely matchable (int, string, id, empty struct) *)
RECURSIVE Card(_), CardFields(_, _)
CardFields(fs, i) == IF i > Len(fs) THEN 1
                     ELSE LET c == Card(fs[i][2]) r == CardFields(fs, i + 1) IN
                          IF c < 0 \/ r < 0 THEN -1 ELSE c * r
Card(t) ==
  CASE t[1] = "bool"  -> 2
    [] t[1] = "never" -> 0
    [] t[1] = "enum"  -> Len(EnumDefs[t[2]])
    [] t[1] = "opt"   -> IF Card(t[2]) < 0 THEN -1 ELSE Card(t[2]) + 1
    [] t[1] = "res"   -> IF Card(t[2]) < 0 \/ Card(t[3]) < 0 THEN -1 ELSE Card(t[2]) + Card(t[3])
    [] t[1] = "struct" -> IF Len(StructDefs[t[2]]) = 0 THEN -1 ELSE CardFields(StructDefs[t[2]], 1)
    [] OTHER -> -1

(* match patterns against a scrutinee type: consistent types, no duplicates, a binding is not
   followed by a literal of its variant, default last, exhaustive or defaulted *)
(* the compiler refines the scrutinee type pattern by pattern, in order: a literal pattern is
   unified into it, a binding pattern requires it to be an optional / a result *at that point*
   (so `match todo() { None => .. Some(v) => .. }` is accepted and the reverse order is not)   *)
RECURSIVE ScrutFold(_, _, _)
ScrutFold(flat, i, acc) ==
  IF acc = TErr \/ i > Len(flat) THEN acc
  ELSE LET p == flat[i] IN
       IF p[1] = "pv" THEN ScrutFold(flat, i + 1, Unify(acc, TypeOfValue(p[2])))
       ELSE IF (p[2] = "some" /\ acc[1] = "opt") \/ (p[2] \in {"ok", "err"} /\ acc[1] = "res")
            THEN ScrutFold(flat, i + 1, acc) ELSE TErr
AllPats(pats) == [i \in DOMAIN pats |-> IF pats[i][1] = "default" THEN <<>> ELSE pats[i][2]]
RECURSIVE Flatten(_)
Flatten(ss) == IF ss = <<>> THEN <<>> ELSE Head(ss) \o Flatten(Tail(ss))
RECURSIVE UnifyAll(_, _)
UnifyAll(ts, acc) == IF ts = <<>> THEN acc ELSE UnifyAll(Tail(ts), Unify(acc, Head(ts)))
PatVariant(p) == IF p[1] = "pb" THEN p[2]
                 ELSE IF p[2][1] \in {"some", "ok", "err"} THEN p[2][1] ELSE "other"
PatsOk(pats, st0) ==
  LET flat == Flatten(AllPats(pats))
      st == ScrutFold(flat, 1, st0)
      nd == Cardinality({i \in DOMAIN pats : pats[i][1] = "default"})
      Exhaustive ==
        \/ nd = 1
        \/ /\ st[1] = "opt"
           /\ \E i \in DOMAIN flat : flat[i] = PV(VNone)
           /\ \/ \E i \in DOMAIN flat : flat[i][1] = "pb"
              \/ (Card(st[2]) >= 0 /\ Card(st[2]) = Cardinality({i \in DOMAIN flat : PatVariant(flat[i]) = "some"}))
        \/ /\ st[1] = "res"
           /\ \A var \in {"ok", "err"} :
                \/ \E i \in DOMAIN flat : flat[i][1] = "pb" /\ flat[i][2] = var
                \/ LET c == Card(IF var = "ok" THEN st[2] ELSE st[3]) IN
                   c >= 0 /\ c = Cardinality({i \in DOMAIN flat : PatVariant(flat[i]) = var})
        \* counting patterns against the number of values only makes sense when every pattern is
        \* a distinct literal: not for optionals/results, whose binding patterns cover a whole
        \* variant (the compiler counted them: finding C24:match-bindings-counted-as-exhaustive)
        \/ (st[1] \notin {"opt", "res"} /\ Card(st) >= 0 /\ Card(st) <= Len(flat))
  IN /\ st # TErr
     /\ Len(pats) > 0
     /\ \A i, j \in DOMAIN flat : i # j => flat[i] # flat[j]
     /\ \A i, j \in DOMAIN flat :
          (i < j /\ flat[i][1] = "pb" /\ flat[j][1] = "pv") => PatVariant(flat[j]) # flat[i][2]
     /\ nd <= 1
     \* a binding pattern stands alone in its arm: in `Some(v) | None => e` v would be unbound
     \* (the compiler accepted it: finding C24:match-binding-alternation)
     /\ \A i \in DOMAIN pats : pats[i][1] = "pats" =>
          ((\E j \in DOMAIN pats[i][2] : pats[i][2][j][1] = "pb") => Len(pats[i][2]) = 1)
     /\ \A i \in DOMAIN pats : pats[i][1] = "default" => i = Len(pats)
     /\ Exhaustive
(* scrutinee type refined by the literal patterns *)
ScrutType(pats, st0) ==
  ScrutFold(Flatten(AllPats(pats)), 1, st0)
(* context of arm i: its binding patterns *)
ArmCtx(ap, st, ctx) ==
  IF ap[1] = "default" THEN ctx
  ELSE LET B == SelectSeq(ap[2], LAMBDA p : p[1] = "pb") IN
       ctx \o [i \in DOMAIN B |->
                 <<B[i][3], CASE B[i][2] = "some" -> st[2] [] B[i][2] = "ok" -> st[2] [] B[i][2] = "err" -> st[3]>>]
ArmNamesFresh(ap, ctx) ==
  ap[1] = "default" \/
  LET B == SelectSeq(ap[2], LAMBDA p : p[1] = "pb") IN
  /\ \A i \in DOMAIN B : ~CtxHas(ctx, B[i][3])
  /\ \A i, j \in DOMAIN B : i # j => B[i][3] # B[j][3]

(* constant expressions (global lets): literals and constructors of constants *)
RECURSIVE IsConst(_)
IsConst(e) == \/ e[1] = "lit"
              \/ (e[1] \in {"some", "ok", "err"} /\ IsConst(e[3][1]))
              \/ (e[1] = "struct" /\ e[2][3] = <<>> /\ \A i \in DOMAIN e[3] : IsConst(e[3][i]))

RECURSIVE TypeOf(_, _, _), TypeStmts(_, _, _, _), TypeIfs(_, _, _, _, _)
(* TypeOf(e, ctx, frt): frt = return type of the enclosing function *)
TypeOf(e, ctx, frt) ==
  LET op == e[1] a == e[2] ks == e[3]
      T(i) == TypeOf(ks[i], ctx, frt)
  IN
  CASE op = "lit" -> TypeOfValue(a)
    [] op = "var" -> IF CtxHas(ctx, a) THEN CtxType(ctx, a) ELSE TErr
    [] op \in {"todo", "fail"} -> TNever
    [] op = "return" -> IF Fits(T(1), frt) THEN TNever ELSE TErr
    [] op = "some" -> IF T(1) = TErr THEN TErr ELSE TOpt(T(1))
    [] op = "ok"   -> IF T(1) = TErr THEN TErr ELSE TRes(T(1), TNever)
    [] op = "err"  -> IF T(1) = TErr THEN TErr ELSE TRes(TNever, T(1))
    [] op = "not"  -> IF CheckAs(T(1), TBool) = TErr THEN TErr ELSE TBool
    [] op = "is"   -> IF T(1) # TErr /\ T(1)[1] = "opt" THEN TBool ELSE TErr
    [] op \in {"and", "or"} ->
         IF Unify(CheckAs(T(1), TBool), CheckAs(T(2), TBool)) = TErr THEN TErr ELSE TBool
    [] op \in {"lt", "gt", "le", "ge"} ->
         IF Unify(CheckAs(T(1), TInt), CheckAs(T(2), TInt)) = TErr THEN TErr ELSE TBool
    [] op \in {"eq", "ne"} -> IF Unify(T(1), T(2)) = TErr THEN TErr ELSE TBool
    [] op = "coalesce" ->
         IF T(1) = TErr \/ T(1)[1] # "opt" THEN TErr ELSE Unify(T(1)[2], T(2))
    [] op = "if" -> IF ~Fits(T(1), TBool) THEN TErr ELSE Unify(T(2), T(3))
    [] op = "block" ->
         LET c2 == TypeStmts(ks[1][3], 1, ctx, frt) IN
         IF c2 = <<TErr>> THEN TErr ELSE TypeOf(ks[2], c2, frt)
    [] op = "match" ->
         LET st0 == T(1) IN
         IF st0 = TErr \/ ~PatsOk(a, st0) \/ Len(ks) # Len(a) + 1 THEN TErr
         ELSE LET st == ScrutType(a, st0) IN
              IF \E i \in DOMAIN a : ~ArmNamesFresh(a[i], ctx) THEN TErr
              ELSE UnifyAll([i \in DOMAIN a |-> TypeOf(ks[i + 1], ArmCtx(a[i], st, ctx), frt)], TNever)
    [] op = "dot" ->
         IF T(1) # TErr /\ T(1)[1] = "struct" /\ HasField(T(1)[2], a) THEN FieldType(T(1)[2], a) ELSE TErr
    [] op = "substruct" ->
         IF T(1) # TErr /\ T(1)[1] = "struct"
            /\ \A f \in Range(StructDefs[a]) : HasField(T(1)[2], f[1]) /\ FieldType(T(1)[2], f[1]) = f[2]
         THEN TStruct(a) ELSE TErr
    [] op = "cast" ->
         IF T(1) # TErr /\ T(1)[1] = "struct"
            /\ Len(StructDefs[a]) = Len(StructDefs[T(1)[2]])
            /\ Range(StructDefs[a]) = Range(StructDefs[T(1)[2]])
         THEN TStruct(a) ELSE TErr
    [] op = "struct" ->
         LET sn == a[1] names == a[2] srcs == a[3]
             SrcOk(j) == CtxHas(ctx, srcs[j]) /\ CtxType(ctx, srcs[j])[1] = "struct"
             SrcFields(j) == FieldNames(CtxType(ctx, srcs[j])[2]) \ Range(names)
         IN
         IF /\ Len(names) = Len(ks)
            /\ \A i, j \in DOMAIN names : i # j => names[i] # names[j]
            /\ \A i \in DOMAIN names : HasField(sn, names[i]) /\ Fits(T(i), FieldType(sn, names[i]))
            /\ (srcs # <<>> => Len(names) < Len(StructDefs[sn]))
            \* every field of the struct is given, by name or by a source (the language
            \* definition; the compiler did not check it: finding C24:struct-literal-missing-field)
            /\ \A fn \in FieldNames(sn) :
                 fn \in Range(names) \/ \E j \in DOMAIN srcs : SrcOk(j) /\ fn \in SrcFields(j)
            /\ \A j \in DOMAIN srcs :
                 /\ SrcOk(j)
                 /\ \A fn \in SrcFields(j) :
                      HasField(sn, fn) /\ FieldType(sn, fn) = FieldType(CtxType(ctx, srcs[j])[2], fn)
                 /\ \A j2 \in DOMAIN srcs : j2 # j => SrcFields(j) \cap SrcFields(j2) = {}
         THEN TStruct(sn) ELSE TErr
    [] op = "call" ->
         IF a \notin Callable THEN TErr
         ELSE LET sig == SigOf(a) IN
              IF Len(sig.args) = Len(ks) /\ \A i \in DOMAIN ks : Fits(T(i), sig.args[i])
              THEN sig.ret ELSE TErr
    [] op = "ffi" ->
         IF a \notin DOMAIN Ffis THEN TErr
         ELSE LET sig == Ffis[a] IN
              IF Len(sig.args) = Len(ks) /\ \A i \in DOMAIN ks : Fits(T(i), sig.args[i])
              THEN sig.ret ELSE TErr
    [] OTHER -> TErr

(* statements ss[i..]: resulting context, or <<TErr>> *)
TypeStmts(ss, i, ctx, frt) ==
  IF i > Len(ss) THEN ctx
  ELSE
  LET s == ss[i] op == s[1] a == s[2] ks == s[3] IN
  CASE op = "let" ->
         LET t == TypeOf(ks[1], ctx, frt) IN
         IF t = TErr \/ CtxHas(ctx, a) THEN <<TErr>> ELSE TypeStmts(ss, i + 1, Append(ctx, <<a, t>>), frt)
    [] op = "glet" ->          \* a global: constant expression, first statement only
         LET t == TypeOf(ks[1], ctx, frt) IN
         IF t = TErr \/ CtxHas(ctx, a) \/ i # 1 \/ ~IsConst(ks[1]) THEN <<TErr>>
         ELSE TypeStmts(ss, i + 1, Append(ctx, <<a, t>>), frt)
    [] op = "check" ->
         IF Fits(TypeOf(ks[1], ctx, frt), TBool) /\ TypeOf(ks[2], ctx, frt) = TNever
         THEN TypeStmts(ss, i + 1, ctx, frt) ELSE <<TErr>>
    [] op = "ret" ->
         IF Fits(TypeOf(ks[1], ctx, frt), frt) THEN TypeStmts(ss, i + 1, ctx, frt) ELSE <<TErr>>
    [] op = "dassert" ->
         IF CheckAs(TypeOf(ks[1], ctx, frt), TBool) # TErr THEN TypeStmts(ss, i + 1, ctx, frt) ELSE <<TErr>>
    [] op = "ifs" ->
         IF TypeIfs(ks, 1, a, ctx, frt) THEN TypeStmts(ss, i + 1, ctx, frt) ELSE <<TErr>>
    [] op = "matchs" ->
         LET st0 == TypeOf(ks[1], ctx, frt) IN
         IF st0 = TErr \/ ~PatsOk(a, st0) \/ Len(ks) # Len(a) + 1 THEN <<TErr>>
         ELSE LET st == ScrutType(a, st0) IN
              IF /\ \A j \in DOMAIN a : ArmNamesFresh(a[j], ctx)
                 /\ \A j \in DOMAIN a : TypeStmts(ks[j + 1][3], 1, ArmCtx(a[j], st, ctx), frt) # <<TErr>>
              THEN TypeStmts(ss, i + 1, ctx, frt) ELSE <<TErr>>
    [] OTHER -> <<TErr>>
TypeIfs(ks, j, hasElse, ctx, frt) ==
  IF j > Len(ks) THEN TRUE
  ELSE IF j = Len(ks) /\ hasElse THEN TypeStmts(ks[j][3], 1, ctx, frt) # <<TErr>>
  ELSE /\ Fits(TypeOf(ks[j], ctx, frt), TBool)
       /\ TypeStmts(ks[j + 1][3], 1, ctx, frt) # <<TErr>>
       /\ TypeIfs(ks, j + 2, hasElse, ctx, frt)

(* does a tree contain a return (the compiler insists on one per function)? *)
RECURSIVE HasReturn(_)
HasReturn(n) == n[1] \in {"ret", "return"} \/ \E i \in DOMAIN n[3] : HasReturn(n[3][i])

BodyOk(body, ctx, frt) == TypeStmts(body, 1, ctx, frt) # <<TErr>> /\ HasReturn(Stmts(body))

-----------------------------------------------------------------------------
(* 8. Parameters and their test values.                                                    *)

Ctx0 == << <<"x", TInt>>, <<"y", TInt>>, <<"p", TBool>>, <<"q", TBool>>, <<"s", TStr>>,
           <<"i", TId>>, <<"j", TId>>, <<"c", TColor>>, <<"o", TOpt(TInt)>>,
           <<"r", TRes(TInt, TStr)>>, <<"u", TP>>, <<"w", TS>>, <<"n", TN>>, <<"m", TOpt(TP)>>,
           <<"k", TE>>, <<"g", TQ>>, <<"e", TSs>>, <<"f", TSo>>, <<"wa", TWa>> >>

IntDom == <<I(0), I(1), I(-1), MINI, IV(-1, 1), IV(1, -2), MAXI>>
Dom(t) ==
  CASE t = TInt   -> IntDom
    [] t = TBool  -> <<VT, VF>>
    [] t = TStr   -> <<VStr(""), VStr("a"), VStr("ab")>>
    [] t = TId    -> <<VId(1), VId(2)>>
    [] t = TColor -> <<VEnum("Color", "Red"), VEnum("Color", "Green"), VEnum("Color", "Blue")>>
    [] t = TOpt(TInt) -> <<VNone, VSome(I(0)), VSome(MAXI), VSome(I(-1))>>
    [] t = TRes(TInt, TStr) -> <<VOk(I(0)), VOk(MINI), VErr(VStr("")), VErr(VStr("a"))>>
    [] t = TP -> <<VP(I(0), TRUE), VP(MAXI, FALSE), VP(I(-1), TRUE)>>
    [] t = TS -> <<VS(I(0), TRUE, "a", VNone), VS(MINI, FALSE, "", VSome(I(1))), VS(I(1), TRUE, "ab", VSome(MAXI))>>
    [] t = TN -> <<VStruct("Nest", ("p" :> VP(I(1), FALSE)) @@ ("c" :> VEnum("Color", "Blue"))),
                   VStruct("Nest", ("p" :> VP(MINI, TRUE)) @@ ("c" :> VEnum("Color", "Red")))>>
    [] t = TOpt(TP) -> <<VNone, VSome(VP(I(0), TRUE)), VSome(VP(MAXI, FALSE))>>
    [] t = TE -> <<VStruct("Emp", <<>>)>>
    [] t = TQ -> <<VStruct("Q", ("a" :> I(0)) @@ ("b" :> VT)), VStruct("Q", ("a" :> MAXI) @@ ("b" :> VF))>>
    [] t = TSs -> <<VStruct("Ss", "s" :> VStr("ab")), VStruct("Ss", "s" :> VStr(""))>>
    [] t = TSo -> <<VStruct("So", "o" :> VSome(I(-1))), VStruct("So", "o" :> VNone)>>
    [] t = TWa -> <<VStruct("Wa", ("tag" :> VSome(VStr("a"))) @@ ("box" :> VSome(VP(I(1), TRUE)))
                                   @@ ("inner" :> VP(I(0), FALSE)) @@ ("res" :> VOk(I(1)))),
                    VStruct("Wa", ("tag" :> VNone) @@ ("box" :> VNone)
                                   @@ ("inner" :> VP(MAXI, TRUE)) @@ ("res" :> VErr(VStr(""))))>>

RECURSIVE VarsOf(_)
VarsOf(n) ==
  (IF n[1] = "var" THEN {n[2]} ELSE IF n[1] = "struct" THEN Range(n[2][3]) ELSE {})
  \cup UNION {VarsOf(n[3][i]) : i \in DOMAIN n[3]}

ParamsOf(body) == LET V == VarsOf(Stmts(body)) IN SelectSeq(Ctx0, LAMBDA pr : pr[1] \in V)

RECURSIVE ProdSize(_, _)
ProdSize(ps, i) == IF i > Len(ps) THEN 1
                   ELSE LET r == ProdSize(ps, i + 1) n == Len(Dom(ps[i][2])) IN
                        IF r * n > 100000 THEN 100000 ELSE r * n
(* all argument tuples (as sequences aligned with ps) *)
RECURSIVE AllArgs(_, _)
AllArgs(ps, i) == IF i > Len(ps) THEN {<<>>}
                  ELSE {<<v>> \o rest : v \in Range(Dom(ps[i][2])), rest \in AllArgs(ps, i + 1)}
(* EnvCap diagonal argument tuples when the product is too large *)
DiagArgs(ps) ==
  {[j \in DOMAIN ps |-> LET D == Dom(ps[j][2]) IN D[((k * j + (k \div Len(D))) % Len(D)) + 1]] : k \in 0..(EnvCap - 1)}
ArgTuples(ps) == IF ProdSize(ps, 1) <= EnvCap THEN AllArgs(ps, 1) ELSE DiagArgs(ps)
EnvOf(ps, args) == [x \in {ps[i][1] : i \in DOMAIN ps} |-> args[CHOOSE i \in DOMAIN ps : ps[i][1] = x]]

-----------------------------------------------------------------------------
(* 9. The grammar: atoms and productions per type.                                         *)

(* t: type wanted, c: context, d: remaining depth, r: return type of the enclosing function,
   w: width class of the atoms: "f" full, "n" narrow (few literals; used for the many arm bodies
      of a match), "x" exact (no atom of type `never`: the operand of `is`, `.f`, `substruct`,
      `as` and the left operand of `or` must have an optional/struct type, `todo()` does not) *)
Hole(t, ctx, d, r, w)  == N("hole", [t |-> t, c |-> ctx, d |-> d, r |-> r, w |-> w], <<>>)
SHole(t, ctx, d, ed, w) == N("shole", [t |-> t, c |-> ctx, d |-> d, ed |-> ed, w |-> w], <<>>)
Fresh(ctx) == "v" \o ToString(Len(ctx))

AllTypes == {TInt, TBool, TStr, TId, TColor, TP, TQ, TS, TE, TN, TOpt(TInt), TOpt(TP),
             TRes(TInt, TStr)}
EqTypes == AllTypes                                   \* operand types of == and !=
LetTypes == {TInt, TBool, TOpt(TInt), TP}              \* types of let-bound variables
OptTypes == {t \in AllTypes : t[1] = "opt"}

NarrowLits(t) ==
  CASE t = TInt   -> {Lit(I(1)), Lit(MAXI)}
    [] t = TBool  -> {Lit(VT), Lit(VF)}
    [] t = TStr   -> {Lit(VStr("ab"))}
    [] t = TColor -> {Lit(VEnum("Color", "Blue"))}
    [] t[1] = "opt" -> {Lit(VNone)}
    [] OTHER -> {}
LitsOf(t) ==
  CASE t = TInt   -> {Lit(I(0)), Lit(I(1)), Lit(I(-1)), Lit(MINI), Lit(MAXI)}
    [] t = TBool  -> {Lit(VT), Lit(VF)}
    [] t = TStr   -> {Lit(VStr("")), Lit(VStr("ab"))}
    [] t = TColor -> {Lit(VEnum("Color", "Red")), Lit(VEnum("Color", "Blue"))}
    [] t[1] = "opt" -> {Lit(VNone)}
    [] OTHER -> {}
VarsIn(t, ctx) == {Var(ctx[i][1]) : i \in {i \in DOMAIN ctx : ctx[i][2] = t}}

FfiFor(t) == {f \in DOMAIN Ffis : Ffis[f].ret = t /\ Len(Ffis[f].args) = 1}
FfiArgAtoms(t, ctx) ==           \* a distinguishable argument for a logging call
  CASE t = TInt -> {Lit(I(1)), Lit(I(2))}
    [] OTHER -> IF LitsOf(t) # {} THEN {CHOOSE l \in LitsOf(t) : TRUE}
                ELSE IF VarsIn(t, ctx) # {} THEN {CHOOSE v \in VarsIn(t, ctx) : TRUE} ELSE {}
EffectAtoms(t, ctx) ==
  {N("todo", 0, <<>>), N("fail", 0, <<>>)}
  \cup {Ffi(f, <<arg>>) : f \in FfiFor(t), arg \in FfiArgAtoms(t, ctx)}
  \cup (IF VarsIn(t, ctx) \cup LitsOf(t) = {} THEN {}
        ELSE LET at == CHOOSE z \in VarsIn(t, ctx) \cup LitsOf(t) : TRUE IN
             {N("block", 0, <<Stmts(<<N("check", 0, <<Lit(VF), N("fail", 0, <<>>)>>)>>), at>>)})

(* In effects mode (C23) every hole may also be a panicking, logging or check-failing
   expression; value literals are thinned out (their combinations are C22's business).        *)
FxLits(t) == CASE t = TInt -> {Lit(I(0)), Lit(MAXI)} [] OTHER -> NarrowLits(t)
OneOf(S) == IF S = {} THEN {} ELSE {CHOOSE z \in S : TRUE}
(* an early `return` from an operand position (type never): the values already on the VM's
   stack must be dropped by the callee's return sequence *)
ReturnAtoms(frt, ctx) == {N("return", 0, <<a>>) : a \in OneOf(NarrowLits(frt) \cup VarsIn(frt, ctx))}
Atoms(t, ctx, w, frt) ==
  IF Focus = "ret" THEN OneOf(NarrowLits(t)) \cup OneOf(VarsIn(t, ctx))
                        \cup (IF w = "x" THEN {} ELSE ReturnAtoms(frt, ctx))
  ELSE IF ~Effects THEN (IF w = "n" THEN NarrowLits(t) ELSE LitsOf(t)) \cup VarsIn(t, ctx)
  ELSE IF w = "n" THEN OneOf(NarrowLits(t) \cup VarsIn(t, ctx)) \cup {N("todo", 0, <<>>)}
                 \cup OneOf({Ffi(f, <<arg>>) : f \in FfiFor(t), arg \in FfiArgAtoms(t, ctx)})
  ELSE FxLits(t) \cup VarsIn(t, ctx)
       \cup (IF w = "x" THEN {a \in EffectAtoms(t, ctx) : a[1] \notin {"todo", "fail"}}
             ELSE EffectAtoms(t, ctx) \cup ReturnAtoms(frt, ctx))

(* match pattern catalogues per scrutinee type: sequences of arm patterns; a negative literal is
   only written in the first arm (the concrete syntax reads `(e) -1` as a subtraction)       *)
MatchShapes(st, ctx) ==
  CASE st = TInt ->
         { <<PPats(<<PV(I(0))>>), PDefault>>,
           <<PPats(<<PV(MINI), PV(I(1))>>), PPats(<<PV(MAXI)>>), PDefault>> }
    [] st = TBool ->
         { <<PPats(<<PV(VT)>>), PPats(<<PV(VF)>>)>>,
           <<PPats(<<PV(VF)>>), PDefault>>,
           <<PPats(<<PV(VT), PV(VF)>>)>> }
    [] st = TStr ->
         { <<PPats(<<PV(VStr("a"))>>), PPats(<<PV(VStr("")), PV(VStr("ab"))>>), PDefault>> }
    [] st = TColor ->
         { <<PPats(<<PV(VEnum("Color", "Red"))>>), PPats(<<PV(VEnum("Color", "Green"))>>),
             PPats(<<PV(VEnum("Color", "Blue"))>>)>>,
           <<PPats(<<PV(VEnum("Color", "Blue")), PV(VEnum("Color", "Red"))>>), PDefault>> }
    [] st = TOpt(TInt) ->
         { <<PPats(<<PB("some", Fresh(ctx))>>), PPats(<<PV(VNone)>>)>>,
           <<PPats(<<PV(VNone)>>), PDefault>>,
           <<PPats(<<PV(VSome(I(0)))>>), PPats(<<PB("some", Fresh(ctx))>>), PPats(<<PV(VNone)>>)>>,
           <<PPats(<<PV(VSome(MAXI)), PV(VNone)>>), PDefault>> }
    [] st = TOpt(TP) ->
         { <<PPats(<<PV(VNone)>>), PPats(<<PB("some", Fresh(ctx))>>)>> }
    [] st = TRes(TInt, TStr) ->
         { <<PPats(<<PB("ok", Fresh(ctx))>>), PPats(<<PB("err", Fresh(ctx))>>)>>,
           <<PPats(<<PV(VOk(I(0)))>>), PPats(<<PB("err", Fresh(ctx))>>), PDefault>>,
           <<PPats(<<PV(VErr(VStr("a"))), PV(VOk(MINI))>>), PPats(<<PB("ok", Fresh(ctx))>>), PDefault>> }
    [] st = TP ->
         { <<PPats(<<PV(VP(I(0), TRUE))>>), PDefault>> }
    [] OTHER -> {}
(* accepted by the compiler but odd: one arm mixes a binding with patterns of another variant *)
QuirkShapes(st, ctx) ==
  CASE st = TOpt(TInt) -> { <<PPats(<<PB("some", Fresh(ctx)), PV(VNone)>>)>>,
                            <<PPats(<<PV(VNone), PB("some", Fresh(ctx))>>)>> }
    [] st = TRes(TInt, TStr) ->
         { <<PPats(<<PB("ok", Fresh(ctx)), PB("err", Fresh(ctx) \o "e")>>)>> }
    [] OTHER -> {}
(* the scrutinee may be of type `never` unless the first pattern is a binding (see ScrutFold) *)
BindingFirst(sh) == sh[1][1] = "pats" /\ sh[1][2][1][1] = "pb"
MatchTypes == {TInt, TBool, TStr, TColor, TOpt(TInt), TOpt(TP), TRes(TInt, TStr), TP}

(* templates (trees with holes one level below) whose value has type t *)
Prods(t, ctx, d, frt) ==
  LET W == IF Focus \in {"ops", "ret"} THEN "n" ELSE "f"
      H(t1) == Hole(t1, ctx, d - 1, frt, W)
      HC(t1, c1) == Hole(t1, c1, d - 1, frt, W)
      HN(t1, c1) == Hole(t1, c1, d - 1, frt, "n")
      HX(t1) == Hole(t1, ctx, d - 1, frt, "x")
      v == Fresh(ctx)
      Generic ==
        {N("if", 0, <<H(TBool), H(t), H(t)>>)}
        \cup {N("block", 0, <<Stmts(<<LetS(v, H(lt))>>), HC(t, Append(ctx, <<v, lt>>))>>) : lt \in LetTypes}
        \cup {N("block", 0, <<Stmts(<<N("check", 0, <<H(TBool), N("return", 0, <<H(frt)>>)>>)>>), H(t)>>)}
        \cup {N("block", 0, <<Stmts(<<N("dassert", 0, <<H(TBool)>>)>>), H(t)>>)}
        \cup (IF TOpt(t) \in AllTypes THEN {N("coalesce", 0, <<HX(TOpt(t)), H(t)>>)} ELSE {})
        \cup UNION {{N("dot", StructDefs[sn][i][1], <<HX(TStruct(sn))>>) :
                       i \in {i \in DOMAIN StructDefs[sn] : StructDefs[sn][i][2] = t}} :
                    sn \in {sn \in DOMAIN StructDefs : TStruct(sn) \in AllTypes}}
        \cup {Call(f, [i \in DOMAIN Funcs[f].params |-> H(Funcs[f].params[i][2])]) :
                f \in {f \in DOMAIN Funcs : Funcs[f].ret = t}}
        \cup (IF Effects THEN {Ffi(f, [i \in DOMAIN Ffis[f].args |-> H(Ffis[f].args[i])]) :
                                 f \in {f \in DOMAIN Ffis : Ffis[f].ret = t}} ELSE {})
        \cup UNION {{N("match", sh, <<(IF BindingFirst(sh) THEN HX(st) ELSE H(st))>> \o [i \in DOMAIN sh |-> HN(t, ArmCtx(sh[i], st, ctx))]) :
                       sh \in MatchShapes(st, ctx)} : st \in MatchTypes}
      Specific ==
        CASE t = TInt ->
               {Call(f, <<H(TInt), H(TInt)>>) : f \in {"saturating_add", "saturating_sub"}}
          [] t = TBool ->
               {N(op, 0, <<H(TBool), H(TBool)>>) : op \in {"and", "or"}}
               \cup {N("not", 0, <<H(TBool)>>)}
               \cup {N(op, 0, <<H(TInt), H(TInt)>>) : op \in {"lt", "gt", "le", "ge"}}
               \cup {N(op, 0, <<H(et), H(et)>>) : op \in {"eq", "ne"},
                       et \in IF Focus = "ops" THEN {TInt, TBool, TOpt(TInt)} ELSE EqTypes}
               \cup {N("is", b, <<HX(ot)>>) : b \in BOOLEAN, ot \in OptTypes}
          [] t = TOpt(TInt) ->
               {Call(f, <<H(TInt), H(TInt)>>) : f \in {"add", "sub"}} \cup {N("some", 0, <<H(TInt)>>)}
          [] t[1] = "opt" -> {N("some", 0, <<H(t[2])>>)}
          [] t[1] = "res" -> {N("ok", 0, <<H(t[2])>>), N("err", 0, <<H(t[3])>>)}
          [] t = TP ->
               {N("struct", <<"P", <<"a", "b">>, <<>>>>, <<H(TInt), H(TBool)>>),
                N("struct", <<"P", <<"b", "a">>, <<>>>>, <<H(TBool), H(TInt)>>),
                N("cast", "P", <<HX(TQ)>>), N("substruct", "P", <<HX(TS)>>)}
               \cup {N("struct", <<"P", <<"a">>, <<sv[2]>>>>, <<H(TInt)>>) :
                       sv \in {sv \in VarsIn(TP, ctx) \cup VarsIn(TQ, ctx) : TRUE}}
          [] t = TQ -> {N("cast", "Q", <<HX(TP)>>), N("substruct", "Q", <<HX(TS)>>),
                        N("struct", <<"Q", <<"a", "b">>, <<>>>>, <<H(TInt), H(TBool)>>)}
          [] t = TE -> {N("substruct", "Emp", <<HX(TP)>>), N("substruct", "Emp", <<HX(TS)>>),
                        N("struct", <<"Emp", <<>>, <<>>>>, <<>>)}
          [] t = TS ->
               {N("struct", <<"S", <<"s", "o", "a", "b">>, <<>>>>, <<H(TStr), H(TOpt(TInt)), H(TInt), H(TBool)>>)}
               \cup {N("struct", <<"S", <<"o", "s">>, <<sv[2]>>>>, <<H(TOpt(TInt)), H(TStr)>>) : sv \in VarsIn(TP, ctx)}
               \* composition from two and three sources (in both orders)
               \cup (IF CtxHas(ctx, "u") /\ CtxHas(ctx, "e") /\ CtxHas(ctx, "f")
                     THEN {N("struct", <<"S", <<>>, srcs>>, <<>>) :
                             srcs \in {<<"u", "e", "f">>, <<"f", "u", "e">>, <<"e", "f", "u">>}}
                          \cup {N("struct", <<"S", <<"s">>, srcs>>, <<H(TStr)>>) : srcs \in {<<"u", "f">>, <<"f", "u">>}}
                          \cup {N("struct", <<"S", <<"b", "a">>, <<"f", "e">>>>, <<H(TBool), H(TInt)>>)}
                     ELSE {})
          [] t = TN -> {N("struct", <<"Nest", <<"p", "c">>, <<>>>>, <<H(TP), H(TColor)>>)}
          [] OTHER -> {}
      (* programs the compiler (today) accepts although they are outside the type system: an arm
         that mixes a binding with a pattern of another variant, a struct literal that leaves
         a field out (returned, compared, or read)                                             *)
      Partial == N("struct", <<"P", <<"a">>, <<>>>>, <<H(TInt)>>)
      Quirky ==
        UNION {{N("match", sh, <<HX(st)>> \o [i \in DOMAIN sh |-> HN(t, ArmCtx(sh[i], st, ctx))]) :
                  sh \in QuirkShapes(st, ctx)} : st \in MatchTypes}
        \cup {N("dot", StructDefs["P"][i][1], <<Var("g0")>>) :
                i \in {i \in DOMAIN StructDefs["P"] : CtxHas(ctx, "g0") /\ StructDefs["P"][i][2] = t}}
        \* three binding arms for the three values of option[bool], no None arm
        \cup {N("match", sh, <<HX(TOpt(TBool))>> \o [i \in DOMAIN sh |-> HN(t, ArmCtx(sh[i], TOpt(TBool), ctx))]) :
                sh \in {<<PPats(<<PB("some", Fresh(ctx))>>), PPats(<<PB("some", Fresh(ctx) \o "b")>>),
                          PPats(<<PB("some", Fresh(ctx) \o "c")>>)>>}}
        \cup (IF CtxHas(ctx, "g0") /\ t = TInt
              THEN {Call("saturating_add", <<N("dot", "a", <<Var("g0")>>), H(TInt)>>)} ELSE {})
        \cup (IF CtxHas(ctx, "g0") /\ t = TBool THEN {N("not", 0, <<N("dot", "b", <<Var("g0")>>)>>)} ELSE {})
        \* substruct / cast / composition between the twin structs
        \cup (IF t[1] = "struct" /\ t[2] \in {"Wb", "Wt", "Wp", "Wr"} /\ CtxHas(ctx, "wa")
              THEN {N("substruct", t[2], <<Var("wa")>>)}
                   \cup (IF t[2] = "Wb" THEN {N("cast", "Wb", <<Var("wa")>>),
                                              N("struct", <<"Wb", <<>>, <<"wa">>>>, <<>>)} ELSE {})
              ELSE {})
        \cup (CASE t = TP -> {Partial}
                [] t = TBool -> {N("dot", "b", <<Partial>>), N("eq", 0, <<Partial, H(TP)>>)}
                [] t = TInt -> {N("dot", "a", <<N("cast", "Q", <<Partial>>)>>)}
                [] OTHER -> {})
      (* operator nests: of the two operands of a binary operator only one is expanded further *)
      Zero(k) == <<k[1], [k[2] EXCEPT !.d = 0], k[3]>>
      OneSided(tp) ==
        LET HI == {i \in DOMAIN tp[3] : tp[3][i][1] = "hole"} IN
        IF Cardinality(HI) <= 1 \/ d <= 1 THEN {tp}
        ELSE {<<tp[1], tp[2], [i \in DOMAIN tp[3] |-> IF i \in HI /\ i # j THEN Zero(tp[3][i]) ELSE tp[3][i]]>> : j \in HI}
      OpsAll ==
        (IF TOpt(t) \in AllTypes THEN {N("coalesce", 0, <<HX(TOpt(t)), H(t)>>)} ELSE {})
        \cup UNION {{N("dot", StructDefs[sn][i][1], <<HX(TStruct(sn))>>) :
                       i \in {i \in DOMAIN StructDefs[sn] : StructDefs[sn][i][2] = t}} : sn \in {"P", "S"}}
        \cup (IF t \in {TInt, TBool, TOpt(TInt), TP, TQ} THEN Specific ELSE {})
      OpsOnly == UNION {OneSided(tp) : tp \in OpsAll}
      (* constructs that hold already evaluated operands on the VM stack while a later operand
         is evaluated: an early `return` in that operand must discard all of them *)
      v0 == Fresh(ctx)
      RetAll ==
        {Call(f, [i \in DOMAIN Funcs[f].params |-> H(Funcs[f].params[i][2])]) :
           f \in {f \in DOMAIN Funcs : Funcs[f].ret = t}}
        \cup {N("match", sh, <<H(TOpt(TInt))>> \o [i \in DOMAIN sh |-> HN(t, ArmCtx(sh[i], TOpt(TInt), ctx))]) :
                sh \in {<<PPats(<<PV(VNone)>>), PPats(<<PB("some", v0)>>)>>}}
        \cup (CASE t = TInt -> {Call(f, <<H(TInt), H(TInt)>>) : f \in {"saturating_add", "saturating_sub"}}
                [] t = TBool -> {N(op, 0, <<H(TInt), H(TInt)>>) : op \in {"lt", "eq"}}
                [] t = TOpt(TInt) -> {Call("add", <<H(TInt), H(TInt)>>), N("some", 0, <<H(TInt)>>)}
                [] t = TP -> {N("struct", <<"P", <<"a", "b">>, <<>>>>, <<H(TInt), H(TBool)>>)}
                [] OTHER -> {})
      RetNest == UNION {OneSided(tp) : tp \in RetAll}
  IN IF Quirks /\ d = MaxDepth THEN Quirky
     ELSE IF Focus = "ops" THEN OpsOnly
     ELSE IF Focus = "ret" THEN RetNest
     ELSE Generic \cup Specific

(* statement-list templates for a function returning frt: a list that always ends in a return *)
SProds(frt, ctx, d, ed, w) ==
  LET E(t1) == Hole(t1, ctx, ed, frt, "f")
      EN(t1) == Hole(t1, ctx, ed, frt, "n")
      ES(t1, sh) == Hole(t1, ctx, ed, frt, IF BindingFirst(sh) THEN "x" ELSE "f")
      v == Fresh(ctx)
      K(c1) == SHole(frt, c1, d - 1, ed, w)           \* continuation of this list
      B(c1) == SHole(frt, c1, d - 1, ed, "n")         \* body of a nested block (narrow)
  IN
  {<<N("let", v, <<E(lt)>>), K(Append(ctx, <<v, lt>>))>> : lt \in LetTypes}
  \cup {<<N("check", 0, <<E(TBool), N("return", 0, <<E(frt)>>)>>), K(ctx)>>}
  \cup {<<N("check", 0, <<E(TBool), N("fail", 0, <<>>)>>), K(ctx)>>}
  \cup {<<N("dassert", 0, <<E(TBool)>>), K(ctx)>>}
  \cup {<<N("ifs", TRUE, <<E(TBool), Stmts(<<B(ctx)>>), Stmts(<<B(ctx)>>)>>)>>}
  \cup {<<N("ifs", FALSE, <<E(TBool), Stmts(<<B(ctx)>>)>>), K(ctx)>>}
  \cup {<<N("ifs", FALSE, <<E(TBool), Stmts(<<N("let", v, <<E(TInt)>>)>>)>>), K(ctx)>>}
  \cup {<<N("ifs", TRUE, <<E(TBool), Stmts(<<B(ctx)>>), E(TBool), Stmts(<<B(ctx)>>), Stmts(<<B(ctx)>>)>>)>>}
  \* else-if chains *without* a final else whose earlier bodies fall through: after a taken
  \* branch the later conditions and bodies must not run
  \cup {<<N("ifs", FALSE, <<E(TBool), Stmts(<<>>), E(TBool), Stmts(<<B(ctx)>>)>>), K(ctx)>>}
  \cup {<<N("ifs", FALSE, <<EN(TBool), Stmts(<<>>), EN(TBool), Stmts(<<>>), E(TBool), Stmts(<<B(ctx)>>)>>), K(ctx)>>}
  \cup UNION {{<<N("matchs", sh, <<ES(st, sh)>> \o [i \in DOMAIN sh |-> Stmts(<<B(ArmCtx(sh[i], st, ctx))>>)])>> :
                 sh \in MatchShapes(st, ctx)} : st \in MatchTypes}
  \cup UNION {{<<N("matchs", sh, <<ES(st, sh)>> \o [i \in DOMAIN sh |->
                                   IF i = 1 THEN Stmts(<<B(ArmCtx(sh[i], st, ctx))>>) ELSE Stmts(<<>>)]), K(ctx)>> :
                 sh \in MatchShapes(st, ctx)} : st \in {TBool, TOpt(TInt)}}

(* the choices for a hole: complete trees or templates.  A statement hole is replaced by a
   *sequence* of statements spliced into the enclosing list.                                *)
ExprChoices(h, kind) == IF kind = "atom" THEN Atoms(h.t, h.c, h.w, h.r)
                        ELSE IF h.d > 0 THEN Prods(h.t, h.c, h.d, h.r) ELSE {}
StmtChoices(h, kind) == IF kind = "atom" THEN {<<RetS(Hole(h.t, h.c, h.ed, h.t, h.w))>>}
                        ELSE IF h.d > 0 THEN SProds(h.t, h.c, h.d, h.ed, h.w) ELSE {}

-----------------------------------------------------------------------------
(* 10. The same grammar as sets (Exprs), and the untyped variant (AnyExprs).              *)

RECURSIVE SeqProduct(_, _)
SeqProduct(sets, i) == IF i > Len(sets) THEN {<<>>}
                       ELSE {<<x>> \o rest : x \in sets[i], rest \in SeqProduct(sets, i + 1)}
RECURSIVE Exprs(_, _, _, _, _), Inst(_)
(* every way of filling the holes of a template with complete expressions of the hole depth *)
Inst(n) == IF n[1] = "hole" THEN Exprs(n[2].d, n[2].t, n[2].c, n[2].r, n[2].w)
           ELSE {<<n[1], n[2], ks>> : ks \in SeqProduct([i \in DOMAIN n[3] |-> Inst(n[3][i])], 1)}
Exprs(d, t, ctx, frt, w) ==
  Atoms(t, ctx, w, frt) \cup (IF d = 0 THEN {} ELSE UNION {Inst(p) : p \in Prods(t, ctx, d, frt)})

AnyAtoms == IF Effects THEN UNION {LitsOf(t) : t \in AllTypes} \cup {Var(Ctx0[i][1]) : i \in DOMAIN Ctx0}
            ELSE {Lit(I(0)), Lit(MAXI), Lit(VT), Lit(VStr("ab")), Lit(VEnum("Color", "Red")), Lit(VNone),
                  Var("x"), Var("p"), Var("s"), Var("c"), Var("o"), Var("r"), Var("u"), Var("w"), Var("k"), Var("g"),
                  Var("wa")}
AnyUnary == {<<"some", 0>>, <<"ok", 0>>, <<"err", 0>>, <<"not", 0>>, <<"is", TRUE>>, <<"is", FALSE>>,
             <<"return", 0>>}
            \cup {<<"dot", f>> : f \in {"a", "b", "s", "o", "p", "c"}}
            \cup {<<op, sn>> : op \in {"substruct", "cast"}, sn \in DOMAIN StructDefs}
            \cup {<<"call", f>> : f \in {"h_inc", "h_pos"}}
AnyBinary == {<<op, 0>> : op \in {"and", "or", "eq", "ne", "lt", "gt", "le", "ge", "coalesce"}}
             \cup {<<"call", f>> : f \in DOMAIN Builtins \cup {"h_mk", "h_both"}}
RECURSIVE AnyExprs(_)
AnyExprs(d) ==
  IF d = 0 THEN AnyAtoms
  ELSE LET S == AnyExprs(d - 1) IN
       S \cup {N(u[1], u[2], <<x>>) : u \in AnyUnary, x \in S}
         \cup {N(b[1], b[2], <<x, y>>) : b \in AnyBinary, x \in S, y \in S}
         \cup {N("if", 0, <<cnd, x, y>>) : cnd \in {z \in S : z[1] = "var" \/ z[2] \in {VT, VF}}, x \in S, y \in S}

-----------------------------------------------------------------------------
(* 11. Derivation: one action replaces the left-most hole.                                 *)

IsHole(n) == n[1] \in {"hole", "shole"}
RECURSIVE FirstHole(_), FirstHoleIn(_, _)
FirstHole(n) == IF IsHole(n) THEN [f |-> TRUE, p |-> <<>>] ELSE FirstHoleIn(n[3], 1)
FirstHoleIn(ks, i) ==
  IF i > Len(ks) THEN [f |-> FALSE, p |-> <<>>]
  ELSE LET r == FirstHole(ks[i]) IN
       IF r.f THEN [f |-> TRUE, p |-> <<i>> \o r.p] ELSE FirstHoleIn(ks, i + 1)
RECURSIVE NodeAt(_, _), SubstE(_, _, _), SpliceS(_, _, _)
NodeAt(n, p) == IF p = <<>> THEN n ELSE NodeAt(n[3][p[1]], Tail(p))
(* replace the expression hole at p *)
SubstE(n, p, new) == IF p = <<>> THEN new
                     ELSE <<n[1], n[2], [n[3] EXCEPT ![p[1]] = SubstE(n[3][p[1]], Tail(p), new)]>>
(* replace the statement hole at p (an element of a stmts node) by a sequence of statements *)
SpliceS(n, p, new) ==
  IF Len(p) = 1 THEN <<n[1], n[2], SubSeq(n[3], 1, p[1] - 1) \o new \o SubSeq(n[3], p[1] + 1, Len(n[3]))>>
  ELSE <<n[1], n[2], [n[3] EXCEPT ![p[1]] = SpliceS(n[3][p[1]], Tail(p), new)]>>

(* global struct constants: a correct one, one with ill-typed fields, one with a field missing
   (the compiler checked neither: finding C24:global-struct-literal-unchecked)                *)
GlobalConsts ==
  {N("struct", <<"P", <<"a", "b">>, <<>>>>, <<Lit(I(1)), Lit(VT)>>),
   N("struct", <<"P", <<"a", "b">>, <<>>>>, <<Lit(VT), Lit(I(1))>>),
   N("struct", <<"P", <<"a">>, <<>>>>, <<Lit(MAXI)>>)}

Init ==
  /\ rt \in RetTypes
  /\ ast \in {Stmts(<<SHole(rt, Ctx0, StmtDepth, MaxDepth, "f")>>)}
             \cup (IF Quirks THEN {Stmts(<<N("glet", "g0", <<c>>),
                                            SHole(rt, Append(Ctx0, <<"g0", TP>>), StmtDepth, MaxDepth, "f")>>) :
                                     c \in GlobalConsts}
                   ELSE {})
  /\ phase = "gen"
  /\ pick = "none"

LeftMost == NodeAt(ast, FirstHole(ast).p)
Choices(h, kind) == IF h[1] = "hole" THEN ExprChoices(h[2], kind) ELSE StmtChoices(h[2], kind)

(* first decide whether the left-most hole becomes an atom or a production (so that a random
   derivation stops at every hole with probability 1/2 and stays small), ...                 *)
Choose ==
  /\ phase = "gen" /\ pick = "none"
  /\ \E kind \in {"atom", "prod"} : Choices(LeftMost, kind) # {} /\ pick' = kind
  /\ UNCHANGED <<ast, rt, phase>>

(* ... then which one *)
Expand ==
  /\ phase = "gen" /\ pick # "none"
  /\ LET p == FirstHole(ast).p
         h == LeftMost
     IN \E c \in Choices(h, pick) :
          ast' = IF h[1] = "hole" THEN SubstE(ast, p, c) ELSE SpliceS(ast, p, c)
  /\ phase' = IF FirstHole(ast').f THEN "gen" ELSE "done"
  /\ pick' = "none"
  /\ UNCHANGED rt

Next == Choose \/ Expand
Spec == Init /\ [][Next]_vars

-----------------------------------------------------------------------------
(* 12. What is emitted, and the spec-level invariants.                                     *)

Body == ast[3]
Params == ParamsOf(Body)
OutcomeOf(args) == RunBody(Body, EnvOf(Params, args))
RECURSIVE CountFx(_)
CountFx(n) == (IF n[1] \in {"todo", "fail", "ffi"} THEN 1 ELSE 0)
              + (IF n[3] = <<>> THEN 0
                 ELSE LET RECURSIVE Sum(_) Sum(i) == IF i > Len(n[3]) THEN 0 ELSE CountFx(n[3][i]) + Sum(i + 1)
                      IN Sum(1))
Done == phase = "done"

(* One invariant evaluates every argument tuple once, checks the spec-level properties of
   the finished derivation and prints it:
     WellTyped     the generator only derives programs the spec's own type system accepts
     NoStuck       a well-typed program has a semantics for every argument tuple
     Preservation  a function returning rt returns a value of type rt
   (Quirks-mode programs are accepted by the real compiler but outside the type system.)    *)
(* Focus = "ret": the derived function is the callee; the caller passes its parameters on and
   uses the result as a non-first operand (the value beneath it on the VM stack matters)      *)
CallerOf(ps) ==
  LET call == Call("callee", [i \in DOMAIN ps |-> Var(ps[i][1])]) IN
  CASE rt = TInt  -> [crt |-> TInt,  body |-> <<RetS(Call("saturating_add", <<Lit(I(0)), call>>))>>]
    [] rt = TBool -> [crt |-> TBool, body |-> <<RetS(N("eq", 0, <<Lit(VT), call>>))>>]
    [] rt = TOpt(TInt) -> [crt |-> TInt, body |-> <<RetS(Call("saturating_add", <<Lit(I(0)), N("coalesce", 0, <<call, Lit(I(0))>>)>>))>>]
    [] rt = TP    -> [crt |-> TInt,  body |-> <<RetS(Call("h_pick", <<Lit(VT), N("dot", "a", <<call>>), Lit(I(5))>>))>>]
Emit ==
  Done =>
    LET ps == Params
        A == ArgTuples(ps)
        typed == BodyOk(Body, ps, rt)
        withCaller == Focus = "ret"
        cl == CallerOf(ps)
        Run(a) == IF withCaller
                  THEN RunBody(cl.body, EnvOf(ps, a) @@ ("callee" :> [params |-> ps, body |-> Body]))
                  ELSE RunBody(Body, EnvOf(ps, a))
        E == IF typed THEN {[args |-> a, exp |-> Run(a)] : a \in A}
             ELSE {[args |-> a, exp |-> [k |-> "skip", v |-> VNone, log |-> <<>>]] : a \in A}
        base == [rt |-> rt, params |-> ps, body |-> Body, typed |-> typed, fx |-> CountFx(ast), envs |-> E]
    IN \* deeper derivations may bind a variable of type `never` (the type of `None`'s content)
       \* and use it where a struct/optional is required: the type system rejects those,
       \* they are emitted as untyped candidates (C24) and not evaluated
       /\ Assert(typed \/ Quirks \/ MaxDepth > 1, <<"generator derived an ill-typed program", Body>>)
       /\ Assert(\A e \in E : e.exp.k \in {"val", "panic", "skip"}, <<"stuck", Body>>)
       /\ Assert(\A e \in E : e.exp.k = "val" => Fits(TypeOfValue(e.exp.v), IF withCaller THEN cl.crt ELSE rt),
                 <<"value of the wrong type", Body>>)
       /\ PrintT("REPLAY " \o ToJson(IF withCaller THEN base @@ [crt |-> cl.crt, caller |-> cl.body] ELSE base))

PreludeLine == PrintT("PRINT PRELUDE " \o ToJson(Prelude))
=============================================================================
