\* Self-test: an open lookup that trusts the cached slot without comparing the id must be rejected (C41).
SPECIFICATION Spec
CONSTANTS
  Readers = {1}
  Cap = 4
  WScripts <- ScriptsOpenMove
  ROps = 3
  Mutant = "open_hint_unchecked"
INVARIANTS RemovalEffective
CHECK_DEADLOCK FALSE
