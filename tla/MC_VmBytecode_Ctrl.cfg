\* C25 quick+thorough: every 3- and 4-instruction tree over the control alphabet (call-state stack,
\* scope stack, jumps) from value stacks of depth 0..2
SPECIFICATION Spec
CONSTANTS
  Lens = {3, 4}
  MaxInit = 2
  Budget = 12
  CellSet <- CtrlCells
  InitSet <- CtrlInits
INVARIANTS OutcomeDefined StackBounded TypeOK Emit
CHECK_DEADLOCK FALSE
