SPECIFICATION Spec
CONSTANTS
  Schemes = {"wrap"}
  MaxTamper = 2
  HashModel = "tuple"
  PLens = {0}
  DataLens = {0}
INVARIANTS AcceptIffUnchanged IdAgreement NoBothEnds OnlyRightful Emit
CHECK_DEADLOCK FALSE
