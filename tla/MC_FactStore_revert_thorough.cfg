\* C13 thorough tier: from three canned contexts (init perspective / perspective over an index /
\* perspective over a mid-segment reconstruction) every interleaving of insert, delete,
\* add_command, checkpoint, revert within the bounds, then write and reopen the written
\* segment at each command; RevertExact on every transition; one S2I behaviour per transition.
INIT RevInit
NEXT Next
CONSTANTS
  Names = {"x"}
  Keys <- MCKey1
  ValChoice <- MCVal
  OpenCands <- Locs
  MergeCands <- AllPairs
  MaxDepth = 3
  Record = TRUE
  Fat = FALSE
  MaxSegs = 2
  MaxCmds = 2
  MaxCur = 2
  MaxCps = 2
  MaxTotCmds = 3
  MaxTotUps = 4
  MaxFUps = 0
  MaxIdx = 4
  NoErr = TRUE
  SimDepth = 0
ACTION_CONSTRAINT EmitRevKey
VIEW View
INVARIANTS SegRefines MidRefines PerspRefines FactPerspRefines ChainOK PriorFactsOK
PROPERTIES RevertExact
CHECK_DEADLOCK FALSE
