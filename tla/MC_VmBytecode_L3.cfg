\* C25: every 3-instruction prefix tree from the empty stack
SPECIFICATION Spec
CONSTANTS
  Lens = {3}
  MaxInit = 0
  Budget = 8
  CellSet <- AllCells
  InitSet <- AllInits
INVARIANTS OutcomeDefined StackBounded TypeOK Emit
CHECK_DEADLOCK FALSE
