------------------------------- MODULE AfcMessage -------------------------------
(* C39 — `aranya_fast_channels::Client::{seal, seal_in_place, open, open_in_place}` and
   `DataHeader::try_parse` (crates/aranya-fast-channels/src/{client,header}.rs).

   Wire layout of one AFC data message (as `seal` writes it):

        ciphertext (n bytes) || tag (TagSize = 16) || header (HdrSize = 8: seq, little endian)

   The spec is a *symbolic byte* model.  Every byte a seal produces is a distinct integer
   token, except that header bytes are a function of the sequence number only (two messages
   with the same seq have byte-identical headers, whatever channel they come from):

        ciphertext byte i of message m   = m*MsgBase + i              (1 <= i <= n)
        tag byte j of message m          = m*MsgBase + TagBase + j    (1 <= j <= 16)
        header byte j encoding seq s     = HdrBase + s*8 + j          (1 <= j <= 8)
        modified / arbitrary byte at i   = -i  (never equal to a produced byte)

   The AEAD is ideal: `Verify(key, label, seq, ct, tag)` holds iff some message sealed
   under exactly (key, label, seq) has exactly these ciphertext and tag bytes.

   Machine: `Seal(n)` (one per `Client::seal*` call; the channel's sequence counter advances),
   `SealSmallDst` (seal into a too small destination: error, counter untouched),
   `Present(t, op)` (the environment builds a byte string from sealed message t),
   `Open(iface, dst, opener)` (one per `Client::open` / `open_in_place` call; total over
   *all* byte strings including those shorter than header+tag).

   Properties (checked by TLC): `AcceptOnlyAuthentic`, `AuthenticAccepted`, `ReturnsWhatWasSealed`,
   `Total`, `SeqDense`.  Each maximal behaviour is emitted (`Emit`) and replayed into the real
   client by `vh-crypto afcmsg`, which decides C39 on the real code.                          *)
EXTENDS Integers, Sequences, FiniteSets, TLC, Json

CONSTANTS MaxLen,      \* plaintext lengths 0..MaxLen ...
          BigLens,     \* ... plus these
          MaxMsgs,     \* messages sealed on the channel before the open
          MaxJunk,     \* arbitrary byte strings of length 0..MaxJunk are presented to open
          SmallSeal    \* TRUE: also explore SealSmallDst

Lens == (0..MaxLen) \cup BigLens
JunkLens == 0..MaxJunk
MinLen == CHOOSE n \in Lens : \A k \in Lens : n <= k

TagSize == 16
HdrSize == 8
Overhead == TagSize + HdrSize
MsgBase == 10000
TagBase == 5000
HdrBase == 1000000
SeqLimit == 999      \* stands for 2^64-1: the one sequence number no key can be used at

VARIABLES phase,    \* "sealing" | "presented" | "done"
          msgs,     \* sequence of [len, seq] sealed on channel A (key "KA", label "LA")
          nextseq,  \* the seal context's sequence counter
          failat,   \* -1, or the number of messages sealed when a seal into a small buffer failed
          target,   \* index of the message the presentation was derived from
          op,       \* the presentation operation (record [op, a, b])
          call,     \* [iface, dst, opener] of the open call
          outcome   \* result of the open call

vars == <<phase, msgs, nextseq, failat, target, op, call, outcome>>

----------------------------------------------------------------------------------
(* symbolic bytes *)
CtByte(m, i)  == m * MsgBase + i
TagByte(m, j) == m * MsgBase + TagBase + j
HdrByte(s, j) == HdrBase + s * 8 + j
Total(m)      == msgs[m].len + Overhead

\* byte i (1-based) of the wire form of message m
WireByte(m, i) ==
  LET n == msgs[m].len IN
  IF i <= n THEN CtByte(m, i)
  ELSE IF i <= n + TagSize THEN TagByte(m, i - n)
  ELSE HdrByte(msgs[m].seq, i - n - TagSize)

NoOp == [op |-> "intact", a |-> 0, b |-> 0]

(* The presentation operations.  a, b are integers; the meaning depends on op:
   intact            the wire form of message t
   cut a             the first a bytes (0 <= a < Total)
   flip a b          byte a replaced (b = 0), or bytes a and b replaced (b > a)
   hdrseq a          header re-encoded for sequence number a (a # seq of t; a = SeqLimit: 2^64-1)
   splice a          ciphertext of t, tag of message a, header of t       (a # t)
   concat a          wire(t) followed by wire(a)
   append / prepend / midins   one arbitrary byte after the header / before the ciphertext /
                     between ciphertext and tag
   duphdr            wire(t) followed by a second copy of its header
   junk a b          a arbitrary bytes, fill class b (0 random, 1 all-zero, 2 all-0xff)     *)
FlipPositions(m) ==
  LET n == msgs[m].len IN
  (IF n > 0 THEN {1, (n + 1) \div 2, n} ELSE {})
    \cup {n + 1, n + 8, n + TagSize}
    \cup {n + TagSize + 1, n + TagSize + 4, n + Overhead}

Ops(m) ==
  {NoOp}
  \cup {[op |-> "cut", a |-> c, b |-> 0] : c \in 0..(Total(m) - 1)}
  \cup {[op |-> "flip", a |-> p, b |-> 0] : p \in FlipPositions(m)}
  \cup {[op |-> "flip", a |-> pq[1], b |-> pq[2]] :
           pq \in {x \in FlipPositions(m) \X FlipPositions(m) : x[1] < x[2]}}
  \cup {[op |-> "hdrseq", a |-> s, b |-> 0] : s \in ((0..(MaxMsgs + 1)) \cup {SeqLimit}) \ {msgs[m].seq}}
  \cup {[op |-> "splice", a |-> m2, b |-> 0] : m2 \in (1..Len(msgs)) \ {m}}
  \cup {[op |-> "concat", a |-> m2, b |-> 0] : m2 \in 1..Len(msgs)}
  \cup {[op |-> o, a |-> 0, b |-> 0] : o \in {"append", "prepend", "midins", "duphdr"}}
  \cup (IF msgs[m].len = MinLen /\ m = 1      \* arbitrary strings do not depend on the message
        THEN {[op |-> "junk", a |-> l, b |-> f] : l \in JunkLens, f \in 0..2} ELSE {})

PLen(m, o) ==
  CASE o.op = "cut" -> o.a
    [] o.op = "concat" -> Total(m) + Total(o.a)
    [] o.op \in {"append", "prepend", "midins"} -> Total(m) + 1
    [] o.op = "duphdr" -> Total(m) + HdrSize
    [] o.op = "junk" -> o.a
    [] OTHER -> Total(m)

\* byte i (1-based) of the presented string
PByte(m, o, i) ==
  LET n == msgs[m].len IN
  CASE o.op \in {"intact", "cut"} -> WireByte(m, i)
    [] o.op = "flip" -> IF i = o.a \/ i = o.b THEN -i ELSE WireByte(m, i)
    [] o.op = "hdrseq" -> IF i > n + TagSize THEN HdrByte(o.a, i - n - TagSize) ELSE WireByte(m, i)
    [] o.op = "splice" -> IF i > n /\ i <= n + TagSize THEN TagByte(o.a, i - n) ELSE WireByte(m, i)
    [] o.op = "concat" -> IF i <= Total(m) THEN WireByte(m, i) ELSE WireByte(o.a, i - Total(m))
    [] o.op = "append" -> IF i > Total(m) THEN -i ELSE WireByte(m, i)
    [] o.op = "prepend" -> IF i = 1 THEN -i ELSE WireByte(m, i - 1)
    [] o.op = "midins" -> IF i <= n THEN WireByte(m, i) ELSE IF i = n + 1 THEN -i ELSE WireByte(m, i - 1)
    [] o.op = "duphdr" -> IF i > Total(m) THEN HdrByte(msgs[m].seq, i - Total(m)) ELSE WireByte(m, i)
    \* all-0xff strings end in the header encoding 2^64-1
    [] o.op = "junk" -> IF o.b = 2 /\ i > o.a - HdrSize THEN HdrByte(SeqLimit, i - (o.a - HdrSize)) ELSE -i

----------------------------------------------------------------------------------
(* the open algorithm on symbolic bytes — Client::open / open_in_place *)

\* DataHeader::try_parse: the sequence number the last 8 bytes encode, -1 if they are not a
\* header any seal produced (the real parser accepts any 8 bytes; the value is then one no
\* message was sealed under, which is all the model needs).
ParseSeq(m, o, L) ==
  LET s == {x \in (0..(MaxMsgs + 1)) \cup {SeqLimit} : \A j \in 1..HdrSize : PByte(m, o, L - HdrSize + j) = HdrByte(x, j)}
  IN IF s = {} THEN -1 ELSE CHOOSE x \in s : TRUE

\* ideal AEAD: which sealed message (if any) carries exactly ciphertext [1..ctlen] and tag
Authentic(m, o, ctlen, key, label, seq) ==
  {x \in 1..Len(msgs) :
      /\ key = "KA" /\ label = "LA"           \* every message of msgs was sealed under (KA, LA)
      /\ msgs[x].seq = seq
      /\ msgs[x].len = ctlen
      /\ \A j \in 1..TagSize : PByte(m, o, ctlen + j) = TagByte(x, j)
      /\ \A i \in 1..ctlen : PByte(m, o, i) = CtByte(x, i)}

Opener(w) == CASE w = "same" -> [key |-> "KA", label |-> "LA"]
               [] w = "otherkey" -> [key |-> "KB", label |-> "LA"]
               [] w = "otherlabel" -> [key |-> "KA", label |-> "LB"]

Err(e) == [ok |-> FALSE, err |-> e, pt |-> 0, seq |-> -1]

(* dst: "exact" | "plus" | "minus" — size of the caller's output buffer relative to the
   presented ciphertext length (only meaningful for iface "open") *)
OpenResult(m, o, iface, dst, w) ==
  LET L == PLen(m, o)
      k == Opener(w)
  IN IF iface = "framed" /\ dst # "ok" THEN Err("header")   \* Message::try_parse fails / Control
     ELSE IF L < HdrSize THEN Err("size")                 \* split_last_chunk fails: InvalidSize
     ELSE LET seq == ParseSeq(m, o, L)
              rest == L - HdrSize
          IN IF rest < TagSize THEN Err("auth")           \* no room for a tag: Authentication
             ELSE LET ctlen == rest - TagSize
                  IN IF iface = "open" /\ dst = "minus" /\ ctlen > 0 THEN Err("small")
                     ELSE IF seq = SeqLimit THEN Err("expired")   \* Seq::compute_nonce: MessageLimitReached
                     ELSE LET a == Authentic(m, o, ctlen, k.key, k.label, seq)
                          IN IF a = {} THEN Err("auth")
                             ELSE LET x == CHOOSE y \in a : TRUE
                                  IN [ok |-> TRUE, err |-> "none", pt |-> x, seq |-> msgs[x].seq]

----------------------------------------------------------------------------------
Init == /\ phase = "sealing"
        /\ msgs = <<>>
        /\ nextseq = 0
        /\ failat = -1
        /\ target = 0
        /\ op = NoOp
        /\ call = [iface |-> "none", dst |-> "exact", opener |-> "same"]
        /\ outcome = Err("none")

(* Client::seal / seal_in_place on a sufficiently large destination *)
Seal(n) ==
  /\ phase = "sealing"
  /\ Len(msgs) < MaxMsgs
  /\ msgs' = Append(msgs, [len |-> n, seq |-> nextseq])
  /\ nextseq' = nextseq + 1
  /\ UNCHANGED <<phase, failat, target, op, call, outcome>>

(* Client::seal with dst shorter than plaintext + OVERHEAD: BufferTooSmall before the key is
   touched — the sequence counter does not move *)
SealSmallDst ==
  /\ SmallSeal
  /\ phase = "sealing"
  /\ Len(msgs) < MaxMsgs
  /\ failat = -1
  /\ failat' = Len(msgs)
  /\ UNCHANGED <<phase, msgs, nextseq, target, op, call, outcome>>

Present(t, o) ==
  /\ phase = "sealing"
  /\ Len(msgs) = MaxMsgs
  /\ t \in 1..Len(msgs)
  /\ o \in Ops(t)
  /\ target' = t
  /\ op' = o
  /\ phase' = "presented"
  /\ UNCHANGED <<msgs, nextseq, failat, call, outcome>>

(* Framing (client.rs `Message::try_parse`, header.rs `Header`): applications prefix a data
   message with the 4-byte header {version: u16, msg_type: u16} that `seal` returns.  Iface
   "framed" parses the frame first and opens the payload only if it is a Data message; `dst`
   then names what happened to the frame header: ok | version (unknown version) | type_control
   (a valid frame of the other type: not opened) | type_invalid | short (fewer than 4 bytes). *)
FrameOps == {"ok", "version", "type_control", "type_invalid", "short"}

Ifaces == {"open", "inplace_vec", "inplace_fixed", "inplace_heapless"}
Calls ==
  {[iface |-> "framed", dst |-> d, opener |-> "same"] : d \in FrameOps} \cup
  {[iface |-> "open", dst |-> d, opener |-> "same"] : d \in {"exact", "plus", "minus"}}
  \cup {[iface |-> i, dst |-> "exact", opener |-> "same"] : i \in Ifaces \ {"open"}}
  \cup {[iface |-> i, dst |-> "exact", opener |-> w] : i \in {"open", "inplace_vec"}, w \in {"otherkey", "otherlabel"}}

(* foreign-context opens are only interesting for strings that could be accepted at all *)
CallsFor(o) == IF o.op \in {"intact", "hdrseq", "splice"} THEN Calls
               ELSE IF o.op \in {"flip", "junk"} THEN {c \in Calls : c.opener = "same"}
               ELSE {c \in Calls : c.opener = "same" /\ c.iface # "framed"}

Open(c) ==
  /\ phase = "presented"
  /\ c \in CallsFor(op)
  /\ call' = c
  /\ outcome' = OpenResult(target, op, c.iface, c.dst, c.opener)
  /\ phase' = "done"
  /\ UNCHANGED <<msgs, nextseq, failat, target, op>>

Next == \/ \E n \in Lens : Seal(n)
        \/ SealSmallDst
        \/ /\ phase = "sealing" /\ Len(msgs) = MaxMsgs
           /\ \E t \in 1..Len(msgs) : \E o \in Ops(t) : Present(t, o)
        \/ \E c \in Calls : Open(c)

Spec == Init /\ [][Next]_vars

----------------------------------------------------------------------------------
(* Properties (C39) *)

\* the presented bytes are exactly the wire form of some sealed message
IsWireOf(x) ==
  /\ PLen(target, op) = Total(x)
  /\ \A i \in 1..Total(x) : PByte(target, op, i) = WireByte(x, i)

(* an accepted string is byte-identical to a message the channel sealed, opened in the
   sealing context — every modified, truncated, extended, spliced, foreign or arbitrary string
   is rejected *)
AcceptOnlyAuthentic ==
  (phase = "done" /\ outcome.ok) =>
     /\ call.opener = "same"
     /\ \E x \in 1..Len(msgs) : IsWireOf(x) /\ outcome.pt = x

(* whatever was sealed opens (with every interface, any number of times, in any order) *)
AuthenticAccepted ==
  (phase = "done" /\ op.op = "intact" /\ call.opener = "same"
     /\ ~(call.iface = "open" /\ call.dst = "minus" /\ msgs[target].len > 0)
     /\ ~(call.iface = "framed" /\ call.dst # "ok")) =>
     /\ outcome.ok /\ outcome.pt = target

(* opening returns the plaintext's message, and the sequence number used when sealing *)
ReturnsWhatWasSealed ==
  (phase = "done" /\ outcome.ok) => outcome.seq = msgs[outcome.pt].seq

(* open is total: every byte string has a defined, non-panicking outcome *)
Total0 == phase = "done" => (outcome.ok \/ outcome.err \in {"size", "auth", "small", "expired", "header"})

(* successful seals carry 0,1,2,... ; failed seals do not consume numbers *)
SeqDense == /\ \A i \in 1..Len(msgs) : msgs[i].seq = i - 1
            /\ nextseq = Len(msgs)

----------------------------------------------------------------------------------
(* S2I / TABLE emission: one line per maximal behaviour *)
Hist == [lens |-> [i \in 1..Len(msgs) |-> msgs[i].len],
         failat |-> failat,
         t |-> target, op |-> op, call |-> call, expect |-> outcome]
Emit == phase = "done" => PrintT("REPLAY " \o ToJson(Hist))
=================================================================================
