\* C26 thorough: depth <= 2 single-field schemas and two-field schemas (depth <= 2) x (base kind),
\* all boundary ints
SPECIFICATION Spec
CONSTANTS
  Ints <- AllInts
  Depth = 2
  TwoFields = TRUE
  FirstDepth = 2
  Randoms = 3
INVARIANTS RoundTrip RequiredRejected Predicted ClassesKnown Emit
CHECK_DEADLOCK FALSE
