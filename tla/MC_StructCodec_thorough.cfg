\* C26 thorough: depth <= 2 single-field schemas and two-field schemas (depth <= 1 x base)
SPECIFICATION Spec
CONSTANTS
  Ints <- AllInts
  Depth = 2
  TwoFields = TRUE
  Randoms = 4
INVARIANTS RoundTrip RequiredRejected Predicted ClassesKnown Emit
CHECK_DEADLOCK FALSE
