\* seeded simulation, effects mode
SPECIFICATION Spec
CONSTANTS
  MaxDepth = 3
  StmtDepth = 2
  Effects = TRUE
  Focus = "all"
  Quirks = FALSE
  EnvCap = 8
  RetTypes <- MC_RetAll
INVARIANTS Emit
CHECK_DEADLOCK FALSE
