\* C18(a): requester (both constructors) and responder machines, all call sequences <= 5:
\* poll, every message kind x own/foreign session x next/skipped/repeated index delivered through
\* receive and through receive_push; every request kind x first/foreign session, poll with big /
\* small / tiny buffer, push; two responses per session
SPECIFICATION Spec
CONSTANTS
  Sides = {"req", "resp"}
  MaxDepth = 5
  Resp = 2
VIEW View
INVARIANTS TypeOK Accepts InOrder RespCounts ReadyConsistent UnsupportedClosed Emit
PROPERTIES MismatchInert
CHECK_DEADLOCK FALSE
