------------------------------- MODULE StructCodec -------------------------------
(* C26 — command-struct serialization (`aranya_policy_vm::serialize`, reached through
   `Machine::serialize_struct` / `Machine::deserialize_struct`).

   The wire format is schema directed (postcard framing): the bytes carry no type
   information, the struct definition says what comes next.  The spec states the format as a
   *token grammar*: `Enc(type, value)` is the sequence of tokens a conforming value is written
   as, `Dec(type, tokens, i)` is the decoder — it consumes tokens as the schema dictates and
   yields a value or the error the implementation reports (UnexpectedEnd / BadInput; TrailingData
   at top level).  A token is a group of bytes with one meaning:

       <<"zz", v>>      zig-zag varint of an int           <<"ezz", v>>   the same, for an enum value
       <<"bool", b>>    one byte 0/1                       <<"len", n>>   varint length prefix
       <<"text", bs>>   string content (must be Text:      <<"raw", bs>>  bytes content
                        valid UTF-8 without NUL)
       <<"idlen", n>>   one byte, must be 32               <<"idraw", k, n>>  n bytes of id k
       <<"otag", t>>    option tag 0/1                     <<"rtag", t>>  result tag 0 = Ok, 1 = Err
       <<"extra", b>>   a byte after the end               <<"cut", tok>> a token that lost its tail

   One behaviour = one cell of the decision table:
       Init         picks a schema (struct Top with one or two fields, field types up to
                    nesting depth `Depth` over every field kind) and a conforming value
       Serialize    tokens := EncTop(schema, value)                  (Machine::serialize_struct)
       Mutate(c)    optional: one mutation class applied at one token position
       Deserialize  expected := DecTop(schema, tokens)               (Machine::deserialize_struct)

   Properties checked by TLC on the format itself:
       RoundTrip         without mutation the decoder returns exactly the value
       RequiredRejected  every mutation class the property lists is an error for every schema,
                         value and position (truncation is only a mutation where it removes
                         at least one byte — a zero-length tail is not truncation)
   `vh-vmtable codec` renders the tokens to bytes, builds the struct definitions in a real
   Machine and compares: serialize_struct(value) = bytes of Enc (drift if not), deserialize
   of the unmutated bytes = value (violation if not), every required class is Err (violation
   if Ok), no panic anywhere, plus seeded random / bit-flipped byte strings per cell.

   Ints: MaxI = 1000 stands for i64::MAX, MinI = -1001 for i64::MIN (as in VmBytecode).     *)
EXTENDS Integers, Sequences, FiniteSets, TLC, Json

CONSTANTS Ints,         \* int values used in conforming values (1-, 2- and 10-byte varints)
          Depth,        \* nesting depth of field types (0 = base kinds only)
          TwoFields,    \* BOOLEAN: also two-field schemas (first field depth <= FirstDepth, second base)
          FirstDepth,   \* nesting depth of the first field in two-field schemas
          Randoms       \* number of seeded random-bytes cells per (schema, value)

VARIABLES schema,   \* sequence of field types of struct Top
          value,    \* sequence of field values
          toks,     \* token sequence (after Serialize / Mutate)
          cls,      \* mutation class, "roundtrip" when none
          at,       \* token position the mutation was applied at (0 = whole)
          phase,    \* "init" | "ser" | "mut" | "done"
          expect    \* result of the decoder: <<"ok", value>> or <<error kind>>

vars == <<schema, value, toks, cls, at, phase, expect>>

MaxI == 1000
MinI == -1001
(* values for the constant Ints (a .cfg cannot hold negative literals) *)
QuickInts == {0, -1, 64, -65, MaxI, MinI}
AllInts   == {0, -1, 63, 64, -64, -65, MaxI, MinI}

---------------------------------------------------------------------------------
(* types *)
BaseTypes == { <<"int">>, <<"bool">>, <<"string">>, <<"bytes">>, <<"id">>, <<"enum">>, <<"unit">> }
ErrTypes  == { <<"int">>, <<"string">> }       \* error side of result types (keeps the product small)
RECURSIVE Types(_)
Types(d) == IF d = 0 THEN BaseTypes
            ELSE LET T == Types(d - 1) IN
                 T \cup {<<"opt", t>> : t \in T} \cup {<<"res", t, u>> : t \in T, u \in ErrTypes}
                   \cup {<<"struct", t>> : t \in T}     \* struct In { p: t, q: bool }

(* conforming values *)
Texts   == { <<>>, <<97>>, <<97, 98>>, <<195, 169>> }  \* "", "a", "ab", "é"
Blobs   == { <<>>, <<0>>, <<255, 0, 128>> }
EnumVals == {0, 1}                                     \* enum E { A, B }
RECURSIVE Vals(_)
Vals(t) ==
  CASE t[1] = "int"    -> {<<"int", v>> : v \in Ints}
    [] t[1] = "bool"   -> {<<"bool", TRUE>>, <<"bool", FALSE>>}
    [] t[1] = "string" -> {<<"str", s>> : s \in Texts}
    [] t[1] = "bytes"  -> {<<"bytes", b>> : b \in Blobs}
    [] t[1] = "id"     -> {<<"id", 1>>}
    [] t[1] = "enum"   -> {<<"enum", v>> : v \in EnumVals}
    [] t[1] = "unit"   -> {<<"unit">>}
    [] t[1] = "opt"    -> {<<"opt">>} \cup {<<"opt", v>> : v \in Vals(t[2])}
    [] t[1] = "res"    -> {<<"res", TRUE, v>> : v \in Vals(t[2])} \cup {<<"res", FALSE, v>> : v \in Vals(t[3])}
    [] t[1] = "struct" -> {<<"struct", v, <<"bool", TRUE>>>> : v \in Vals(t[2])}

---------------------------------------------------------------------------------
(* the encoder: value -> tokens *)
RECURSIVE Enc(_, _)
Enc(t, v) ==
  CASE t[1] = "int"    -> << <<"zz", v[2]>> >>
    [] t[1] = "bool"   -> << <<"bool", IF v[2] THEN 1 ELSE 0>> >>
    [] t[1] = "string" -> << <<"len", Len(v[2])>>, <<"text", v[2]>> >>
    [] t[1] = "bytes"  -> << <<"len", Len(v[2])>>, <<"raw", v[2]>> >>
    [] t[1] = "id"     -> << <<"idlen", 32>>, <<"idraw", v[2], 32>> >>
    [] t[1] = "enum"   -> << <<"ezz", v[2]>> >>
    [] t[1] = "unit"   -> <<>>
    [] t[1] = "opt"    -> (IF Len(v) = 1 THEN << <<"otag", 0>> >> ELSE << <<"otag", 1>> >> \o Enc(t[2], v[2]))
    [] t[1] = "res"    -> (IF v[2] THEN << <<"rtag", 0>> >> \o Enc(t[2], v[3])
                           ELSE << <<"rtag", 1>> >> \o Enc(t[3], v[3]))
    [] t[1] = "struct" -> Enc(t[2], v[2]) \o Enc(<<"bool">>, v[3])

RECURSIVE EncFields(_, _, _)
EncFields(ts, vs, i) == IF i > Len(ts) THEN <<>> ELSE Enc(ts[i], vs[i]) \o EncFields(ts, vs, i + 1)
EncTop(ts, vs) == EncFields(ts, vs, 1)

ZzLen(v) == IF v >= -64 /\ v <= 63 THEN 1 ELSE IF v >= -500 /\ v <= 500 THEN 2 ELSE 10
RECURSIVE ByteLen(_)
ByteLen(tok) ==
  CASE tok[1] \in {"zz", "ezz"} -> ZzLen(tok[2])
    [] tok[1] \in {"bool", "len", "idlen", "otag", "rtag", "extra"} -> 1
    [] tok[1] \in {"text", "raw"} -> Len(tok[2])
    [] tok[1] = "idraw" -> tok[3]
    [] tok[1] = "cut" -> ByteLen(tok[2]) - 1
    [] tok[1] = "random" -> 1
RECURSIVE BytesFrom(_, _)
BytesFrom(ts, i) == IF i > Len(ts) THEN 0 ELSE ByteLen(ts[i]) + BytesFrom(ts, i + 1)

---------------------------------------------------------------------------------
(* the decoder: tokens -> value or error.  Result: <<status, value, next index>>.  A token of
   an unexpected kind can only arise from mutations this spec does not make ("Unpredicted"). *)
IsText(bs) == bs \in Texts
R(st, v, i) == <<st, v, i>>
RECURSIVE Dec(_, _, _)
Dec(t, ts, i) ==
  IF t[1] = "unit" THEN R("ok", <<"unit">>, i)
  ELSE IF i > Len(ts) THEN R("UnexpectedEnd", <<>>, i)
  ELSE LET k == ts[i] IN
  IF k[1] = "cut" THEN R("UnexpectedEnd", <<>>, i)
  ELSE IF k[1] = "extra" THEN R("Unpredicted", <<>>, i)
  ELSE CASE t[1] = "int"  -> (IF k[1] = "zz" THEN R("ok", <<"int", k[2]>>, i + 1) ELSE R("Unpredicted", <<>>, i))
    [] t[1] = "bool" -> (IF k[1] # "bool" THEN R("Unpredicted", <<>>, i)
                         ELSE IF k[2] \in {0, 1} THEN R("ok", <<"bool", k[2] = 1>>, i + 1)
                         ELSE R("BadInput", <<>>, i))
    [] t[1] \in {"string", "bytes"} ->
         (IF k[1] # "len" THEN R("Unpredicted", <<>>, i)
          ELSE IF k[2] = 0 THEN   \* empty content occupies no bytes: its token may be absent
                 R("ok", <<IF t[1] = "bytes" THEN "bytes" ELSE "str", <<>>>>,
                   IF i + 1 <= Len(ts) /\ ts[i + 1][1] \in {"text", "raw"} /\ Len(ts[i + 1][2]) = 0
                   THEN i + 2 ELSE i + 1)
          ELSE IF i + 1 > Len(ts) THEN R("UnexpectedEnd", <<>>, i)
          ELSE LET c == ts[i + 1] IN
            IF c[1] = "cut" THEN R("UnexpectedEnd", <<>>, i)
            ELSE IF c[1] \notin {"text", "raw"} \/ Len(c[2]) # k[2] THEN R("Unpredicted", <<>>, i)
            ELSE IF t[1] = "bytes" THEN R("ok", <<"bytes", c[2]>>, i + 2)
            ELSE IF IsText(c[2]) THEN R("ok", <<"str", c[2]>>, i + 2)
            ELSE R("BadInput", <<>>, i))
    [] t[1] = "id" ->
         (IF k[1] # "idlen" THEN R("Unpredicted", <<>>, i)
          ELSE IF k[2] # 32 THEN R("BadInput", <<>>, i)
          ELSE IF i + 1 > Len(ts) \/ ts[i + 1][1] = "cut" THEN R("UnexpectedEnd", <<>>, i)
          ELSE IF ts[i + 1][1] # "idraw" \/ ts[i + 1][3] # 32 THEN R("Unpredicted", <<>>, i)
          ELSE R("ok", <<"id", ts[i + 1][2]>>, i + 2))
    [] t[1] = "enum" -> (IF k[1] # "ezz" THEN R("Unpredicted", <<>>, i)
                         ELSE IF k[2] \in EnumVals THEN R("ok", <<"enum", k[2]>>, i + 1)
                         ELSE R("BadInput", <<>>, i))
    [] t[1] = "opt" ->
         (IF k[1] # "otag" THEN R("Unpredicted", <<>>, i)
          ELSE IF k[2] = 0 THEN R("ok", <<"opt">>, i + 1)
          ELSE IF k[2] = 1 THEN (LET r == Dec(t[2], ts, i + 1) IN
                                   IF r[1] = "ok" THEN R("ok", <<"opt", r[2]>>, r[3]) ELSE r)
          ELSE R("BadInput", <<>>, i))
    [] t[1] = "res" ->
         (IF k[1] # "rtag" THEN R("Unpredicted", <<>>, i)
          ELSE IF k[2] \in {0, 1} THEN (LET r == Dec(IF k[2] = 0 THEN t[2] ELSE t[3], ts, i + 1) IN
                                          IF r[1] = "ok" THEN R("ok", <<"res", k[2] = 0, r[2]>>, r[3]) ELSE r)
          ELSE R("BadInput", <<>>, i))
    [] t[1] = "struct" ->
         (LET r1 == Dec(t[2], ts, i) IN IF r1[1] # "ok" THEN r1
          ELSE LET r2 == Dec(<<"bool">>, ts, r1[3]) IN IF r2[1] # "ok" THEN r2
          ELSE R("ok", <<"struct", r1[2], r2[2]>>, r2[3]))

RECURSIVE DecFields(_, _, _, _, _)
DecFields(tys, ts, f, i, acc) ==
  IF f > Len(tys) THEN (IF i <= Len(ts) THEN <<"TrailingData">> ELSE <<"ok", acc>>)
  ELSE LET r == Dec(tys[f], ts, i) IN
       IF r[1] # "ok" THEN <<r[1]>> ELSE DecFields(tys, ts, f + 1, r[3], Append(acc, r[2]))
DecTop(tys, ts) == DecFields(tys, ts, 1, 1, <<>>)

---------------------------------------------------------------------------------
(* mutation classes.  Required = listed by the property (must be rejected). *)
Required == {"trunc", "trunc-mid", "trailing", "otag2", "otag255", "rtag2", "rtag255",
             "enum-out", "utf8", "nul", "utf8-cut", "idlen31", "idlen33", "idlen0"}
Extended == {"bool2", "random"}

Replace(ts, i, tok) == [ts EXCEPT ![i] = tok]
Positions(ts, kinds) == {i \in DOMAIN ts : ts[i][1] \in kinds}

(* Mutants(ts) = set of <<class, position, tokens'>> *)
Mutants(ts) ==
     {<<"trunc", i, SubSeq(ts, 1, i)>> : i \in {j \in 0..(Len(ts) - 1) : BytesFrom(ts, j + 1) > 0}}
  \cup {<<"trunc-mid", i, Append(SubSeq(ts, 1, i - 1), <<"cut", ts[i]>>)>> :
          i \in {j \in DOMAIN ts : ByteLen(ts[j]) >= 2}}
  \cup {<<"trailing", 0, Append(ts, <<"extra", 0>>)>>}
  \cup {<<"otag2", i, Replace(ts, i, <<"otag", 2>>)>> : i \in Positions(ts, {"otag"})}
  \cup {<<"otag255", i, Replace(ts, i, <<"otag", 255>>)>> : i \in Positions(ts, {"otag"})}
  \cup {<<"rtag2", i, Replace(ts, i, <<"rtag", 2>>)>> : i \in Positions(ts, {"rtag"})}
  \cup {<<"rtag255", i, Replace(ts, i, <<"rtag", 255>>)>> : i \in Positions(ts, {"rtag"})}
  \cup {<<"enum-out", i, Replace(ts, i, <<"ezz", v>>)>> : i \in Positions(ts, {"ezz"}), v \in {2, -1, MaxI}}
  \cup {<<"utf8", i, Replace(ts, i, <<"text", [ts[i][2] EXCEPT ![1] = 255]>>)>> :
          i \in {j \in Positions(ts, {"text"}) : Len(ts[j][2]) > 0}}
  \cup {<<"nul", i, Replace(ts, i, <<"text", [ts[i][2] EXCEPT ![Len(ts[i][2])] = 0]>>)>> :
          i \in {j \in Positions(ts, {"text"}) : Len(ts[j][2]) > 0}}
  \cup {<<"utf8-cut", i, Replace(Replace(ts, i, <<"text", <<195>>>>), i - 1, <<"len", 1>>)>> :
          i \in {j \in Positions(ts, {"text"}) : ts[j][2] = <<195, 169>>}}
  \cup {<<"idlen31", i, Replace(Replace(ts, i, <<"idlen", 31>>), i + 1, <<"idraw", ts[i + 1][2], 31>>)>> :
          i \in Positions(ts, {"idlen"})}
  \cup {<<"idlen33", i, Replace(Replace(ts, i, <<"idlen", 33>>), i + 1, <<"idraw", ts[i + 1][2], 33>>)>> :
          i \in Positions(ts, {"idlen"})}
  \cup {<<"idlen0", i, Replace(Replace(ts, i, <<"idlen", 0>>), i + 1, <<"idraw", ts[i + 1][2], 0>>)>> :
          i \in Positions(ts, {"idlen"})}
  \cup {<<"bool2", i, Replace(ts, i, <<"bool", 2>>)>> : i \in Positions(ts, {"bool"})}
  \cup {<<"random", k, << <<"random", k>> >> >> : k \in 1..Randoms}

---------------------------------------------------------------------------------
Schemas ==
  {<<t>> : t \in Types(Depth)}
  \cup (IF TwoFields THEN {<<t, u>> : t \in Types(FirstDepth), u \in BaseTypes} ELSE {})

RECURSIVE ValueTuples(_, _)
ValueTuples(ts, i) == IF i > Len(ts) THEN {<<>>}
                      ELSE {<<v>> \o rest : v \in Vals(ts[i]), rest \in ValueTuples(ts, i + 1)}

Init ==
  /\ schema \in Schemas
  /\ value \in ValueTuples(schema, 1)
  /\ toks = <<>> /\ cls = "roundtrip" /\ at = 0 /\ phase = "init" /\ expect = <<"none">>

(* Machine::serialize_struct *)
Serialize ==
  /\ phase = "init"
  /\ toks' = EncTop(schema, value)
  /\ phase' = "ser"
  /\ UNCHANGED <<schema, value, cls, at, expect>>

(* what an adversary / a faulty channel does to the bytes *)
Mutate ==
  /\ phase = "ser"
  /\ \E mu \in Mutants(toks) : cls' = mu[1] /\ at' = mu[2] /\ toks' = mu[3]
  /\ phase' = "mut"
  /\ UNCHANGED <<schema, value, expect>>

(* Machine::deserialize_struct *)
Deserialize ==
  /\ phase \in {"ser", "mut"}
  /\ expect' = IF cls = "random" THEN <<"any">> ELSE DecTop(schema, toks)
  /\ phase' = "done"
  /\ UNCHANGED <<schema, value, toks, cls, at>>

Next == Serialize \/ Mutate \/ Deserialize
Spec == Init /\ [][Next]_vars

---------------------------------------------------------------------------------
(* C26 on the format *)
Done == phase = "done"
RoundTrip == (Done /\ cls = "roundtrip") => expect = <<"ok", value>>
RequiredRejected == (Done /\ cls \in Required) =>
                      expect[1] \in {"UnexpectedEnd", "TrailingData", "BadInput"}
Predicted == Done => expect[1] # "Unpredicted"
ClassesKnown == cls \in Required \cup Extended \cup {"roundtrip"}

Hist == [sc |-> schema, v |-> value, t |-> toks, c |-> cls, at |-> at, e |-> expect]
Emit == Done => PrintT("REPLAY " \o ToJson(Hist))
=================================================================================
