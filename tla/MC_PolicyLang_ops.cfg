\* seeded simulation of operator nests (infix/prefix/postfix operators only): rendered with full and
\* with minimal parentheses, this exercises the parser's precedence and associativity table
SPECIFICATION Spec
CONSTANTS
  MaxDepth = 3
  StmtDepth = 0
  Effects = FALSE
  Focus = "ops"
  Quirks = FALSE
  EnvCap = 8
  RetTypes <- MC_RetOps
INVARIANTS Emit
CHECK_DEADLOCK FALSE
