\* C42 thorough: capacity 1, writer scripts of 4 calls, two readers with 2 calls each.
SPECIFICATION Spec
CONSTANTS
  Readers = {1, 2}
  Cap = 1
  WScripts <- ScriptsCap1
  ROps = 2
  Mutant = "none"
INVARIANTS TypeOK SeqsOk RemovalEffective NoLostChannel NoResurrection SidesEqualWhenIdle TableIsModel NoDuplicates WithinCap ReaderSeesProduced OutOfSpaceIffFull IdsNeverReused InSync
CHECK_DEADLOCK FALSE
