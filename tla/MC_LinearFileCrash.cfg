SPECIFICATION Spec
CONSTANTS
  Exhaustive = 6
  Cap = 6000
  Samples = 8
  Seed = 0
INVARIANTS Emit
CHECK_DEADLOCK FALSE
