SPECIFICATION Spec
CONSTANTS
  MaxSize = 12
  MaxFrags = 4
  MaxLen = 5
INVARIANTS NoOverflow FinishCorrect NwExact Emit
CHECK_DEADLOCK FALSE
