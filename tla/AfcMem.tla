--------------------------------- MODULE AfcMem ---------------------------------
(* C40 / C41 for the in-memory channel state `memory::State`
   (`crates/aranya-fast-channels/src/memory.rs` on top of `memory/lender.rs`).

   One global mutex protects the map id -> Lender; a seal/open context holds a `Loan` of the
   channel's data (shared: label, exclusive: the keys, which carry the sequence number).  The fast
   path of seal/open takes no lock: `Loan::get_mut` = one atomic load of the BiArc flag.

   Labels = yield points under the SCHED binding:
     wop / rop  (harness) a call is invoked
     wlk        the writer locks the state and performs add / remove / remove_if / remove_all
                in one atomic section (dropping a Lender = swap of the flag, free if unshared)
     lk         setup_seal_ctx: lock, look up, `Lender::lend` (swap of the flag), unlock
     ld         seal: `Loan::get_mut` load; NotFound if the lender is gone, else the key is used
     dsw / fr   drop of a context = drop of the Loan: swap of the flag, free if it was unshared

   Because the key lives in the channel data, the sequence numbers of a channel continue
   across contexts; a second *live* context for a channel is refused (`lend` fails).         *)
EXTENDS Naturals, Sequences, FiniteSets, TLC

CONSTANTS Readers, WScripts, ROps,
          Mutant      \* "none" = the code; "clear_resets_ids": remove_all also resets next_chan_id (must be rejected)

NOID == 99
NONE == 0
W == 100

Targets(o, present) == CASE o[1] = "rm" -> {o[2]}
                         [] o[1] = "rmif" -> o[2]
                         [] o[1] = "clear" -> present
                         [] OTHER -> {}
Ids == 0..5

(* --algorithm AfcMem {
  variables chans = {},                         \* keys of Inner::chans
            next_id = 0,
            shared = [i \in Ids |-> FALSE],     \* BiArc flag of channel i's data
            freed = [i \in Ids |-> 0],          \* times channel i's data was freed
            seqOf = [i \in Ids |-> 0],          \* sequence number inside channel i's SealKey
            script \in WScripts,
            \* ---- monitors
            ever = {}, removalStarted = {}, removedDone = {},
            chanSeqs = [i \in Ids |-> <<>>],    \* numbers returned by successful seals, per channel
            wres = <<>>,
            bad = {};
  \* after a call: the next one, or the thread ends — a context it still holds is dropped then
  macro Next() {
    if (n < ROps) { goto rop; } else if (cid # NOID) { goto dsw; } else { goto Done; };
  }
  process (w = W)
    variables k = 1, op = <<"none">>;
  {
  wop:    op := script[k];
          if (op[1] # "add") { removalStarted := removalStarted \cup Targets(op, chans); };
  wlk:    if (op[1] = "add") {
             chans := chans \cup {next_id}; ever := ever \cup {next_id}; next_id := next_id + 1;
          } else {
             \* every removed Lender is dropped: swap(UNSHARED); free if it was unshared
             freed := [i \in Ids |-> IF i \in Targets(op, chans) \cap chans /\ ~shared[i] THEN freed[i] + 1 ELSE freed[i]];
             shared := [i \in Ids |-> IF i \in Targets(op, chans) \cap chans THEN FALSE ELSE shared[i]];
             removedDone := removedDone \cup Targets(op, chans);
             chans := chans \ Targets(op, chans);
             if (Mutant = "clear_resets_ids" /\ op[1] = "clear") { next_id := 0; };
          };
          wres := Append(wres, "ok"); k := k + 1;
          if (k <= Len(script)) { goto wop; };
  }
  process (r \in Readers)
    variables n = 0, what = "none", tid = NOID, cid = NOID, after = FALSE, rfail = FALSE, res = "none", o = FALSE;
  {
  rop:    either { await cid = NOID; with (c \in ever) { tid := c; }; what := "setup"; }
          or     { await cid # NOID; tid := cid; what := "seal"; with (f \in BOOLEAN) { rfail := f; }; }
          or     { await cid # NOID; tid := cid; what := "drop"; };
          after := tid \in removedDone; n := n + 1; res := "none";
          if (what = "seal") { goto ld; } else if (what = "drop") { goto dsw; };
  lk:     if (tid \in chans) {
             if (after) { bad := bad \cup {"used_after_remove"}; };
             o := shared[tid]; shared[tid] := TRUE;
             if (~o) { cid := tid; res := "ok"; } else { res := "notfound"; };   \* a live loan exists
          } else {
             if (tid \notin removalStarted) { bad := bad \cup {"lost_channel"}; };
             res := "notfound";
          };
          Next();
  ld:     if (freed[cid] > 0) { bad := bad \cup {"uaf"}; }
          else if (shared[cid]) {
             if (after) { bad := bad \cup {"used_after_remove"}; };
             if (~rfail) { chanSeqs[cid] := Append(chanSeqs[cid], seqOf[cid]); seqOf[cid] := seqOf[cid] + 1; res := "ok"; }
             else { res := "fail"; };
          } else {
             if (cid \notin removalStarted) { bad := bad \cup {"lost_channel"}; };
             res := "notfound";
          };
          Next();
  dsw:    o := shared[cid]; shared[cid] := FALSE; tid := cid; cid := NOID;
          if (what = "drop") { res := "ok"; };      \* (not a call when the thread ends)
          if (o) { if (n < ROps) { goto rop; } else { goto Done; } };
  fr:     freed[tid] := freed[tid] + 1;
          if (n < ROps) { goto rop; } else { goto Done; };
  }
} *)
\* BEGIN TRANSLATION
VARIABLES pc, chans, next_id, shared, freed, seqOf, script, ever, 
          removalStarted, removedDone, chanSeqs, wres, bad, k, op, n, what, 
          tid, cid, after, rfail, res, o

vars == << pc, chans, next_id, shared, freed, seqOf, script, ever, 
           removalStarted, removedDone, chanSeqs, wres, bad, k, op, n, what, 
           tid, cid, after, rfail, res, o >>

ProcSet == {W} \cup (Readers)

Init == (* Global variables *)
        /\ chans = {}
        /\ next_id = 0
        /\ shared = [i \in Ids |-> FALSE]
        /\ freed = [i \in Ids |-> 0]
        /\ seqOf = [i \in Ids |-> 0]
        /\ script \in WScripts
        /\ ever = {}
        /\ removalStarted = {}
        /\ removedDone = {}
        /\ chanSeqs = [i \in Ids |-> <<>>]
        /\ wres = <<>>
        /\ bad = {}
        (* Process w *)
        /\ k = 1
        /\ op = <<"none">>
        (* Process r *)
        /\ n = [self \in Readers |-> 0]
        /\ what = [self \in Readers |-> "none"]
        /\ tid = [self \in Readers |-> NOID]
        /\ cid = [self \in Readers |-> NOID]
        /\ after = [self \in Readers |-> FALSE]
        /\ rfail = [self \in Readers |-> FALSE]
        /\ res = [self \in Readers |-> "none"]
        /\ o = [self \in Readers |-> FALSE]
        /\ pc = [self \in ProcSet |-> CASE self = W -> "wop"
                                        [] self \in Readers -> "rop"]

wop == /\ pc[W] = "wop"
       /\ op' = script[k]
       /\ IF op'[1] # "add"
             THEN /\ removalStarted' = (removalStarted \cup Targets(op', chans))
             ELSE /\ TRUE
                  /\ UNCHANGED removalStarted
       /\ pc' = [pc EXCEPT ![W] = "wlk"]
       /\ UNCHANGED << chans, next_id, shared, freed, seqOf, script, ever, 
                       removedDone, chanSeqs, wres, bad, k, n, what, tid, cid, 
                       after, rfail, res, o >>

wlk == /\ pc[W] = "wlk"
       /\ IF op[1] = "add"
             THEN /\ chans' = (chans \cup {next_id})
                  /\ ever' = (ever \cup {next_id})
                  /\ next_id' = next_id + 1
                  /\ UNCHANGED << shared, freed, removedDone >>
             ELSE /\ freed' = [i \in Ids |-> IF i \in Targets(op, chans) \cap chans /\ ~shared[i] THEN freed[i] + 1 ELSE freed[i]]
                  /\ shared' = [i \in Ids |-> IF i \in Targets(op, chans) \cap chans THEN FALSE ELSE shared[i]]
                  /\ removedDone' = (removedDone \cup Targets(op, chans))
                  /\ chans' = chans \ Targets(op, chans)
                  /\ IF Mutant = "clear_resets_ids" /\ op[1] = "clear"
                        THEN /\ next_id' = 0
                        ELSE /\ TRUE
                             /\ UNCHANGED next_id
                  /\ ever' = ever
       /\ wres' = Append(wres, "ok")
       /\ k' = k + 1
       /\ IF k' <= Len(script)
             THEN /\ pc' = [pc EXCEPT ![W] = "wop"]
             ELSE /\ pc' = [pc EXCEPT ![W] = "Done"]
       /\ UNCHANGED << seqOf, script, removalStarted, chanSeqs, bad, op, n, 
                       what, tid, cid, after, rfail, res, o >>

w == wop \/ wlk

rop(self) == /\ pc[self] = "rop"
             /\ \/ /\ cid[self] = NOID
                   /\ \E c \in ever:
                        tid' = [tid EXCEPT ![self] = c]
                   /\ what' = [what EXCEPT ![self] = "setup"]
                   /\ rfail' = rfail
                \/ /\ cid[self] # NOID
                   /\ tid' = [tid EXCEPT ![self] = cid[self]]
                   /\ what' = [what EXCEPT ![self] = "seal"]
                   /\ \E f \in BOOLEAN:
                        rfail' = [rfail EXCEPT ![self] = f]
                \/ /\ cid[self] # NOID
                   /\ tid' = [tid EXCEPT ![self] = cid[self]]
                   /\ what' = [what EXCEPT ![self] = "drop"]
                   /\ rfail' = rfail
             /\ after' = [after EXCEPT ![self] = tid'[self] \in removedDone]
             /\ n' = [n EXCEPT ![self] = n[self] + 1]
             /\ res' = [res EXCEPT ![self] = "none"]
             /\ IF what'[self] = "seal"
                   THEN /\ pc' = [pc EXCEPT ![self] = "ld"]
                   ELSE /\ IF what'[self] = "drop"
                              THEN /\ pc' = [pc EXCEPT ![self] = "dsw"]
                              ELSE /\ pc' = [pc EXCEPT ![self] = "lk"]
             /\ UNCHANGED << chans, next_id, shared, freed, seqOf, script, 
                             ever, removalStarted, removedDone, chanSeqs, wres, 
                             bad, k, op, cid, o >>

lk(self) == /\ pc[self] = "lk"
            /\ IF tid[self] \in chans
                  THEN /\ IF after[self]
                             THEN /\ bad' = (bad \cup {"used_after_remove"})
                             ELSE /\ TRUE
                                  /\ bad' = bad
                       /\ o' = [o EXCEPT ![self] = shared[tid[self]]]
                       /\ shared' = [shared EXCEPT ![tid[self]] = TRUE]
                       /\ IF ~o'[self]
                             THEN /\ cid' = [cid EXCEPT ![self] = tid[self]]
                                  /\ res' = [res EXCEPT ![self] = "ok"]
                             ELSE /\ res' = [res EXCEPT ![self] = "notfound"]
                                  /\ cid' = cid
                  ELSE /\ IF tid[self] \notin removalStarted
                             THEN /\ bad' = (bad \cup {"lost_channel"})
                             ELSE /\ TRUE
                                  /\ bad' = bad
                       /\ res' = [res EXCEPT ![self] = "notfound"]
                       /\ UNCHANGED << shared, cid, o >>
            /\ IF n[self] < ROps
                  THEN /\ pc' = [pc EXCEPT ![self] = "rop"]
                  ELSE /\ IF cid'[self] # NOID
                             THEN /\ pc' = [pc EXCEPT ![self] = "dsw"]
                             ELSE /\ pc' = [pc EXCEPT ![self] = "Done"]
            /\ UNCHANGED << chans, next_id, freed, seqOf, script, ever, 
                            removalStarted, removedDone, chanSeqs, wres, k, op, 
                            n, what, tid, after, rfail >>

ld(self) == /\ pc[self] = "ld"
            /\ IF freed[cid[self]] > 0
                  THEN /\ bad' = (bad \cup {"uaf"})
                       /\ UNCHANGED << seqOf, chanSeqs, res >>
                  ELSE /\ IF shared[cid[self]]
                             THEN /\ IF after[self]
                                        THEN /\ bad' = (bad \cup {"used_after_remove"})
                                        ELSE /\ TRUE
                                             /\ bad' = bad
                                  /\ IF ~rfail[self]
                                        THEN /\ chanSeqs' = [chanSeqs EXCEPT ![cid[self]] = Append(chanSeqs[cid[self]], seqOf[cid[self]])]
                                             /\ seqOf' = [seqOf EXCEPT ![cid[self]] = seqOf[cid[self]] + 1]
                                             /\ res' = [res EXCEPT ![self] = "ok"]
                                        ELSE /\ res' = [res EXCEPT ![self] = "fail"]
                                             /\ UNCHANGED << seqOf, chanSeqs >>
                             ELSE /\ IF cid[self] \notin removalStarted
                                        THEN /\ bad' = (bad \cup {"lost_channel"})
                                        ELSE /\ TRUE
                                             /\ bad' = bad
                                  /\ res' = [res EXCEPT ![self] = "notfound"]
                                  /\ UNCHANGED << seqOf, chanSeqs >>
            /\ IF n[self] < ROps
                  THEN /\ pc' = [pc EXCEPT ![self] = "rop"]
                  ELSE /\ IF cid[self] # NOID
                             THEN /\ pc' = [pc EXCEPT ![self] = "dsw"]
                             ELSE /\ pc' = [pc EXCEPT ![self] = "Done"]
            /\ UNCHANGED << chans, next_id, shared, freed, script, ever, 
                            removalStarted, removedDone, wres, k, op, n, what, 
                            tid, cid, after, rfail, o >>

dsw(self) == /\ pc[self] = "dsw"
             /\ o' = [o EXCEPT ![self] = shared[cid[self]]]
             /\ shared' = [shared EXCEPT ![cid[self]] = FALSE]
             /\ tid' = [tid EXCEPT ![self] = cid[self]]
             /\ cid' = [cid EXCEPT ![self] = NOID]
             /\ IF what[self] = "drop"
                   THEN /\ res' = [res EXCEPT ![self] = "ok"]
                   ELSE /\ TRUE
                        /\ res' = res
             /\ IF o'[self]
                   THEN /\ IF n[self] < ROps
                              THEN /\ pc' = [pc EXCEPT ![self] = "rop"]
                              ELSE /\ pc' = [pc EXCEPT ![self] = "Done"]
                   ELSE /\ pc' = [pc EXCEPT ![self] = "fr"]
             /\ UNCHANGED << chans, next_id, freed, seqOf, script, ever, 
                             removalStarted, removedDone, chanSeqs, wres, bad, 
                             k, op, n, what, after, rfail >>

fr(self) == /\ pc[self] = "fr"
            /\ freed' = [freed EXCEPT ![tid[self]] = freed[tid[self]] + 1]
            /\ IF n[self] < ROps
                  THEN /\ pc' = [pc EXCEPT ![self] = "rop"]
                  ELSE /\ pc' = [pc EXCEPT ![self] = "Done"]
            /\ UNCHANGED << chans, next_id, shared, seqOf, script, ever, 
                            removalStarted, removedDone, chanSeqs, wres, bad, 
                            k, op, n, what, tid, cid, after, rfail, res, o >>

r(self) == rop(self) \/ lk(self) \/ ld(self) \/ dsw(self) \/ fr(self)

(* Allow infinite stuttering to prevent deadlock on termination. *)
Terminating == /\ \A self \in ProcSet: pc[self] = "Done"
               /\ UNCHANGED vars

Next == w
           \/ (\E self \in Readers: r(self))
           \/ Terminating

Spec == Init /\ [][Next]_vars

Termination == <>(\A self \in ProcSet: pc[self] = "Done")

\* END TRANSLATION

-----------------------------------------------------------------------------
(* C40: the numbers a channel's successful seals return are 0, 1, 2, ... (across contexts) *)
SeqsOk == \A i \in Ids : \A j \in 1..Len(chanSeqs[i]) : chanSeqs[i][j] = j - 1
(* C40: never two live seal contexts for one channel *)
SingleContext == \A a \in Readers, b \in Readers : (a # b /\ cid[a] # NOID) => cid[a] # cid[b]
(* C41 *)
RemovalEffective == "used_after_remove" \notin bad
NoLostChannel == "lost_channel" \notin bad
(* C41: removed channels never reappear — ids are never reused, so no id whose removal returned
   is ever in the map again (the add after a remove_all must not start over at 0) *)
NoResurrection == chans \cap removedDone = {}
(* C44 on the channel data *)
NoUseAfterFree == "uaf" \notin bad
FreedOnce == \A i \in Ids : freed[i] <= 1
NoEarlyFree == \A i \in Ids : freed[i] > 0 => (i \notin chans /\ \A a \in Readers : cid[a] # i)
=============================================================================
