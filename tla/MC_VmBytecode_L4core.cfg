\* C25 thorough: every 4-instruction prefix tree from the empty stack over one cell per instruction variant
SPECIFICATION Spec
CONSTANTS
  Lens = {4}
  MaxInit = 0
  Budget = 10
  CellSet <- CoreCells
  InitSet <- AllInits
INVARIANTS OutcomeDefined StackBounded TypeOK Emit
CHECK_DEADLOCK FALSE
