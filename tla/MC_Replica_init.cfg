\* C10: first contacts and malformed init commands, exhaustive
SPECIFICATION Spec
CONSTANTS
  MergeTag = 2
  Reps = {1, 2}
  Authors = {1, 2}
  Receivers = {1, 2}
  Txns = {1}
  MaxCmds = 2
  MaxSteps = 4
  Kinds = {"b0"}
  Ops = {"n"}
  MaxBatch = 1
  AllowDup = FALSE
  AllowOrphan = FALSE
  AllowPoison = FALSE
  AllowFail = FALSE
  AllowNoop = TRUE
  BootAll = FALSE
  MaxRank = 2
  AllRanks = TRUE
  AllowMulti = FALSE
  AllowBadMerge = FALSE
  AllowBad = TRUE
  PubWeight = 1
  CommitWeight = 1
  SyncWeight = 1
  ActWeight1 = 1
  ActWeight = 1
INVARIANTS Frontier Convergence LazyMergeEquiv NoParallelFinalizeCommitted HelloSound Emit
PROPERTIES AppendOnly
CONSTRAINT NotDone
CHECK_DEADLOCK FALSE
