\* C21 thorough tier: complete concrete state graph with at most 4 entries, no history.
SPECIFICATION Spec
CONSTANTS
  Segs = {0, 1, 2}
  Mcs = {1, 2, 3}
  Thresholds = {1, 2}
  CoverMcs = {1, 2}
  LongMcs = {2, 4}
  Record = FALSE
  MaxEntries = 4
  SimDepth = 0
ACTION_CONSTRAINT Bound
VIEW View
INVARIANTS TypeOK PartitionSep DedupUnique
PROPERTIES C21
CHECK_DEADLOCK FALSE
