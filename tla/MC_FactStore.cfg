\* C12 quick tier: complete state graph under the structural bounds below (2 fact keys, one a
\* prefix of the other with an empty component; values tagged by segment/command; compaction
\* limit 2 so that a third segment compacts); all refinement invariants in every state; one
\* S2I witness behaviour per reachable state.
SPECIFICATION Spec
CONSTANTS
  Names = {"x"}
  Keys <- MCKeys
  ValChoice <- MCVal
  OpenCands <- Locs
  MergeCands <- AllPairs
  MaxDepth = 2
  Record = TRUE
  Fat = FALSE
  MaxSegs = 3
  MaxCmds = 2
  MaxCur = 1
  MaxCps = 0
  MaxTotCmds = 3
  MaxTotUps = 3
  MaxFUps = 0
  MaxIdx = 5
  NoErr = TRUE
  SimDepth = 0
ACTION_CONSTRAINT EmitBounded
VIEW View
INVARIANTS SegRefines MidRefines PerspRefines FactPerspRefines ChainOK PriorFactsOK
PROPERTIES RevertExact
CHECK_DEADLOCK FALSE
