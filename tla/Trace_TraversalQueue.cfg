SPECIFICATION TSpec
INVARIANT TInv
POSTCONDITION Accepted
CHECK_DEADLOCK FALSE
