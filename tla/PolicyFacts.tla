------------------------------- MODULE PolicyFacts -------------------------------
(* C29 — fact queries and fact mutations of the policy language, as executed by the policy
   VM (`aranya-policy-vm/src/machine.rs`: Query, FactCount, QueryStart/QueryNext, Create,
   Update, Delete) on top of the runtime's storage through `VmPolicyIO`
   (`aranya-runtime/src/vm_policy/io.rs`: ser_key, fact_query = Query::query_prefix).

   A *schema* `fact F[k1 t1, .., kn tn]=>{v1 u1, .., vm um}` is a record
       [kt |-> <<t1..tn>>, kd |-> <<d1..dn>>, vt |-> <<u1..um>>]
   with key types t_i in {"int","bool","string","id","enum"}; kd[i] is the number of
   distinct values ("ranks" 1..kd[i]) the model uses for key field i; every value field
   ranges over ranks 1..ValDom.  A key is a tuple of ranks, a value a tuple of ranks.

   KEY ORDER (the order the property speaks of).  Keys are compared field by field, left to
   right (lexicographically over the tuple); within a field, by the natural order of its
   type:  int — numeric;  bool — false < true;  string — bytewise lexicographic order of
   the UTF-8 encoding (a proper prefix sorts before its extensions);  id — bytewise;
   enum — by ordinal of the variant (declaration order).  Ranks abstract that order:
   rank a < rank b iff the concrete value of a precedes the concrete value of b in the
   order above.  The conformance engine owns the concretisation (several ascending value
   tables per type: i64::MIN/-1/0/1/256/i64::MAX, ""/"a"/"ab"/"b"/two-byte code points, ids
   differing in the first / the last byte, ...) and asserts at start-up that each table is
   strictly ascending in the order stated here, so the spec's rank order *is* the stated
   key order on the values that are run.

   The spec is implementation-shaped where the code has an algorithm and property-shaped
   where the property states a result; invariants tie the two together:
     * `Scan(p)`            — storage: BTreeMap::range(p..).take_while(starts_with(p))
     * `VmQuery/VmCount/..` — VM: iterate Scan, `fact_match`, stop at the limit; the
                              compiler's encodings of at_least / at_most / exactly
     * `MatchSet(pat)`      — property: the set of stored facts whose leading key fields
                              equal the bound keys and whose value fields equal the bound
                              value fields.
   Actions: one per statement kind that reaches MachineIO (Create, Update, Delete), Commit
   (the perspective is written to a segment and a new perspective opened on it — a no-op
   on the abstract store, but it moves facts from the perspective's update map into the
   fact index, which is what prefix scans have to merge), and Observe (all query forms on
   one literal pattern).                                                                   *)
EXTENDS Naturals, Sequences, FiniteSets, TLC, Json

CONSTANTS Schemas,     \* set of schema records (see above)
          ValDom,      \* value ranks per value field
          MaxFacts,    \* at most this many stored facts
          Limits,      \* limits used with count_up_to / at_least / at_most / exactly
          MaxSteps,    \* steps per behaviour
          InitMode     \* "empty": start from the empty store;  "all": from every store

VARIABLES schema,      \* the fact schema of this behaviour
          store,       \* the stored facts of F: sequence of [k |-> key tuple, v |-> value tuple],
                       \* strictly ascending in key order (the storage keeps a BTreeMap per fact name)
          init,        \* the initial store (for the replay record)
          hist         \* sequence of step records [op, .., out/res, store]

vars == <<schema, store, init, hist>>

Min(a, b) == IF a < b THEN a ELSE b
MaxOf(S) == CHOOSE x \in S : \A y \in S : y <= x

NK(s) == Len(s.kt)
NV(s) == Len(s.vt)
MaxKD(s) == IF NK(s) = 0 THEN 1 ELSE MaxOf({s.kd[i] : i \in 1..NK(s)})

(* all key tuples / value tuples of a schema *)
Keys(s) == {t \in [1..NK(s) -> 1..MaxKD(s)] : \A i \in 1..NK(s) : t[i] <= s.kd[i]}
Vals(s) == [1..NV(s) -> 1..ValDom]

(* bound-key prefixes: the leading j key fields given, the rest `?` *)
Prefixes(s) == UNION {{t \in [1..j -> 1..MaxKD(s)] : \A i \in 1..j : t[i] <= s.kd[i]} : j \in 0..NK(s)}

(* value part of a fact literal: vg = FALSE means no `=>{..}` clause at all; otherwise one
   entry per value field: 0 = `?`, r > 0 = bound to rank r *)
ValPats(s) == {[vg |-> FALSE, vb |-> [i \in 1..NV(s) |-> 0]]}
              \cup {[vg |-> TRUE, vb |-> b] : b \in [1..NV(s) -> 0..ValDom]}

Patterns(s) == {[kb |-> p, vg |-> vp.vg, vb |-> vp.vb] : p \in Prefixes(s), vp \in ValPats(s)}

---------------------------------------------------------------------------------
(* Key order *)

(* lexicographic order on rank sequences of possibly different length; a proper prefix is
   smaller — this is `Ord for [Box<[u8]>]` restricted to keys of one schema *)
SeqLess(a, b) ==
  \/ \E i \in 1..Min(Len(a), Len(b)) : a[i] < b[i] /\ \A j \in 1..(i-1) : a[j] = b[j]
  \/ Len(a) < Len(b) /\ \A j \in 1..Len(a) : a[j] = b[j]

HasPrefix(k, p) == Len(p) <= Len(k) /\ \A i \in 1..Len(p) : k[i] = p[i]

KeySet(st) == {st[i].k : i \in 1..Len(st)}
Sorted(st) == \A i \in 1..(Len(st) - 1) : SeqLess(st[i].k, st[i+1].k)

(* BTreeMap operations on the sorted sequence *)
IndexOf(st, k) == IF \E i \in 1..Len(st) : st[i].k = k THEN CHOOSE i \in 1..Len(st) : st[i].k = k ELSE 0
Put(st, k, v) ==
  LET i == IndexOf(st, k)
      n == Cardinality({j \in 1..Len(st) : SeqLess(st[j].k, k)}) IN
    IF i > 0 THEN [st EXCEPT ![i] = [k |-> k, v |-> v]]
    ELSE SubSeq(st, 1, n) \o <<[k |-> k, v |-> v]>> \o SubSeq(st, n + 1, Len(st))
Remove(st, k) ==
  LET i == IndexOf(st, k) IN
    IF i = 0 THEN st ELSE SubSeq(st, 1, i - 1) \o SubSeq(st, i + 1, Len(st))

---------------------------------------------------------------------------------
(* Storage: the prefix scan of linear storage (find_prefixes):
   `map.range(prefix..).take_while(|k| k.starts_with(prefix))` *)

RECURSIVE DropWhileLess(_, _)
DropWhileLess(fs, p) == IF fs = <<>> THEN <<>>
                        ELSE IF SeqLess(fs[1].k, p) THEN DropWhileLess(Tail(fs), p) ELSE fs
RECURSIVE TakeWhilePrefix(_, _)
TakeWhilePrefix(fs, p) == IF fs = <<>> THEN <<>>
                          ELSE IF HasPrefix(fs[1].k, p) THEN <<fs[1]>> \o TakeWhilePrefix(Tail(fs), p)
                          ELSE <<>>

Scan(p) == TakeWhilePrefix(DropWhileLess(store, p), p)

---------------------------------------------------------------------------------
(* VM: fact_match and the query instructions; `sc` is the scan the instruction obtained
   from MachineIO::fact_query for the literal's bound keys *)

ValMatch(v, pat) == \A i \in 1..Len(pat.vb) : pat.vb[i] = 0 \/ v[i] = pat.vb[i]
FactMatch(f, pat) == HasPrefix(f.k, pat.kb) /\ ValMatch(f.v, pat)

NoFact == [found |-> FALSE, k |-> <<>>, v |-> <<>>]

RECURSIVE FirstMatch(_, _)
FirstMatch(sc, pat) == IF sc = <<>> THEN NoFact
                       ELSE IF FactMatch(sc[1], pat) THEN [found |-> TRUE, k |-> sc[1].k, v |-> sc[1].v]
                       ELSE FirstMatch(Tail(sc), pat)

(* Instruction::FactCount(limit): `while count < limit { next; if fact_match {count += 1} }` *)
RECURSIVE CountLoop(_, _, _, _)
CountLoop(sc, pat, limit, count) ==
  IF count >= limit \/ sc = <<>> THEN count
  ELSE CountLoop(Tail(sc), pat, limit, IF FactMatch(sc[1], pat) THEN count + 1 ELSE count)

RECURSIVE FilterSeq(_, _)
FilterSeq(sc, pat) == IF sc = <<>> THEN <<>>
                      ELSE (IF FactMatch(sc[1], pat) THEN <<sc[1]>> ELSE <<>>) \o FilterSeq(Tail(sc), pat)

QueryS(sc, pat) == FirstMatch(sc, pat)                            \* Instruction::Query
ExistsS(sc, pat) == FirstMatch(sc, pat).found                     \* Query; Const None; Eq; Not
CountS(sc, pat, n) == CountLoop(sc, pat, n, 0)                    \* count_up_to n = FactCount(n)
AtLeastS(sc, pat, n) == ~(CountLoop(sc, pat, n, 0) < n)           \* FactCount(n); Const n; Lt; Not
AtMostS(sc, pat, n) == ~(CountLoop(sc, pat, n + 1, 0) > n)        \* FactCount(n+1); Const n; Gt; Not
ExactlyS(sc, pat, n) == CountLoop(sc, pat, n + 1, 0) = n          \* FactCount(n+1); Const n; Eq
(* map F[..] as f {..}: QueryStart/QueryNext visit the scan; by the property the visited facts
   are the matches, so the VM has to apply fact_match here as well *)
MapS(sc, pat) == FilterSeq(sc, pat)

VmQuery(pat) == QueryS(Scan(pat.kb), pat)
VmExists(pat) == ExistsS(Scan(pat.kb), pat)
VmCount(pat, n) == CountS(Scan(pat.kb), pat, n)
VmAtLeast(pat, n) == AtLeastS(Scan(pat.kb), pat, n)
VmAtMost(pat, n) == AtMostS(Scan(pat.kb), pat, n)
VmExactly(pat, n) == ExactlyS(Scan(pat.kb), pat, n)
VmMap(pat) == MapS(Scan(pat.kb), pat)

---------------------------------------------------------------------------------
(* Property level *)

MatchSet(pat) == {i \in 1..Len(store) : HasPrefix(store[i].k, pat.kb) /\ ValMatch(store[i].v, pat)}

StoreSorted == Sorted(store)              \* the BTreeMap invariant the scans rely on

ScanIsPrefixRange ==                      \* range + take_while returns exactly the facts with the prefix, ascending
  \A p \in Prefixes(schema) :
    LET sc == Scan(p) IN
      /\ {sc[i] : i \in 1..Len(sc)} = {store[i] : i \in {j \in 1..Len(store) : HasPrefix(store[j].k, p)}}
      /\ Sorted(sc)

QueryIsLeastMatch ==
  \A pat \in Patterns(schema) :
    LET q == VmQuery(pat) M == MatchSet(pat) IN
      /\ q.found <=> M # {}
      /\ q.found => \E i \in M : /\ store[i].k = q.k /\ store[i].v = q.v
                                 /\ \A j \in M : j = i \/ SeqLess(q.k, store[j].k)

CountsAreCapped ==
  \A pat \in Patterns(schema) :
    LET c == Cardinality(MatchSet(pat)) sc == Scan(pat.kb) IN
      \A n \in Limits :
        /\ CountS(sc, pat, n) = Min(n, c)
        /\ AtLeastS(sc, pat, n) <=> c >= n
        /\ AtMostS(sc, pat, n) <=> c <= n
        /\ ExactlyS(sc, pat, n) <=> c = n

ExistsIffAtLeastOne ==
  \A pat \in Patterns(schema) : VmExists(pat) <=> VmAtLeast(pat, 1)

MapVisitsMatchesInOrder ==
  \A pat \in Patterns(schema) :
    LET m == VmMap(pat) IN
      /\ {m[i] : i \in 1..Len(m)} = {store[i] : i \in MatchSet(pat)}
      /\ Len(m) = Cardinality(MatchSet(pat))
      /\ Sorted(m)

TypeOK ==
  /\ \A i \in 1..Len(store) : store[i].k \in Keys(schema) /\ store[i].v \in Vals(schema)
  /\ Len(store) <= MaxFacts
  /\ Len(hist) <= MaxSteps

---------------------------------------------------------------------------------
(* Behaviours *)

RECURSIVE SeqOfFn(_)
SeqOfFn(f) == IF DOMAIN f = {} THEN <<>>
              ELSE LET m == CHOOSE x \in DOMAIN f : \A y \in DOMAIN f : y = x \/ SeqLess(x, y)
                   IN <<[k |-> m, v |-> f[m]]>> \o SeqOfFn([x \in (DOMAIN f) \ {m} |-> f[x]])
Stores(s) == {SeqOfFn(f) : f \in UNION {[K -> Vals(s)] : K \in {K \in SUBSET Keys(s) : Cardinality(K) <= MaxFacts}}}

Init == /\ schema \in Schemas
        /\ store \in (IF InitMode = "all" THEN Stores(schema) ELSE {<<>>})
        /\ init = store
        /\ hist = <<>>

Step(rec, st) == /\ Len(hist) < MaxSteps
                 /\ store' = st
                 /\ hist' = hist \o <<rec>>
                 /\ UNCHANGED <<schema, init>>

(* finish { create F[k]=>{v} } — Instruction::Create = MachineIO::fact_insert.  The property
   speaks of creating *absent* facts ("ok").  On a present key the VM does not check: the
   insert overwrites ("overwrite" — a named deviation, compared as drift only). *)
Create(k, v) ==
  /\ IndexOf(store, k) > 0 \/ Len(store) < MaxFacts
  /\ LET st == Put(store, k, v) IN
       Step([op |-> "create", k |-> k, v |-> v,
             out |-> IF IndexOf(store, k) > 0 THEN "overwrite" ELSE "ok", store |-> st], st)

(* finish { update F[k]=>{from} to {to} } — Instruction::Update: look the key up (first fact
   of the scan for the full key), compare the bound `from` fields, delete, insert.
   fp.vg = FALSE: no `=>{..}` clause (no comparison). *)
Update(k, fp, to) ==
  LET sc == Scan(k)
      okk == sc # <<>> /\ ValMatch(sc[1].v, fp)
      st == IF okk THEN Put(Remove(store, sc[1].k), k, to) ELSE store IN
    Step([op |-> "update", k |-> k, vg |-> fp.vg, vb |-> fp.vb, to |-> to,
          out |-> IF okk THEN "ok" ELSE "invalid_fact", store |-> st], st)

(* finish { delete F[k] } — Instruction::Delete = MachineIO::fact_delete (no existence check) *)
Delete(k) ==
  LET st == Remove(store, k) IN
    Step([op |-> "delete", k |-> k,
          out |-> IF IndexOf(store, k) > 0 THEN "ok" ELSE "absent", store |-> st], st)

Commit == Step([op |-> "commit", store |-> store], store)

LimitSeq == LET RECURSIVE Asc(_)
                Asc(S) == IF S = {} THEN <<>> ELSE LET m == CHOOSE x \in S : \A y \in S : x <= y IN <<m>> \o Asc(S \ {m})
            IN Asc(Limits)

(* every query form on one literal pattern, evaluated by one command policy (map by an action) *)
Observe(pat) ==
  LET lim == LimitSeq
      sc == Scan(pat.kb) IN
    Step([op |-> "observe", kb |-> pat.kb, vg |-> pat.vg, vb |-> pat.vb,
          res |-> [query |-> QueryS(sc, pat), exists |-> ExistsS(sc, pat),
                   limits |-> lim,
                   count |-> [i \in 1..Len(lim) |-> CountS(sc, pat, lim[i])],
                   at_least |-> [i \in 1..Len(lim) |-> AtLeastS(sc, pat, lim[i])],
                   at_most |-> [i \in 1..Len(lim) |-> AtMostS(sc, pat, lim[i])],
                   exactly |-> [i \in 1..Len(lim) |-> ExactlyS(sc, pat, lim[i])],
                   map |-> MapS(sc, pat)],
          store |-> store], store)

Next ==
  /\ Len(hist) < MaxSteps          \* (repeated here so TLC does not enumerate arguments of disabled steps)
  /\ \/ \E k \in Keys(schema), v \in Vals(schema) : Create(k, v)
     \/ \E k \in Keys(schema), fp \in ValPats(schema), to \in Vals(schema) : Update(k, fp, to)
     \/ \E k \in Keys(schema) : Delete(k)
     \/ Commit
     \/ \E pat \in Patterns(schema) : Observe(pat)

Spec == Init /\ [][Next]_vars

(* every step touches at most the one key it names *)
OneKeyPerStep ==
  [][LET r == hist'[Len(hist')] IN
       \A f \in {store[i] : i \in 1..Len(store)} \cup {store'[i] : i \in 1..Len(store')} :
          \/ (\E i \in 1..Len(store) : store[i] = f) /\ (\E i \in 1..Len(store') : store'[i] = f)
          \/ r.op \in {"create", "update", "delete"} /\ f.k = r.k]_vars

---------------------------------------------------------------------------------
(* S2I emission: one line per maximal behaviour *)
Replay == [schema |-> schema, init |-> init, steps |-> hist]
Emit == Len(hist) = MaxSteps => PrintT("REPLAY " \o ToJson(Replay))
=================================================================================
