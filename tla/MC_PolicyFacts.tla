---------------------------- MODULE MC_PolicyFacts ----------------------------
(* Model-checking constants for PolicyFacts (C29).  `.cfg` files cannot hold records, so the
   schema sets live here and are substituted with `Schemas <- ...`.                        *)
EXTENDS PolicyFacts

S(kt, kd, vt) == [kt |-> kt, kd |-> kd, vt |-> vt]

(* quick tier, cover mode: every store x every operation, one step.  Every key type occurs
   alone and in every position of a compound key; value lists of length 0, 1 and 2; plus
   the two key-less (singleton) forms. *)
SchemasQuick ==
  { S(<<"int">>,                  <<3>>,     <<"int">>),
    S(<<"string">>,               <<3>>,     <<>>),
    S(<<"bool">>,                 <<2>>,     <<"string", "bool">>),
    S(<<"id">>,                   <<3>>,     <<>>),
    S(<<"enum">>,                 <<3>>,     <<"int">>),
    S(<<"string", "int">>,        <<3, 2>>,  <<>>),
    S(<<"int", "string">>,        <<2, 3>>,  <<>>),
    S(<<"id", "enum">>,           <<2, 2>>,  <<"string">>),
    S(<<"enum", "bool", "string">>, <<2, 2, 2>>, <<>>),
    S(<<>>, <<>>, <<"int">>),        \* singleton facts: `fact F[]=>{v int}`
    S(<<>>, <<>>, <<>>) }

(* thorough tier, cover mode: SchemasQuick again with MaxFacts = 4, and these with MaxFacts = 3
   (more type positions, id/enum values, two strings) *)
SchemasExtra ==
  { S(<<"bool", "id">>,           <<2, 3>>,  <<"int">>),
    S(<<"string", "string">>,     <<3, 3>>,  <<>>),
    S(<<"int">>,                  <<2>>,     <<"id", "enum">>),
    S(<<"id", "string", "bool">>, <<2, 2, 2>>, <<>>) }
SchemasThorough == SchemasQuick \cup SchemasExtra

(* simulation: every key-type list of length 1..3 (all 155) with several value lists *)
Types == {"int", "bool", "string", "id", "enum"}
D(t, n) == IF t = "bool" \/ n = 3 THEN 2 ELSE 3
KeyLists == UNION {[1..n -> Types] : n \in 1..3}
VLists(n) == IF n = 1 THEN {<<>>, <<"int">>, <<"string", "bool">>, <<"id", "enum">>}
             ELSE IF n = 2 THEN {<<>>, <<"string">>, <<"bool", "int">>}
             ELSE {<<>>, <<"enum">>}
SchemasAll ==
  UNION {{S(kt, [i \in 1..Len(kt) |-> D(kt[i], Len(kt))], vt) : vt \in VLists(Len(kt))} : kt \in KeyLists}

(* The definitions of PolicyFacts never look at the type names (they only matter to the
   concretisation), so the model-level invariants are checked once per *shape*
   (domain sizes x number of value fields), with all key types "int". *)
Shape(s) == S([i \in 1..Len(s.kt) |-> "int"], s.kd, [i \in 1..Len(s.vt) |-> "int"])
ShapesQuick == {Shape(s) : s \in SchemasQuick}
ShapesThorough == {Shape(s) : s \in SchemasThorough}
ShapesAll == {Shape(s) : s \in SchemasThorough \cup SchemasAll}

(* Simulation (tlc -simulate): the same actions, but the arguments of each step are drawn
   with RandomElement instead of being enumerated — TLC's simulator otherwise computes every
   successor (hundreds per step) before picking one.  SimSpec's behaviours are behaviours of
   Spec.  Mutations are preferred while the store is small so that queries see 2..4 facts. *)
SimNext ==
  /\ Len(hist) < MaxSteps
  /\ \E k \in {RandomElement(Keys(schema))}, v \in {RandomElement(Vals(schema))},
        fp \in {RandomElement(ValPats(schema))}, pat \in {RandomElement(Patterns(schema))},
        j \in {RandomElement(1..MaxFacts)}, c \in {RandomElement(1..10)} :
       LET present == IF store = <<>> THEN k ELSE store[((j - 1) % Len(store)) + 1].k IN
         CASE c \in 1..3 -> Create(IF Len(store) < MaxFacts THEN k ELSE present, v)
           [] c = 4 -> Update(k, fp, v)
           [] c = 5 -> Update(present, fp, v)
           [] c = 6 -> Delete(IF j % 2 = 1 THEN k ELSE present)
           [] c = 7 -> Commit
           [] OTHER -> Observe(pat)
SimSpec == Init /\ [][SimNext]_vars
===============================================================================
