----------------------------- MODULE SessionOverlay -----------------------------
(* C14 (and the session half of C13) — ephemeral sessions of
   `aranya_runtime::client::session` (crates/aranya-runtime/src/client/session.rs).

   ABSTRACT LAYER.  The committed facts are a flat map (fact key -> value, 0 = absent) built by
   on-graph actions.  A session opened on the graph sees that map overlaid with its own log of
   writes: `Expected(s) == FApply(base[s], slog[s])`.  An action / received command whose rule
   fails leaves the session exactly as it was; no session operation touches the graph; sessions
   do not see each other's writes.

   IMPLEMENTATION-SHAPED LAYER (a transcription of the code).
     base[s]   `base_facts`: the fact cache index captured by `Session::new`
     slog[s]   `fact_log`: (key, value|delete) in insertion order
     cur[s]    `current_facts`: partial map key -> value | TOMB, relative to base
     out       serialized commands handed to the message sink by successful actions
   `Session::action` / `Session::receive` take a checkpoint (= Len(slog)), run the policy (the
   harness policy executes a program: a list of inserts/deletes followed by an optional check
   "fail if fact x is visible"), and on error `revert` truncates the log and REBUILDS cur from
   it and rolls the message sink back.  `query` looks into cur first, then into base;
   `query_prefix` is the sorted merge `QueryIterator` of the base's prefix iterator and the
   overlay's range, newer entries overwriting older ones and tombstones being skipped —
   transcribed below as `MergeIter` and checked against the flat map for every prefix.        *)
EXTENDS Integers, Sequences, FiniteSets, TLC, Json

CONSTANTS Names,        \* fact names
          Keys,         \* compound keys: sequences of key parts
          PartOrd(_),   \* order of key parts (string -> integer), "" < "a" < "b"
          MaxSessions,
          Programs,     \* the programs the harness policy can be asked to run
          Record,
          Fat           \* history records carry the expectation of every step (simulation)

VARIABLES committed,    \* flat map of the graph (fact cache)
          ncommit,      \* number of on-graph actions so far (stands for heads / segments)
          nsess, base, slog, cur,
          out,          \* published session commands: [from, prog]
          last, hist
vars == <<committed, ncommit, nsess, base, slog, cur, out, last, hist>>
View == <<committed, ncommit, nsess, base, slog, cur, out>>

FK    == Names \X Keys
NoFK  == <<"", <<>>>>
TOMB  == 0
Empty == <<>>
Put(m, x, v) == [y \in DOMAIN m \cup {x} |-> IF y = x THEN v ELSE m[y]]

FlatEmpty == [x \in FK |-> 0]
RECURSIVE FApply(_, _)
FApply(f, ups) == IF ups = <<>> THEN f
                  ELSE FApply([f EXCEPT ![ups[1][1]] = ups[1][2]], Tail(ups))

Sess == 1..nsess
Expected(s) == FApply(base[s], slog[s])

----------------------------------------------------------------------------------
(* key order: lexicographic on the parts (the derived Ord of `Keys`) *)
RECURSIVE KeyLT(_, _)
KeyLT(a, b) == IF b = <<>> THEN FALSE
               ELSE IF a = <<>> THEN TRUE
               ELSE IF PartOrd(a[1]) # PartOrd(b[1]) THEN PartOrd(a[1]) < PartOrd(b[1])
               ELSE KeyLT(Tail(a), Tail(b))
IsPrefix(p, k) == Len(p) <= Len(k) /\ SubSeq(k, 1, Len(p)) = p
RECURSIVE SortKeys(_)
SortKeys(S) == IF S = {} THEN <<>>
               ELSE LET m == CHOOSE k \in S : \A o \in S \ {k} : KeyLT(k, o) IN <<m>> \o SortKeys(S \ {m})

(* what query_prefix(name, prefix) must return for a flat map: ascending, present facts only *)
PrefixOf(f, name, p) ==
  LET ks == SortKeys({k \in Keys : IsPrefix(p, k) /\ f[<<name, k>>] # 0})
  IN [i \in 1..Len(ks) |-> <<ks[i], f[<<name, ks[i]>>]>>]
(* base_facts.query_prefix: the same on the base (an index never returns tombstones) *)
BasePrefix(s, name, p) == PrefixOf(base[s], name, p)
(* PrefixIter over current_facts[name]: the range of keys with the prefix, tombstones included *)
CurPrefix(s, name, p) ==
  LET ks == SortKeys({k \in Keys : IsPrefix(p, k) /\ <<name, k>> \in DOMAIN cur[s]})
  IN [i \in 1..Len(ks) |-> <<ks[i], cur[s][<<name, ks[i]>>]>>]

(* QueryIterator::next, unrolled over both sequences *)
RECURSIVE MergeIter(_, _)
MergeIter(prior, current) ==
  IF current = <<>> THEN prior                                  \* "If current has run out, just use prior."
  ELSE IF prior # <<>> /\ KeyLT(prior[1][1], current[1][1])
       THEN <<prior[1]>> \o MergeIter(Tail(prior), current)     \* Ordering::Greater: old comes next
  ELSE LET pr == IF prior # <<>> /\ prior[1][1] = current[1][1] THEN Tail(prior) ELSE prior   \* Equal: new overwrites old
       IN IF current[1][2] # TOMB
          THEN <<current[1]>> \o MergeIter(pr, Tail(current))
          ELSE MergeIter(pr, Tail(current))                     \* deleted: skip

(* SessionPerspective::query *)
SLk(s, x) == IF x \in DOMAIN cur[s] THEN cur[s][x] ELSE base[s][x]
SView(s) == [x \in FK |-> SLk(s, x)]

RECURSIVE FoldLog(_, _)
FoldLog(m, lg) == IF lg = <<>> THEN m ELSE FoldLog(Put(m, lg[1][1], lg[1][2]), Tail(lg))

----------------------------------------------------------------------------------
RECURSIVE SetToSeq(_)
SetToSeq(S) == IF S = {} THEN <<>> ELSE LET x == CHOOSE y \in S : TRUE IN <<x>> \o SetToSeq(S \ {x})
FlatSeq(f) == LET s == SetToSeq({x \in FK : f[x] # 0})
              IN [i \in 1..Len(s) |-> [n |-> s[i][1], k |-> s[i][2], v |-> f[s[i]]]]

(* a program: updates <<x, kind>> (kind 1 = insert, 0 = delete) and a check key (NoFK = none) *)
Val(s) == 10 * s + Len(slog[s]) + 1
RECURSIVE Concrete(_, _, _)
Concrete(ups, s, n) ==      \* the values a session's inserts write are tagged by session and log position
  IF ups = <<>> THEN <<>>
  ELSE <<<<ups[1][1], IF ups[1][2] = 0 THEN 0 ELSE 10 * s + n + 1>>>> \o Concrete(Tail(ups), s, n + 1)
UpsJson(ups) == [i \in 1..Len(ups) |-> [n |-> ups[i][1][1], k |-> ups[i][1][2], v |-> ups[i][2]]]

Rec(o, s, m, ups, chk, r) ==
  [o |-> o, s |-> s, m |-> m, ups |-> UpsJson(ups), cn |-> chk[1], ck |-> chk[2], r |-> r]
Exp(r) == r @@ [sv |-> [s \in 1..nsess' |-> FlatSeq(FApply(base'[s], slog'[s]))],
                cv |-> FlatSeq(committed'), nc |-> ncommit', no |-> Len(out')]
Log(r) == /\ last' = Exp(r)
          /\ hist' = IF ~Record THEN hist ELSE IF Fat THEN Append(hist, Exp(r)) ELSE Append(hist, r)

Init == /\ committed = FlatEmpty /\ ncommit = 0
        /\ nsess = 0 /\ base = <<>> /\ slog = <<>> /\ cur = <<>>
        /\ out = <<>>
        /\ last = [o |-> "init"] /\ hist = <<>>

(* ClientState::new_graph / ClientState::action — an on-graph action (before any session) *)
Commit(prog) ==
  /\ nsess = 0
  /\ LET ups == Concrete(prog.ups, 0, ncommit * 3) IN
     /\ committed' = FApply(committed, ups)
     /\ ncommit' = ncommit + 1
     /\ UNCHANGED <<nsess, base, slog, cur, out>>
     /\ Log(Rec("commit", 0, 0, ups, NoFK, "ok"))

(* ClientState::session *)
NewSession ==
  /\ ncommit > 0 /\ nsess < MaxSessions
  /\ nsess' = nsess + 1
  /\ base' = Append(base, committed)
  /\ slog' = Append(slog, <<>>) /\ cur' = Append(cur, Empty)
  /\ UNCHANGED <<committed, ncommit, out>>
  /\ Log(Rec("session", nsess + 1, 0, <<>>, NoFK, "ok"))

(* the policy runs a program on the session perspective: writes, then the check *)
Run(s, ups, chk) ==
  LET lg == slog[s] \o ups
      cu == FoldLog(cur[s], ups)
      vis == IF chk = NoFK THEN 0 ELSE (IF chk \in DOMAIN cu THEN cu[chk] ELSE base[s][chk])
  IN [ok |-> vis = 0, slog |-> lg, cur |-> cu]

(* Session::action *)
SAction(s, prog) ==
  /\ s \in Sess
  /\ LET ups == Concrete(prog.ups, s, Len(slog[s]))
         r == Run(s, ups, prog.chk) IN
     IF r.ok
     THEN /\ slog' = [slog EXCEPT ![s] = r.slog] /\ cur' = [cur EXCEPT ![s] = r.cur]
          /\ out' = Append(out, [from |-> s, ups |-> ups, chk |-> prog.chk])
          /\ UNCHANGED <<committed, ncommit, nsess, base>>
          /\ Log(Rec("action", s, 0, ups, prog.chk, "ok"))
     ELSE \* revert(checkpoint): truncate the log, rebuild current_facts from it; sinks rolled back
          /\ slog' = slog /\ cur' = [cur EXCEPT ![s] = FoldLog(Empty, slog[s])]
          /\ UNCHANGED <<committed, ncommit, nsess, base, out>>
          /\ Log(Rec("action", s, 0, ups, prog.chk, "err"))

(* Session::receive of a command some session's action published *)
SReceive(s, m) ==
  /\ s \in Sess /\ m \in 1..Len(out)
  /\ LET r == Run(s, out[m].ups, out[m].chk) IN
     IF r.ok
     THEN /\ slog' = [slog EXCEPT ![s] = r.slog] /\ cur' = [cur EXCEPT ![s] = r.cur]
          /\ UNCHANGED <<committed, ncommit, nsess, base, out>>
          /\ Log(Rec("receive", s, m, out[m].ups, out[m].chk, "ok"))
     ELSE /\ slog' = slog /\ cur' = [cur EXCEPT ![s] = FoldLog(Empty, slog[s])]
          /\ UNCHANGED <<committed, ncommit, nsess, base, out>>
          /\ Log(Rec("receive", s, m, out[m].ups, out[m].chk, "err"))

CommitAny  == \E p \in Programs : p.chk = NoFK /\ Commit(p)
ActionAny  == \E s \in 1..MaxSessions : \E p \in Programs : s > 0 /\ SAction(s, p)
ReceiveAny == \E s \in 1..MaxSessions : \E m \in 1..Len(out) : m > 0 /\ SReceive(s, m)
Next == CommitAny \/ NewSession \/ ActionAny \/ ReceiveAny
Spec == Init /\ [][Next]_vars

----------------------------------------------------------------------------------
(* C14 *)
(* exact queries: overlay first, then base = committed facts followed by the session's writes *)
OverlayRefines == \A s \in Sess : SView(s) = Expected(s)
(* prefix queries: the sorted merge equals the flat map's prefix listing, for every prefix *)
Prefixes == UNION {{SubSeq(k, 1, n) : n \in 0..Len(k)} : k \in Keys}
PrefixMergeOK == \A s \in Sess : \A name \in Names : \A p \in Prefixes :
                    MergeIter(BasePrefix(s, name, p), CurPrefix(s, name, p)) = PrefixOf(Expected(s), name, p)
(* current_facts is always the fold of the log *)
CurIsFold == \A s \in Sess : cur[s] = FoldLog(Empty, slog[s])

IsSessOp(o) == o \in {"action", "receive"}
(* a failed operation leaves the session's observable state unchanged *)
FailedUnchangedStep == (IsSessOp(last'.o) /\ last'.r = "err") =>
                          /\ slog' = slog /\ cur' = cur /\ out' = out
                          /\ \A s \in Sess : FApply(base'[s], slog'[s]) = Expected(s)
(* no session operation changes the graph's heads or facts; sessions do not see each other *)
GraphUntouchedStep == (IsSessOp(last'.o) \/ last'.o = "session") =>
                          /\ committed' = committed /\ ncommit' = ncommit
                          /\ \A s \in Sess : base'[s] = base[s]
                          /\ \A s \in Sess : s # last'.s => slog'[s] = slog[s] /\ cur'[s] = cur[s]
C14 == [][FailedUnchangedStep /\ GraphUntouchedStep]_vars

----------------------------------------------------------------------------------
(* S2I emission: one behaviour per transition *)
EmitStep == PrintT("REPLAY " \o ToJson([h |-> hist', e |-> last']))
=================================================================================
