\* Random complete behaviours of 3 threads x 2 rounds, PASSIVE_SPIN = 5, with spurious wake-ups.
SPECIFICATION HSpec
CONSTANTS
  Threads = {1, 2, 3}
  Rounds = 2
  MoreRounds = {}
  PassiveSpin = 5
  Spurious = TRUE
  WakeOn = 2
INVARIANTS MutualExclusion NoUnlockBug Emit
CHECK_DEADLOCK FALSE
