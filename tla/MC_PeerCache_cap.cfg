\* C20 design level only (no replay): small capacity so that the full-cache rule interacts with
\* every shape <= 5
SPECIFICATION Spec
CONSTANTS
  Cap = 2
  MaxDepth = 6
  InitShapes <- MC_Shapes5
  StatusMode = "all"
  Canon = FALSE
VIEW View
INVARIANTS AtMostCap NoDuplicates OnlyCommitted IsAntichain
PROPERTIES StepRule
CHECK_DEADLOCK FALSE
