SPECIFICATION Spec
CONSTANTS
  MaxSize = 6
  MaxFrags = 3
  MaxLen = 4
INVARIANTS NoOverflow FinishCorrect NwExact Emit
CHECK_DEADLOCK FALSE
