\* C44: lender thread lend, lend, lend, drop; two loan threads get, (use), get, (use), drop.
SPECIFICATION Spec
CONSTANTS
  Loans = {1, 2}
  Lends = 3
  Gets = 2
  FreeWhenOld = FALSE
INVARIANTS AtMostOneLoan ExclusiveUse NoUseAfterFree Revoked RevokedState FreedOnce NoEarlyFree FreedAtEnd
