SPECIFICATION Spec
CONSTANTS
  Schemes = {"cmdsig"}
  MaxTamper = 3
  HashModel = "tuple"
  PLens = {0}
  DataLens = {0}
INVARIANTS AcceptIffUnchanged IdAgreement NoBothEnds OnlyRightful Emit
CHECK_DEADLOCK FALSE
