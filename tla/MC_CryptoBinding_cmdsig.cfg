SPECIFICATION Spec
CONSTANTS
  Schemes = {"cmdsig"}
  MaxTamper = 3
  HashModel = "tuple"
  PLens = {0}
INVARIANTS AcceptIffUnchanged IdAgreement Emit
CHECK_DEADLOCK FALSE
