SPECIFICATION Spec
CONSTANTS
  Scheme = "cmdsig"
  MaxTamper = 2
  HashModel = "tuple"
  PLens = {0}
INVARIANTS AcceptIffUnchanged IdAgreement Emit
CHECK_DEADLOCK FALSE
