SPECIFICATION Spec
CONSTANTS
  MaxLen = 1
  BigLens = {17}
  MaxMsgs = 3
  MaxJunk = 0
  SmallSeal = TRUE
INVARIANTS AcceptOnlyAuthentic AuthenticAccepted ReturnsWhatWasSealed Total0 SeqDense Emit
CHECK_DEADLOCK FALSE
