------------------------------- MODULE SyncWire -------------------------------
(* C18 (b) — field-level grammar of the sync wire format (postcard encodings of
   `wire::SyncType`, `SyncRequestMessage`, `SyncResponseMessage`, `CommandMeta`, `SyncHelloType`,
   `SubscribeResult`; crates/aranya-runtime/src/sync/{wire,requester,responder,mod}.rs) and the
   table of mutation cells the conformance engine concretises (TABLE pattern: exploration with
   this spec as enumerator and oracle; the literal "all byte strings" is out of reach).

   A message template is a sequence of fields; a field is [n, k, v, w]:
        k = "tag"      enum discriminant: variant v of w variants (varint)
            "u"        unsigned integer v of w bits (varint; u128 session ids, u64, u32)
            "idlen"    length prefix of an id (always 32)
            "idbytes"  the 32 id bytes; v = 0: filler id, 1: the graph the harness serves,
                       2: the init command of that graph
            "seqlen"   element count v of a heapless vector of capacity w; the next `g` fields
                       repeated v times are its elements
            "bool"     v in {0,1}
            "plen"     CommandMeta.policy_length (u32) — v bytes of the trailing data
            "dlen"     CommandMeta.length (u32)        — v bytes of the trailing data
            "data"     w trailing command bytes (after the postcard value)
   so the engine is a generic interpreter of this grammar and a grammar error shows up as the
   unmutated template being rejected by the real decoder (checked: cell "none" must be "ok").

   Mutations are per field kind; `Expect` is the outcome class the decoder should give
   ("ok" decoded and dispatched, "err" an error value, "any" either).  C18 only demands
   ok-or-err without panic and without command slices outside the received bytes; a difference from
   `Expect` that stays inside ok-or-err is drift.                                              *)
EXTENDS Naturals, Sequences, FiniteSets, TLC, Json

VARIABLE cell
vars == <<cell>>

F(n, k, v, w) == [n |-> n, k |-> k, v |-> v, w |-> w, g |-> 0]
Tag(n, v, w) == F(n, "tag", v, w)
U(n, v, w) == F(n, "u", v, w)
Id(n, v) == <<F(n \o ".len", "idlen", 32, 0), F(n \o ".bytes", "idbytes", v, 32)>>
Addr(n, idv, mc) == Id(n \o ".id", idv) \o <<U(n \o ".max_cut", mc, 64)>>
SeqLen(n, v, cap, g) == [n |-> n, k |-> "seqlen", v |-> v, w |-> cap, g |-> g]
Dur(n) == <<U(n \o ".secs", 7, 64), U(n \o ".nanos", 9, 32)>>

(* CommandMeta: id, priority, parent, policy_length, length.  variants of the parent / priority *)
MetaSingle(n, pl, dl) == Id(n \o ".id", 0) \o <<Tag(n \o ".priority", 1, 4), U(n \o ".priority.0", 3, 32),
                                                 Tag(n \o ".parent", 1, 3)>> \o Addr(n \o ".parent.0", 0, 4)
                         \o <<F(n \o ".policy_length", "plen", pl, 32), F(n \o ".length", "dlen", dl, 32)>>
MetaInit(n, pl, dl) == Id(n \o ".id", 2) \o <<Tag(n \o ".priority", 3, 4), Tag(n \o ".parent", 0, 3),
                                               F(n \o ".policy_length", "plen", pl, 32), F(n \o ".length", "dlen", dl, 32)>>
MetaMerge(n, pl, dl) == Id(n \o ".id", 0) \o <<Tag(n \o ".priority", 0, 4), Tag(n \o ".parent", 2, 3)>>
                        \o Addr(n \o ".parent.0", 0, 4) \o Addr(n \o ".parent.1", 0, 6)
                        \o <<F(n \o ".policy_length", "plen", pl, 32), F(n \o ".length", "dlen", dl, 32)>>

(* SyncResponseMessage *)
Response2 == <<Tag("SyncResponseMessage", 0, 4), U("session_id", 77, 128), U("response_index", 0, 64),
               SeqLen("commands", 2, 100, 10)>> \o MetaSingle("commands[1]", 0, 5) \o MetaSingle("commands[2]", 3, 7)
             \o <<F("command_data", "data", 0, 15)>>
ResponseInit == <<Tag("SyncResponseMessage", 0, 4), U("session_id", 77, 128), U("response_index", 0, 64),
                  SeqLen("commands", 1, 100, 6)>> \o MetaInit("commands[1]", 1, 3) \o <<F("command_data", "data", 0, 4)>>
ResponseMerge == <<Tag("SyncResponseMessage", 0, 4), U("session_id", 77, 128), U("response_index", 0, 64),
                   SeqLen("commands", 1, 100, 12)>> \o MetaMerge("commands[1]", 0, 2) \o <<F("command_data", "data", 0, 2)>>
Response0 == <<Tag("SyncResponseMessage", 0, 4), U("session_id", 77, 128), U("response_index", 0, 64),
               SeqLen("commands", 0, 100, 0)>>
SyncEnd == <<Tag("SyncResponseMessage", 1, 4), U("session_id", 77, 128), U("max_index", 0, 64), F("remaining", "bool", 0, 0)>>
Offer == <<Tag("SyncResponseMessage", 2, 4), U("session_id", 77, 128)>> \o Id("head", 0)
EndSessionR == <<Tag("SyncResponseMessage", 3, 4), U("session_id", 77, 128)>>

(* SyncRequestMessage *)
Request(k, gv) == <<Tag("SyncRequestMessage", 0, 4), U("session_id", 77, 128)>> \o Id("graph_id", gv)
                  \o <<U("max_bytes", 0, 64), SeqLen("commands", k, 100, 3)>>
                  \o (IF k >= 1 THEN Addr("commands[1]", 2, 0) ELSE <<>>) \o (IF k >= 2 THEN Addr("commands[2]", 0, 9) ELSE <<>>)
Missing == <<Tag("SyncRequestMessage", 1, 4), U("session_id", 77, 128), SeqLen("indexes", 2, 100, 1),
             U("indexes[1]", 0, 64), U("indexes[2]", 5, 64)>>
Resume == <<Tag("SyncRequestMessage", 2, 4), U("session_id", 77, 128), U("response_index", 0, 64), U("max_bytes", 9, 64)>>
EndSessionQ == <<Tag("SyncRequestMessage", 3, 4), U("session_id", 77, 128)>>

(* SyncType *)
Poll(req) == <<Tag("SyncType", 0, 5)>> \o req
Subscribe == <<Tag("SyncType", 1, 5), U("remain_open", 60, 64), U("max_bytes", 1000, 64), SeqLen("commands", 2, 100, 3)>>
             \o Addr("commands[1]", 2, 0) \o Addr("commands[2]", 0, 9) \o Id("graph_id", 1)
Unsubscribe == <<Tag("SyncType", 2, 5)>> \o Id("graph_id", 1)
Push(msg) == <<Tag("SyncType", 3, 5)>> \o SubSeq(msg, 1, Len(msg) - 1) \o Id("graph_id", 1) \o <<msg[Len(msg)]>>
PushNoData(msg) == <<Tag("SyncType", 3, 5)>> \o msg \o Id("graph_id", 1)
HelloSubscribe == <<Tag("SyncType", 4, 5), Tag("SyncHelloType", 0, 3)>> \o Id("graph_id", 1)
                  \o Dur("graph_change_delay") \o Dur("duration") \o Dur("schedule_delay")
HelloUnsubscribe == <<Tag("SyncType", 4, 5), Tag("SyncHelloType", 1, 3)>> \o Id("graph_id", 1)
HelloHello == <<Tag("SyncType", 4, 5), Tag("SyncHelloType", 2, 3)>> \o Id("graph_id", 1) \o Addr("head", 2, 0)

SubscribeResult == <<Tag("SubscribeResult", 1, 2)>>

(* template name -> [family, fields]; family = the entry point that receives the bytes:
   "type"  SyncIncoming::decode and the dispatch of its variant (responder receive+poll, update_heads,
           receive_push + add_commands, hello accessors)
   "resp"  SyncRequester::receive (+ add_commands)
   "sub"   SubscribeResponse::decode
   base = outcome class of the unmutated message (an Offer is a SessionState error for a requester
   that is not idle) *)
Templates ==
  [ PollRequest0     |-> [fam |-> "type", base |-> "ok", f |-> Poll(Request(0, 1))],
    PollRequest2     |-> [fam |-> "type", base |-> "ok", f |-> Poll(Request(2, 1))],
    PollRequestOther |-> [fam |-> "type", base |-> "ok", f |-> Poll(Request(1, 0))],
    PollMissing      |-> [fam |-> "type", base |-> "ok", f |-> Poll(Missing)],
    PollResume       |-> [fam |-> "type", base |-> "ok", f |-> Poll(Resume)],
    PollEndSession   |-> [fam |-> "type", base |-> "ok", f |-> Poll(EndSessionQ)],
    Subscribe        |-> [fam |-> "type", base |-> "ok", f |-> Subscribe],
    Unsubscribe      |-> [fam |-> "type", base |-> "ok", f |-> Unsubscribe],
    PushResponse2    |-> [fam |-> "type", base |-> "ok", f |-> Push(Response2)],
    PushResponseInit |-> [fam |-> "type", base |-> "ok", f |-> Push(ResponseInit)],
    PushSyncEnd      |-> [fam |-> "type", base |-> "ok", f |-> PushNoData(SyncEnd)],
    PushOffer        |-> [fam |-> "type", base |-> "err", f |-> PushNoData(Offer)],
    PushEndSession   |-> [fam |-> "type", base |-> "ok", f |-> PushNoData(EndSessionR)],
    HelloSubscribe   |-> [fam |-> "type", base |-> "ok", f |-> HelloSubscribe],
    HelloUnsubscribe |-> [fam |-> "type", base |-> "ok", f |-> HelloUnsubscribe],
    HelloHello       |-> [fam |-> "type", base |-> "ok", f |-> HelloHello],
    Response2        |-> [fam |-> "resp", base |-> "ok", f |-> Response2],
    ResponseInit     |-> [fam |-> "resp", base |-> "ok", f |-> ResponseInit],
    ResponseMerge    |-> [fam |-> "resp", base |-> "ok", f |-> ResponseMerge],
    Response0        |-> [fam |-> "resp", base |-> "ok", f |-> Response0],
    SyncEnd          |-> [fam |-> "resp", base |-> "ok", f |-> SyncEnd],
    Offer            |-> [fam |-> "resp", base |-> "err", f |-> Offer],
    EndSession       |-> [fam |-> "resp", base |-> "ok", f |-> EndSessionR],
    SubscribeResult  |-> [fam |-> "sub", base |-> "ok", f |-> SubscribeResult] ]

(* mutations by field kind *)
Muts(fld) ==
  {"cut-before"} \cup
  (CASE fld.k = "tag"     -> {"unknown", "huge"}
     [] fld.k = "u"       -> {"cut-inside", "overlong", "max"}
     [] fld.k = "idlen"   -> {"short", "long", "huge"}
     [] fld.k = "idbytes" -> {"cut-inside"}
     [] fld.k = "seqlen"  -> {"huge", "over-cap-claim"} \cup (IF fld.v >= 1 THEN {"over-cap-real"} ELSE {})
     [] fld.k = "bool"    -> {"two"}
     [] fld.k \in {"plen", "dlen"} -> {"plus-one", "max", "overlong"}
     [] fld.k = "data"    -> {"cut-inside"})

(* expected outcome class of a cell *)
Expect(T, fld, m) ==
  CASE m = "none" -> T.base
    [] m = "trailing" -> IF T.fam = "sub" THEN "any" ELSE T.base
    [] m = "max" /\ fld.k = "u" -> "any"
    [] OTHER -> "err"

Cells ==
  {[t |-> "-", i |-> 0, m |-> "random"]} \cup
  UNION {{[t |-> t, i |-> 0, m |-> "none"], [t |-> t, i |-> Len(Templates[t].f) + 1, m |-> "trailing"]}
         \cup UNION {{[t |-> t, i |-> i, m |-> m] : m \in Muts(Templates[t].f[i])} : i \in 1..Len(Templates[t].f)}
         : t \in DOMAIN Templates}

Init == cell \in Cells
Next == UNCHANGED cell
Spec == Init /\ [][Next]_vars

(* well-formedness of the grammar itself *)
GrammarOK ==
  \A t \in DOMAIN Templates :
    LET f == Templates[t].f IN
      /\ \A i \in 1..Len(f) : f[i].k \in {"tag", "u", "idlen", "idbytes", "seqlen", "bool", "plen", "dlen", "data"}
      /\ \A i \in 1..Len(f) : f[i].k = "tag" => f[i].v < f[i].w
      /\ \A i \in 1..Len(f) : f[i].k = "seqlen" => (f[i].v <= f[i].w /\ i + f[i].v * f[i].g <= Len(f))
      /\ \A i \in 1..Len(f) : f[i].k = "idlen" => (i < Len(f) /\ f[i + 1].k = "idbytes")
      \* the trailing data holds exactly the bytes the metas announce
      /\ LET RECURSIVE Sum(_) Sum(i) == IF i = 0 THEN 0 ELSE (IF f[i].k \in {"plen", "dlen"} THEN f[i].v ELSE 0) + Sum(i - 1)
             RECURSIVE Data(_) Data(i) == IF i = 0 THEN 0 ELSE (IF f[i].k = "data" THEN f[i].w ELSE 0) + Data(i - 1)
         IN Sum(Len(f)) = Data(Len(f))

Emit == PrintT("REPLAY " \o ToJson(
          IF cell.t = "-" THEN [t |-> "-", i |-> 0, m |-> "random", fam |-> "all", expect |-> "any", f |-> <<>>]
          ELSE LET T == Templates[cell.t]
                   fld == IF cell.i >= 1 /\ cell.i <= Len(T.f) THEN T.f[cell.i] ELSE F("-", "-", 0, 0)
               IN [t |-> cell.t, i |-> cell.i, m |-> cell.m, fam |-> T.fam, expect |-> Expect(T, fld, cell.m), f |-> T.f]))
=============================================================================
