\* Schedule generation (transition cover): 2 threads x 2 rounds with the code's PASSIVE_SPIN = 5
\* and spurious wake-ups; the state graph is dumped and every edge is replayed on the real mutex.
SPECIFICATION Spec
CONSTANTS
  Threads = {1, 2}
  Rounds = 2
  MoreRounds = {}
  PassiveSpin = 5
  Spurious = TRUE
  WakeOn = 2
INVARIANTS TypeOK MutualExclusion HeldImpliesLocked NoUnlockBug SleeperCovered
