------------------------------- MODULE MC_AfcShm -------------------------------
(* Model-checking constants for AfcShm: the writer scripts (a .cfg cannot hold nested tuples). *)
EXTENDS AfcShm

Add       == <<"add">>
Rm(i)     == <<"rm", i>>
RmIf(S)   == <<"rmif", S>>
Clear     == <<"clear">>

(* quick tier: every writer operation once, three calls per script, capacity 2 *)
ScriptsQuick == {
  <<Add, Add, Rm(0)>>,          \* remove while another channel exists (swap_remove reorders)
  <<Add, Rm(0), Add>>,          \* the removed id must not come back, the new one works
  <<Add, Add, Clear>>,
  <<Add, RmIf({0}), Add>>,
  <<Add, Add, RmIf({1})>>,
  <<Add, RmIf({5}), Rm(0)>>,    \* predicate without a match: swap without a bump
  <<Add, Add, Add>>             \* the third add finds the table full
}

(* thorough tier *)
ScriptsThorough == ScriptsQuick \cup {
  <<Add, Add, Rm(0), Add, Clear>>,
  <<Add, Add, RmIf({0, 1}), Add>>,
  <<Add, Add, Add, Rm(1), Add>>,
  <<Add, Rm(0), Rm(0), Add>>,
  <<Add, Clear, Clear, Add>>
}

(* C40: the reader seals on one channel while the writer works on *other* channels *)
ScriptsC40 == {
  <<Add, Add, Rm(1)>>,
  <<Add, Add, Add>>,
  <<Add, RmIf({5}), Add>>,
  <<Add, Add, RmIf({1})>>,
  <<Add, Add, Clear>>
}

(* C42: four calls, the table fills up and empties *)
ScriptsC42 == {
  <<Add, Add, Add, Rm(0)>>,
  <<Add, Add, Rm(0), Add>>,
  <<Add, Add, Clear, Add>>,
  <<Add, Add, RmIf({0, 1}), Add>>,
  <<Add, Rm(0), Rm(0), Add>>
}

ScriptsAll == ScriptsThorough \cup ScriptsC42

ScriptsG1 == ScriptsQuick \cup ScriptsC40 \cup {
  <<Add, Add, Rm(0), Rm(1)>>,        \* two removals: a context set up between them
  <<Add, Add, RmIf({0}), Clear>>
}
ScriptsTwo == {<<Add, Add, Rm(0)>>, <<Add, Clear, Add>>}

(* capacity 1: every add after the first finds the table full until a removal *)
ScriptsCap1 == { <<Add, Add, Rm(0), Add>>, <<Add, Clear, Add, Add>>, <<Add, RmIf({0}), Add, Rm(2)>> }

(* capacity 4: the reader's (seal) channel 2 sits in the LAST slot; removing a lower-indexed other
   channel makes swap_remove move it into the freed slot (its cached hint index goes stale) *)
ScriptsMove == {
  <<Add, Add, Add, Rm(0)>>,             \* [0,1,2] -> [2,1]
  <<Add, Add, Add, RmIf({0})>>,
  <<Add, Add, Add, RmIf({0, 1})>>,      \* [0,1,2] -> [2]
  <<Add, Add, Add, Rm(0), Add>>,        \* ... and an add afterwards: [2,1,3]
  <<Add, Add, Add, Rm(1), Rm(0)>>,      \* [0,2] -> [2]
  \* an OPEN channel (1) that is not last is removed: the last open channel (3) takes its slot,
  \* which a reader's open context still has as its lookup hint
  <<Add, Add, Add, Add, Rm(1)>>,        \* [0,1,2,3] -> [0,3,2]
  <<Add, Add, Add, Add, RmIf({1})>>,
  \* removal of an ABSENT id (already removed) from a non-empty table, then a call that flips the
  \* lists, then the removal of the reader's channel
  <<Add, Add, Rm(1), Rm(1), Add, Rm(0)>>,
  <<Add, Add, Rm(0), Rm(0), Add, Rm(1)>>
}

ScriptsAbsent == {<<Add, Add, Rm(1), Rm(1), Add, Rm(0)>>}
ScriptsOpenMove == {<<Add, Add, Add, Add, Rm(1)>>}
ScriptsMoveOne == {<<Add, Add, Add, Rm(0)>>}
ScriptsBump == {<<Add, Rm(0)>>}
ScriptsOne == {<<Add, Add, Rm(0)>>}
ScriptsSeq == {<<Add, Add, Rm(1)>>}
=============================================================================
