\* C20 quick: every DAG shape <= 4 nodes x every committed/flushed/unknown labelling, all
\* add_command sequences <= 6 (one witness per reachable state + full fan-out), Cap as in the code
SPECIFICATION Spec
CONSTANTS
  Cap = 10
  MaxDepth = 6
  InitShapes <- MC_Shapes4
  StatusMode = "all"
  Canon = FALSE
VIEW View
INVARIANTS AtMostCap NoDuplicates OnlyCommitted IsAntichain Emit
PROPERTIES StepRule
CHECK_DEADLOCK FALSE
