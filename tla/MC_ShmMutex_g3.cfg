\* Schedule generation (transition cover): 3 threads x 1 round, PASSIVE_SPIN = 5, no spurious wake-ups (safety only;
\* liveness for PASSIVE_SPIN = 5 is checked by MC_ShmMutex_thorough).
SPECIFICATION Spec
CONSTANTS
  Threads = {1, 2, 3}
  Rounds = 1
  MoreRounds = {}
  PassiveSpin = 5
  Spurious = FALSE
  WakeOn = 2
INVARIANTS TypeOK MutualExclusion HeldImpliesLocked NoUnlockBug SleeperCovered
