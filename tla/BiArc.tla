--------------------------------- MODULE BiArc ---------------------------------
(* C44 — `BiArc` / `Lender` / `Loan` of `crates/aranya-fast-channels/src/memory/lender.rs`:
   an Arc-like cell with at most two handles (the lender's and one loan's) and a single atomic
   flag `state` (UNSHARED = FALSE, SHARED = TRUE) instead of a counter.

   One label per atomic access of the code (one yield point each under the SCHED binding):

     lend   Lender::lend  = BiArc::try_clone:   old := swap(SHARED);  Some(loan) iff old = UNSHARED
     ldrop  drop(Lender)  = BiArc::drop:        old := swap(UNSHARED); free iff old = UNSHARED
     lfree                  the free itself (drop of the boxed value + dealloc)
     wait   (harness) the loan thread waits until the lender handed it a loan
     get    Loan::get_mut = BiArc::get_if_shared: load; Some(&S, &mut X) iff SHARED
     use / used (harness) the loan thread reads and writes the borrowed data
     drop   drop(Loan)    = BiArc::drop
     free

   The lender thread lends up to `Lends` times, as long as a loan thread without a loan is left
   (a successful loan goes to the first such thread), and then drops the lender; each loan thread, once it holds a loan, calls
   `get_mut` `Gets` times, using the data whenever it got access, and drops the loan.

   `FreeWhenOld` is the old flag value on which `BiArc::drop` frees: FALSE (UNSHARED) in the
   code.  MC_BiArc_mutant sets it to TRUE ("free when the old state was SHARED") and must be
   rejected by TLC.                                                                        *)
EXTENDS Naturals, FiniteSets, Sequences, TLC

CONSTANTS Loans,        \* loan thread ids (1..N)
          Lends,        \* number of `lend()` calls of the lender thread
          Gets,         \* number of `get_mut()` calls per loan
          FreeWhenOld   \* FALSE = the code

Lender == 0
NoLoan == 99

(* --algorithm BiArc {
  variables shared = FALSE,        \* BiArcInner::state
            freed = 0,             \* number of times the allocation was freed
            lenderGone = FALSE,    \* drop(Lender) has performed its swap
            slot = [k \in Loans |-> "none"],   \* none / given / dropped
            using = {},            \* loan threads between `use` and `used`
            uaf = FALSE,           \* monitor: an access happened after the free
            staleAccess = FALSE;   \* monitor: get_mut invoked after drop(Lender) returned got access
  process (lender = Lender)
    variables n = 0, old = FALSE;
  {
  lend:   if (freed > 0) { uaf := TRUE; };
          old := shared; shared := TRUE; n := n + 1;
          if (~old) {
             slot[CHOOSE k \in Loans : slot[k] = "none" /\ \A j \in Loans : slot[j] = "none" => k <= j] := "given";
          };
          \* the lender thread lends again while it has calls left and a loan thread without a loan
          if (n < Lends /\ \E k \in Loans : slot[k] = "none") { goto lend; };
  ldrop:  if (freed > 0) { uaf := TRUE; };
          old := shared; shared := FALSE; lenderGone := TRUE;
          if (old # FreeWhenOld) { goto Done; };
  lfree:  freed := freed + 1;
  }
  process (loan \in Loans)
    variables g = 0, got = FALSE, o = FALSE, after = FALSE;
  {
  wait:   await slot[self] = "given" \/ pc[Lender] = "Done";
          if (slot[self] # "given") { goto Done; };
  get:    if (freed > 0) { uaf := TRUE; };
          after := pc[Lender] = "Done";       \* invoked after drop(Lender) returned
          got := shared; g := g + 1;
          if (got /\ after) { staleAccess := TRUE; };
          if (~got) { if (g < Gets) { goto get; } else { goto drop; } };
  use:    if (freed > 0) { uaf := TRUE; };
          using := using \cup {self};
  used:   if (freed > 0) { uaf := TRUE; };
          using := using \ {self};
          if (g < Gets) { goto get; };
  drop:   if (freed > 0) { uaf := TRUE; };
          o := shared; shared := FALSE; slot[self] := "dropped";
          if (o # FreeWhenOld) { goto Done; };
  free:   freed := freed + 1;
  }
} *)
\* BEGIN TRANSLATION
VARIABLES pc, shared, freed, lenderGone, slot, using, uaf, staleAccess, n, 
          old, g, got, o, after

vars == << pc, shared, freed, lenderGone, slot, using, uaf, staleAccess, n, 
           old, g, got, o, after >>

ProcSet == {Lender} \cup (Loans)

Init == (* Global variables *)
        /\ shared = FALSE
        /\ freed = 0
        /\ lenderGone = FALSE
        /\ slot = [k \in Loans |-> "none"]
        /\ using = {}
        /\ uaf = FALSE
        /\ staleAccess = FALSE
        (* Process lender *)
        /\ n = 0
        /\ old = FALSE
        (* Process loan *)
        /\ g = [self \in Loans |-> 0]
        /\ got = [self \in Loans |-> FALSE]
        /\ o = [self \in Loans |-> FALSE]
        /\ after = [self \in Loans |-> FALSE]
        /\ pc = [self \in ProcSet |-> CASE self = Lender -> "lend"
                                        [] self \in Loans -> "wait"]

lend == /\ pc[Lender] = "lend"
        /\ IF freed > 0
              THEN /\ uaf' = TRUE
              ELSE /\ TRUE
                   /\ uaf' = uaf
        /\ old' = shared
        /\ shared' = TRUE
        /\ n' = n + 1
        /\ IF ~old'
              THEN /\ slot' = [slot EXCEPT ![CHOOSE k \in Loans : slot[k] = "none" /\ \A j \in Loans : slot[j] = "none" => k <= j] = "given"]
              ELSE /\ TRUE
                   /\ slot' = slot
        /\ IF n' < Lends /\ \E k \in Loans : slot'[k] = "none"
              THEN /\ pc' = [pc EXCEPT ![Lender] = "lend"]
              ELSE /\ pc' = [pc EXCEPT ![Lender] = "ldrop"]
        /\ UNCHANGED << freed, lenderGone, using, staleAccess, g, got, o, 
                        after >>

ldrop == /\ pc[Lender] = "ldrop"
         /\ IF freed > 0
               THEN /\ uaf' = TRUE
               ELSE /\ TRUE
                    /\ uaf' = uaf
         /\ old' = shared
         /\ shared' = FALSE
         /\ lenderGone' = TRUE
         /\ IF old' # FreeWhenOld
               THEN /\ pc' = [pc EXCEPT ![Lender] = "Done"]
               ELSE /\ pc' = [pc EXCEPT ![Lender] = "lfree"]
         /\ UNCHANGED << freed, slot, using, staleAccess, n, g, got, o, after >>

lfree == /\ pc[Lender] = "lfree"
         /\ freed' = freed + 1
         /\ pc' = [pc EXCEPT ![Lender] = "Done"]
         /\ UNCHANGED << shared, lenderGone, slot, using, uaf, staleAccess, n, 
                         old, g, got, o, after >>

lender == lend \/ ldrop \/ lfree

wait(self) == /\ pc[self] = "wait"
              /\ slot[self] = "given" \/ pc[Lender] = "Done"
              /\ IF slot[self] # "given"
                    THEN /\ pc' = [pc EXCEPT ![self] = "Done"]
                    ELSE /\ pc' = [pc EXCEPT ![self] = "get"]
              /\ UNCHANGED << shared, freed, lenderGone, slot, using, uaf, 
                              staleAccess, n, old, g, got, o, after >>

get(self) == /\ pc[self] = "get"
             /\ IF freed > 0
                   THEN /\ uaf' = TRUE
                   ELSE /\ TRUE
                        /\ uaf' = uaf
             /\ after' = [after EXCEPT ![self] = pc[Lender] = "Done"]
             /\ got' = [got EXCEPT ![self] = shared]
             /\ g' = [g EXCEPT ![self] = g[self] + 1]
             /\ IF got'[self] /\ after'[self]
                   THEN /\ staleAccess' = TRUE
                   ELSE /\ TRUE
                        /\ UNCHANGED staleAccess
             /\ IF ~got'[self]
                   THEN /\ IF g'[self] < Gets
                              THEN /\ pc' = [pc EXCEPT ![self] = "get"]
                              ELSE /\ pc' = [pc EXCEPT ![self] = "drop"]
                   ELSE /\ pc' = [pc EXCEPT ![self] = "use"]
             /\ UNCHANGED << shared, freed, lenderGone, slot, using, n, old, o >>

use(self) == /\ pc[self] = "use"
             /\ IF freed > 0
                   THEN /\ uaf' = TRUE
                   ELSE /\ TRUE
                        /\ uaf' = uaf
             /\ using' = (using \cup {self})
             /\ pc' = [pc EXCEPT ![self] = "used"]
             /\ UNCHANGED << shared, freed, lenderGone, slot, staleAccess, n, 
                             old, g, got, o, after >>

used(self) == /\ pc[self] = "used"
              /\ IF freed > 0
                    THEN /\ uaf' = TRUE
                    ELSE /\ TRUE
                         /\ uaf' = uaf
              /\ using' = using \ {self}
              /\ IF g[self] < Gets
                    THEN /\ pc' = [pc EXCEPT ![self] = "get"]
                    ELSE /\ pc' = [pc EXCEPT ![self] = "drop"]
              /\ UNCHANGED << shared, freed, lenderGone, slot, staleAccess, n, 
                              old, g, got, o, after >>

drop(self) == /\ pc[self] = "drop"
              /\ IF freed > 0
                    THEN /\ uaf' = TRUE
                    ELSE /\ TRUE
                         /\ uaf' = uaf
              /\ o' = [o EXCEPT ![self] = shared]
              /\ shared' = FALSE
              /\ slot' = [slot EXCEPT ![self] = "dropped"]
              /\ IF o'[self] # FreeWhenOld
                    THEN /\ pc' = [pc EXCEPT ![self] = "Done"]
                    ELSE /\ pc' = [pc EXCEPT ![self] = "free"]
              /\ UNCHANGED << freed, lenderGone, using, staleAccess, n, old, g, 
                              got, after >>

free(self) == /\ pc[self] = "free"
              /\ freed' = freed + 1
              /\ pc' = [pc EXCEPT ![self] = "Done"]
              /\ UNCHANGED << shared, lenderGone, slot, using, uaf, 
                              staleAccess, n, old, g, got, o, after >>

loan(self) == wait(self) \/ get(self) \/ use(self) \/ used(self)
                 \/ drop(self) \/ free(self)

(* Allow infinite stuttering to prevent deadlock on termination. *)
Terminating == /\ \A self \in ProcSet: pc[self] = "Done"
               /\ UNCHANGED vars

Next == lender
           \/ (\E self \in Loans: loan(self))
           \/ Terminating

Spec == Init /\ [][Next]_vars

Termination == <>(\A self \in ProcSet: pc[self] = "Done")

\* END TRANSLATION

-----------------------------------------------------------------------------
(* Properties (C44) *)
LiveLoans == {k \in Loans : slot[k] = "given"}

(* a channel entry lends at most one live handle at a time *)
AtMostOneLoan == Cardinality(LiveLoans) <= 1
(* the exclusive data is used by at most one thread at a time *)
ExclusiveUse == Cardinality(using) <= 1
(* nobody touches the allocation after it was freed *)
NoUseAfterFree == ~uaf
(* a handle loses access once its entry is removed *)
Revoked == ~staleAccess
RevokedState == lenderGone => ~shared
(* freed at most once, and not while a handle is alive *)
FreedOnce == freed <= 1
NoEarlyFree == (freed > 0) => (lenderGone /\ LiveLoans = {})
AllDone == \A p \in {Lender} \cup Loans : pc[p] = "Done"
(* ... and exactly once after both are gone *)
FreedAtEnd == AllDone => freed = 1
=============================================================================
