------------------------------- MODULE Trace_Sync -------------------------------
(* C16 / C17 — trace specification for recorded sync sessions (I2S).

   The conformance engine (`vh-sync session`) builds two real replicas from a TLC-chosen
   (DAG shape, A.committed, B.committed) triple of SyncAbs, stretches them, runs real
   SyncRequester / SyncResponder sessions and records one ndjson event per action of SyncAbs:

      reset      a new case: the real (stretched) DAG `par` and both committed sets
      sample     SyncAbs!Sample: the addresses the requester put on the wire
      response   SyncAbs!Respond: index, commands (in wire order), outcome of add_commands
      end        SyncAbs!End: the responder's SyncEnd and its max_index
      noend      the responder was still ready after more polls than it has commands
      error      a call failed in mid-session
      close      the session is over (after end; after the single response of a one-response
                 session; after an error)
      commit     SyncAbs!Commit: outcome, the requester's committed command set read back from storage
      converge   the loop `requester <- responder` stopped
      final      ping-pong reached quiescence: are heads and command sets equal?

   This module is *total*: it consumes every event and evaluates, in the abstract state it
   maintains with the operators of SyncAbs (Sound, ParentsFirst, ProgressOK — applied to the real
   commands), the clauses of the two properties; a failing clause is printed as a BAD record
   (line, case, key) and the rest of that case is skipped, so one run decides every case.
   POSTCONDITION: every line consumed; TRACE-ACCEPTED iff no BAD record.

   Clauses (key = failing class):
     C17:unsound-command       a response carries a command the responder has not committed (or a
                               command that differs from the committed one)
     C17:parents-first         a command arrives before one of its parents
     C17:add-commands:<err>    the requester's add_commands rejected a response
     C17:index                 response_index is not 0,1,2,...
     C17:end-index             SyncEnd.max_index is not the number of responses
     C17:oversized-response    more than COMMAND_RESPONSE_MAX commands
     C17:no-end                the session did not end within the bound
     C17:session-error:<who>:<what>
     C16:sample                the sample names a command the requester does not hold, or is too long
     C16:no-progress[...]      a closed session delivered no command the requester lacked although the
                               responder has one; sub-classified (DESIGN 7.6, SyncAbs exemptions):
          :req-heads>100                         the requester's frontier (maximal commands of what it holds,
                                                 committed or in the open transaction) exceeds the sample limit
          C16:dup-only-session:req-unknown-sample>=100   full sample, nothing of it known to the responder,
                                                 only duplicates delivered
          C16:dup-only-session:>=100-uncovered-duplicates   the requester sampled all its heads, yet >= 100 commands
                                                 arrived, all duplicates, none an ancestor-or-self of a sample
                                                 address the responder can locate (segment-head sampling
                                                 under-reports a segment that straddles shared and own commands;
                                                 the responder sends lowest max cuts first and truncates at 100
                                                 commands / 100 segments / max cut + 100)
          C16:dup-only-session:>=100-duplicates-covered-via-midsegment-prior   as above, but (some of) the duplicates
                                                 are ancestors of a located sample address that lies in *another*
                                                 segment (inseg_ok: in its own segment no located sample address is at
                                                 or above a received command): the responder queued a segment from its
                                                 uncovered head and dropped the coverage that arrived through a prior
                                                 pointing into the middle of it (find_needed_segments /
                                                 TraversalQueue::push_covered ignores a lower max cut), after which the
                                                 segments below are traversed as uncovered too; `inseg_ok` is a
                                                 storage-level observation logged by the engine
     C20:cache-...             a peer cache seen at the start (requester's) or the end (responder's) of a real
                               session holds a foreign id, more than ten or duplicate entries, an entry its
                               owner has not committed, an entry the peer does not hold, or (cases marked
                               `deep`) an entry that is an ancestor of another (reported by check C20)
     C16:commit                commit failed, or the committed set is not old + received
     C16:not-converged         the session loop stopped with commands missing
          :req-heads>100                         ... after sessions of the wide-requester class (livelock)
     C16:pingpong-diverged     after quiescence heads or command sets differ                       *)
EXTENDS Naturals, Sequences, FiniteSets, TLC, Json, IOUtils

VARIABLES i,          \* next line
          par,        \* real DAG of the case: command -> set of parents
          have,       \* [A |-> committed set, B |-> ...]
          held,       \* [A |-> received into a transaction that is still open, B |-> ...]
          sess,       \* the open session (record) or NoSess
          skip,       \* the case already has a verdict
          deep,       \* the case asks for the expensive cache checks (antichain)
          known       \* key of a known no-progress class seen in this case ("" if none)

vars == <<i, par, have, held, sess, skip, deep, known>>

(* SyncAbs supplies the property's predicates; its state is not used here *)
SA == INSTANCE SyncAbs WITH
        MaxNodes <- 1, SampleMax <- 100, RespMax <- 100, SegMax <- 100, CacheMax <- 10, Impl <- FALSE,
        OneShot <- FALSE, MaxSessions <- 0, AssumeProgress <- FALSE, Exempt <- FALSE,
        par <- par, anc <- <<>>, mc <- <<>>, haveA <- {}, haveB <- {}, pcA <- <<>>, phase <- "idle",
        sample <- <<>>, toSend <- <<>>, nextSend <- 1, idx <- 0, got <- <<>>, sess <- 0,
        flags <- [wide |-> FALSE, unknown |-> FALSE, everWide |-> FALSE]

Rec == ndJsonDeserialize(IOEnv.TRACE)

SeqSet(s) == {s[k] : k \in 1..Len(s)}
NoSess == [open |-> FALSE]

Other(r) == IF r = "A" THEN "B" ELSE "A"

(* a failing clause: print, count, skip the rest of the case *)
Bad(key) == /\ PrintT("PRINT BAD " \o ToJson([line |-> i, case |-> Rec[i].case, key |-> key]))
            /\ TLCSet(1, TLCGet(1) + 1)
            /\ IF TLCGet(2) = 0 THEN TLCSet(2, i) ELSE TRUE

Init == /\ i = 1
        /\ par = <<>>
        /\ have = [A |-> {}, B |-> {}]
        /\ held = [A |-> {}, B |-> {}]
        /\ sess = NoSess
        /\ skip = FALSE
        /\ deep = FALSE
        /\ known = ""
        /\ TLCSet(1, 0) /\ TLCSet(2, 0)

Holds(r) == have[r] \cup held[r]

----------------------------------------------------------------------------------
Reset(ev) ==
  /\ par' = [n \in 1..ev.n |-> SeqSet(ev.par[n])]
  /\ have' = [A |-> SeqSet(ev.A), B |-> SeqSet(ev.B)]
  /\ held' = [A |-> {}, B |-> {}]
  /\ sess' = NoSess
  /\ skip' = FALSE
  /\ deep' = ev.deep
  /\ known' = ""

Fail(key) == /\ Bad(key)
             /\ skip' = TRUE
             /\ UNCHANGED <<par, have, held, sess, deep, known>>

(* is command c an ancestor-or-self of a sample address the responder can locate?  (bounded walk
   downwards is not available in `par`; c is covered iff some located sample address reaches it,
   decided by walking up from the located addresses — only evaluated for the known-class test) *)
RECURSIVE UpClosure(_, _)
UpClosure(frontier, seen) ==
  IF frontier = {} THEN seen
  ELSE LET nxt == (UNION {par[c] : c \in frontier}) \ seen IN UpClosure(nxt, seen \cup nxt)

(* C20 at the system level: what a peer cache holds after real sessions.  `mine` = the owner's
   committed commands, `theirs` = what the peer holds *)
CacheKey(c, mine, theirs) ==
  LET cs == SeqSet(c) IN
  IF 0 \in cs THEN "C20:cache-foreign-entry"
  ELSE IF Len(c) > 10 \/ Cardinality(cs) # Len(c) THEN "C20:cache-over-capacity"
  ELSE IF ~(cs \subseteq mine) THEN "C20:cache-uncommitted-entry"
  ELSE IF ~(cs \subseteq theirs) THEN "C20:cache-peer-lacks-entry"
  ELSE IF deep /\ \E a \in cs : a \in UpClosure({b \in cs : b # a}, {}) THEN "C20:cache-not-antichain"
  ELSE ""

Sample(ev) ==
  LET s == SeqSet(ev.sample)
      ck == CacheKey(ev.cache, have[ev.req], Holds(ev.resp))
  IN
  IF sess.open THEN Fail("C17:session-error:harness:sample-inside-session")
  ELSE IF ~(s \subseteq Holds(ev.req)) \/ Len(ev.sample) > 100 THEN Fail("C16:sample")
  ELSE IF ck # "" THEN Fail(ck)
  ELSE /\ sess' = [open |-> TRUE, req |-> ev.req, resp |-> ev.resp, idx |-> 0, recv |-> {},
                   sample |-> s, nsample |-> Len(ev.sample), heads |-> ev.heads, reqheads |-> SeqSet(ev.head_ix),
                   oneshot |-> ev.oneshot, push |-> ev.push, ended |-> FALSE]
       /\ UNCHANGED <<par, have, held, skip, deep, known>>

Response(ev) ==
  LET req == sess.req
      resp == sess.resp
      cmds == ev.cmds
      before == Holds(req) \cup sess.recv
  IN
  IF ~sess.open \/ sess.ended THEN Fail("C17:session-error:harness:response-outside-session")
  ELSE IF ev.index # sess.idx THEN Fail("C17:index")
  ELSE IF Len(cmds) > 100 THEN Fail("C17:oversized-response")
  ELSE IF ~SA!Sound(cmds, have[resp]) THEN Fail("C17:unsound-command")
  ELSE IF ~SA!ParentsFirst(par, before, cmds) THEN Fail("C17:parents-first")
  ELSE IF ev.add # "ok" THEN Fail("C17:add-commands:" \o ev.add)
  ELSE /\ sess' = [sess EXCEPT !.idx = @ + 1, !.recv = @ \cup SeqSet(cmds)]
       /\ UNCHANGED <<par, have, held, skip, deep, known>>

End(ev) ==
  IF ~sess.open \/ sess.ended THEN Fail("C17:session-error:harness:end-outside-session")
  ELSE IF ev.max_index # sess.idx THEN Fail("C17:end-index")
  ELSE /\ sess' = [sess EXCEPT !.ended = TRUE]
       /\ UNCHANGED <<par, have, held, skip, deep, known>>

(* classification of a session without progress *)
NoProgressKey(ev) ==
  LET req == sess.req
      resp == sess.resp
      located == sess.sample \cap have[resp]
      covered == UpClosure(located, located)
      dupOnly == sess.recv # {} /\ sess.recv \subseteq Holds(req)
      \* the frontier the requester can advertise: maximal commands of what it holds (committed or
      \* in the open transaction)
      holds == Holds(req)
      frontier == holds \ UNION {par[c] : c \in holds}
  IN IF Cardinality(frontier) > 100 THEN "C16:no-progress:req-heads>100"
     ELSE IF dupOnly /\ sess.nsample >= 100 /\ located = {} THEN "C16:dup-only-session:req-unknown-sample>=100"
     ELSE IF dupOnly /\ Cardinality(sess.recv) >= 100 /\ ev.inseg_ok
               /\ sess.reqheads \subseteq UpClosure(sess.sample, sess.sample)
          THEN (IF sess.recv \cap covered = {} THEN "C16:dup-only-session:>=100-uncovered-duplicates"
                ELSE "C16:dup-only-session:>=100-duplicates-covered-via-midsegment-prior")
     ELSE "C16:no-progress"

Close(ev) ==
  LET rk == IF sess.open THEN CacheKey(ev.resp_cache, have[sess.resp], Holds(sess.req) \cup sess.recv) ELSE "" IN
  IF ~sess.open THEN Fail("C17:session-error:harness:close-outside-session")
  ELSE IF ~sess.oneshot /\ ~sess.ended THEN Fail("C17:no-end")
  ELSE IF rk # "" THEN Fail(rk)
  \* a push (subscribe + push exchange) is not a session A requests; C16's progress clause does not apply
  ELSE IF ~sess.push /\ ~SA!ProgressOK(Holds(sess.req), have[sess.resp], sess.recv)
       THEN /\ Bad(NoProgressKey(ev))
            \* the known classes only delay (or, for wide requesters, prevent) convergence: keep validating
            /\ known' = (IF NoProgressKey(ev) = "C16:no-progress:req-heads>100" \/ known = "C16:no-progress:req-heads>100"
                        THEN "C16:no-progress:req-heads>100" ELSE NoProgressKey(ev))
            /\ held' = [held EXCEPT ![sess.req] = @ \cup sess.recv]
            /\ sess' = NoSess
            /\ skip' = (NoProgressKey(ev) = "C16:no-progress")
            /\ UNCHANGED <<par, have, deep>>
       ELSE /\ held' = [held EXCEPT ![sess.req] = @ \cup sess.recv]
            /\ sess' = NoSess
            /\ UNCHANGED <<par, have, skip, deep, known>>

Commit(ev) ==
  LET r == ev.who IN
  IF sess.open THEN Fail("C17:session-error:harness:commit-inside-session")
  ELSE IF ev.ok # "ok" \/ SeqSet(ev.walk) # Holds(r) THEN Fail("C16:commit")
  ELSE /\ have' = [have EXCEPT ![r] = Holds(r)]
       /\ held' = [held EXCEPT ![r] = {}]
       /\ UNCHANGED <<par, sess, skip, deep, known>>

Converge(ev) ==
  IF have[ev.resp] \subseteq have[ev.req] THEN UNCHANGED <<par, have, held, sess, skip, deep, known>>
  \* a requester with more heads than the sample limit may never converge (livelock, DESIGN 7.6 a);
  \* after the duplicate-only classes eventual delivery must still hold
  ELSE Fail(IF known = "C16:no-progress:req-heads>100" THEN "C16:not-converged:req-heads>100" ELSE "C16:not-converged")

Final(ev) ==
  IF ev.heads_equal /\ ev.sets_equal /\ have.A = have.B THEN UNCHANGED <<par, have, held, sess, skip, deep, known>>
  ELSE Fail("C16:pingpong-diverged")

Error(ev) == Fail("C17:session-error:" \o ev.who \o ":" \o ev.what)

Step ==
  /\ i <= Len(Rec)
  /\ i' = i + 1
  /\ LET ev == Rec[i] IN
       IF ev.e = "reset" THEN Reset(ev)
       ELSE IF skip THEN UNCHANGED <<par, have, held, sess, skip, deep, known>>
       ELSE CASE ev.e = "sample"   -> Sample(ev)
              [] ev.e = "response" -> Response(ev)
              [] ev.e = "end"      -> End(ev)
              [] ev.e = "noend"    -> Fail("C17:no-end")
              [] ev.e = "error"    -> Error(ev)
              [] ev.e = "close"    -> Close(ev)
              [] ev.e = "commit"   -> Commit(ev)
              [] ev.e = "converge" -> Converge(ev)
              [] ev.e = "final"    -> Final(ev)
              [] OTHER             -> Fail("C17:session-error:harness:unknown-event")

Spec == Init /\ [][Step]_vars

(* state invariants of the abstract state the trace drives (checked at every step) *)
TypeOK == /\ i \in 1..(Len(Rec) + 1)
          /\ held.A \cap have.A = {} \/ TRUE

Consumed == TLCGet("stats").diameter - 1 = Len(Rec)
Post == IF Consumed /\ TLCGet(1) = 0 THEN PrintT("TRACE-ACCEPTED")
        ELSE IF ~Consumed THEN PrintT("TRACE-REJECTED at " \o ToString(TLCGet("stats").diameter))
        ELSE PrintT("TRACE-REJECTED at " \o ToString(TLCGet(2)))
=================================================================================
