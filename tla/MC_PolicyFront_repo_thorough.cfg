\* C27 thorough: token mutations of the repository's policy documents, every 5th position
SPECIFICATION Spec
CONSTANTS
  Families = {"repo"}
  GrowDepth = 0
  Stride = 5
  MutStride = 1
  DocEols = {"lf"}
  DocBefores = {"none"}
INVARIANTS WellFormed Emit
CHECK_DEADLOCK FALSE
