\* C16/C17 property level: every DAG shape <= 3 commands, every pair of committed sets, every sound
\* session (any sample <= 1, any parents-first batches <= 2), Progress assumed => convergence
SPECIFICATION Spec
CONSTANTS
  MaxNodes = 3
  SampleMax = 1
  RespMax = 2
  SegMax = 2
  CacheMax = 2
  Impl = FALSE
  OneShot = FALSE
  MaxSessions = 3
  AssumeProgress = TRUE
  Exempt = FALSE
INVARIANTS TypeOK AClosed GotSound NoRepeat SampleOK IndexOK Terminates Progress ConvergedWhenDone EmitPairs
PROPERTIES StepSound Monotone Converges
CHECK_DEADLOCK FALSE
