SPECIFICATION Spec
INVARIANT TypeOK
POSTCONDITION Post
CHECK_DEADLOCK FALSE
