SPECIFICATION Spec
CONSTANTS
  Scheme = "cmdsig"
  MaxTamper = 1
  HashModel = "concat"
  PLens = {0}
INVARIANTS AcceptIffUnchanged
CHECK_DEADLOCK FALSE
