SPECIFICATION Spec
CONSTANTS
  Schemes = {"cmdsig"}
  MaxTamper = 1
  HashModel = "concat"
  PLens = {0}
  DataLens = {0}
INVARIANTS AcceptIffUnchanged
CHECK_DEADLOCK FALSE
