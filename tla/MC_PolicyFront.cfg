\* C27: expressions (atoms + one constructor level), statements x contexts, definition
\* defects, token mutations of the base programs, Markdown structure, nesting
SPECIFICATION Spec
CONSTANTS
  Families = {"expr", "stmt", "defs", "arity", "card", "mut", "doc", "nest"}
  GrowDepth = 0
  Stride = 1
  MutStride = 1
  DocEols = {"lf", "crlf"}
  DocBefores = {"none", "ascii", "wide"}
INVARIANTS WellFormed PlacementTotal Emit
CHECK_DEADLOCK FALSE
