\* Schedule graph 4: 3 threads, thread 1 locks twice (it comes back on the fast path while the others are
\* queued or just woken), threads 2 and 3 once; PASSIVE_SPIN = 1 in the spec — the replay lets a thread
\* that keeps seeing a held lock run through the code's remaining spin loads in the same step.
SPECIFICATION Spec
CONSTANTS
  Threads = {1, 2, 3}
  Rounds = 1
  MoreRounds = {1}
  PassiveSpin = 1
  Spurious = FALSE
  WakeOn = 2
INVARIANTS TypeOK MutualExclusion HeldImpliesLocked NoUnlockBug SleeperCovered
PROPERTIES NoLostWakeup AllDone
