\* C30 quick: every command policy with <= 3 statements, nesting 1
SPECIFICATION Spec
CONSTANTS
  MaxStmts = 3
  MaxDepth = 1
  OpsMenu <- MCOpsMenuSmall
  RecallMenu <- MCRecallMenuSmall
  MatchArms <- MCMatchArms
INVARIANTS NoSideEffectsOnFailure RecalledMarked ExitShape CompiledAgrees Emit
CHECK_DEADLOCK FALSE
