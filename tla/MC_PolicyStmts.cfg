\* C30 quick: every command policy with <= 3 statements, nesting <= 2, full menus (12 266 programs)
SPECIFICATION Spec
CONSTANTS
  MaxStmts = 3
  MaxDepth = 2
  OpsMenu <- MCOpsMenu
  RecallMenu <- MCRecallMenu
  MatchArms <- MCMatchArms
  ExtraSimple = {}
  WithElif = TRUE
  StrayBase <- MCStrayBase
  StrayOps <- MCStrayOpsQuick
  XKinds <- MCXKinds
  Enumerate = TRUE
INVARIANTS WellFormed NoSideEffectsOnFailure RecalledMarked ExitShape CompiledAgrees Emit
CHECK_DEADLOCK FALSE
