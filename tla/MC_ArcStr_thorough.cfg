\* C33 thorough: 3 threads, <= 2 clones and <= 1 read each.
SPECIFICATION Spec
CONSTANTS
  Threads = {1, 2, 3}
  Owners = {1, 2, 3}
  MaxClones = 2
  MaxReads = 1
  FreeOn = 1
INVARIANTS NoUseAfterFree FreedOnce CountNonNeg CountIsHandles NoEarlyFree NoLeak
