\* C13 (session half) quick tier: <= 1 committed action, two sessions, <= 1 published command, programs of
\* <= 1 update + optional check over two fact keys; every interleaving of actions and receives
\* within the bounds; invariants in every state, C14 on every transition, one S2I behaviour per
\* FAILING transition.
SPECIFICATION Spec
CONSTANTS
  Names = {"x"}
  Keys <- MCKeys
  PartOrd <- MCPartOrd
  MaxSessions = 2
  Programs <- MCPrograms
  Record = TRUE
  Fat = FALSE
  MaxCommits = 1
  MaxLog = 2
  MaxOut = 1
  MaxUps = 1
  ActorsOnly1 = TRUE
  SimDepth = 0
ACTION_CONSTRAINT EmitFail
VIEW View
INVARIANTS OverlayRefines PrefixMergeOK CurIsFold
PROPERTIES C14
CHECK_DEADLOCK FALSE
