\* C42 quick: writer scripts of 4 calls incl. add on a full table, capacity 2, two readers with 1 call each.
SPECIFICATION Spec
CONSTANTS
  Readers = {1, 2}
  Cap = 2
  WScripts <- ScriptsC42
  ROps = 1
  Mutant = "none"
INVARIANTS TypeOK SeqsOk RemovalEffective NoLostChannel NoResurrection SidesEqualWhenIdle TableIsModel NoDuplicates WithinCap ReaderSeesProduced OutOfSpaceIffFull IdsNeverReused InSync
CHECK_DEADLOCK FALSE
