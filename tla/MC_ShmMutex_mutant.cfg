\* Self-test: "unlock wakes only when it saw 1" must be rejected (lost wake-up).
SPECIFICATION Spec
CONSTANTS
  Threads = {1, 2}
  Rounds = 2
  MoreRounds = {}
  PassiveSpin = 1
  Spurious = FALSE
  WakeOn = 1
INVARIANTS MutualExclusion
PROPERTIES NoLostWakeup AllDone
