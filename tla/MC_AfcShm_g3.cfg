\* Schedule graph 3 (also a design run): capacity 4; swap_remove relocates channels while a reader context holds a cached key, sequence number and slot hint (seal and open); removals of absent ids before real removals; one reader with 3 calls.
SPECIFICATION Spec
CONSTANTS
  Readers = {1}
  Cap = 4
  WScripts <- ScriptsMove
  ROps = 3
  Mutant = "none"
INVARIANTS TypeOK SeqsOk RemovalEffective NoLostChannel NoResurrection SidesEqualWhenIdle TableIsModel NoDuplicates WithinCap ReaderSeesProduced OutOfSpaceIffFull IdsNeverReused InSync
CHECK_DEADLOCK FALSE
