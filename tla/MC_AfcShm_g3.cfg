\* Schedule graph 3 (also a design run): capacity 3, the reader's channel is relocated by swap_remove
\* while its context holds a cached key, sequence number and slot hint; one reader with 4 calls.
SPECIFICATION Spec
CONSTANTS
  Readers = {1}
  Cap = 3
  WScripts <- ScriptsMove
  ROps = 4
  Mutant = "none"
INVARIANTS TypeOK SeqsOk RemovalEffective NoLostChannel NoResurrection SidesEqualWhenIdle TableIsModel NoDuplicates WithinCap ReaderSeesProduced OutOfSpaceIffFull IdsNeverReused InSync
CHECK_DEADLOCK FALSE
