\* Self-test: "BiArc::drop frees when the old state was SHARED" must be rejected.
SPECIFICATION Spec
CONSTANTS
  Loans = {1, 2}
  Lends = 3
  Gets = 2
  FreeWhenOld = TRUE
INVARIANTS AtMostOneLoan ExclusiveUse NoUseAfterFree Revoked RevokedState FreedOnce NoEarlyFree FreedAtEnd
