SPECIFICATION Spec
CONSTANTS
  MaxInline = 22
  Lens = {0, 1, 3, 21, 22, 23, 1024}
  StaticLens = {0, 1, 3, 21, 22, 23}
  SkipValidate = {}
  OrdByForm = FALSE
  HeapLenFirst = TRUE
INVARIANTS ExistsIffValid CompareByContent
CHECK_DEADLOCK FALSE
