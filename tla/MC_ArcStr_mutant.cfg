\* Self-test: "ArcStr::drop frees when fetch_sub returned 2" must be rejected.
SPECIFICATION Spec
CONSTANTS
  Threads = {1, 2}
  Owners = {1, 2}
  MaxClones = 1
  MaxReads = 1
  FreeOn = 2
INVARIANTS NoUseAfterFree FreedOnce CountNonNeg CountIsHandles NoEarlyFree NoLeak
