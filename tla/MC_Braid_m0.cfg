\* merge ids sort BEFORE basic ids
SPECIFICATION Spec
CONSTANTS
  MergeTag = 0
  N = 3
  Kinds = {"b0", "b1", "fin"}
  Ops = {"n"}
  EmitEvery = 1
  EmitSalt = 0
INVARIANTS InvAlgEqRef InvLcaWalk InvFoldWalk InvFinalize InvOnce InvDominator InvFinalizeFirst Emit
CHECK_DEADLOCK FALSE
