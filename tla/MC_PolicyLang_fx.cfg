\* exhaustive, effects mode (C23): panics, foreign calls and failing checks in every hole
SPECIFICATION Spec
CONSTANTS
  MaxDepth = 1
  StmtDepth = 0
  Effects = TRUE
  Focus = "all"
  Quirks = FALSE
  EnvCap = 8
  RetTypes <- MC_RetIntBool
INVARIANTS Emit DerivationInExprs
CHECK_DEADLOCK FALSE
