------------------------------- MODULE CStrWriter -------------------------------
(* C47 — `aranya_capi_core::cstr::{write_c_str, CStrWriter}`.

   A sequential machine: a caller buffer of `size` cells, the counter `nw`, a sequence of
   `write_str` fragments (one `Write` action per `fmt::Write::write_str` call of the real
   writer) and `Finish`.  The byte of the text at overall index j is `Char(j)`; cell values
   are "u" (untouched), a Char, or NUL.

   The spec is implementation-shaped: a fragment that does not fit is *not* partially
   copied, it only advances `nw` (as the code does), and `Finish` writes the NUL at
   min(nw, size) if that cell exists.  `writes` records every cell index ever written so
   `NoOverflow` is a real invariant and not a by-construction truth.                        *)
EXTENDS Naturals, Sequences, FiniteSets, TLC, Json

CONSTANTS MaxSize,    \* buffer sizes 0..MaxSize
          MaxFrags,   \* at most this many write_str fragments
          MaxLen      \* each of length 0..MaxLen

VARIABLES size, nw, buf, frags, phase, ok, writes

vars == <<size, nw, buf, frags, phase, ok, writes>>

NUL == 0
Char(j) == 65 + (j % 26)
Total == LET RECURSIVE S(_) S(i) == IF i = 0 THEN 0 ELSE frags[i] + S(i-1) IN S(Len(frags))
Min(a, b) == IF a < b THEN a ELSE b

Init == /\ size \in 0..MaxSize
        /\ nw = 0
        /\ buf = [i \in 0..(size-1) |-> "u"]
        /\ frags = <<>>
        /\ phase = "writing"
        /\ ok = FALSE
        /\ writes = {}

(* CStrWriter::write *)
Write(n) ==
  /\ phase = "writing"
  /\ Len(frags) < MaxFrags
  /\ frags' = Append(frags, n)
  /\ LET end == nw + n
         \* split_last_mut chops the terminator cell; get_mut(nw..end) must lie inside the rest
         fits == size >= 1 /\ end <= size - 1 /\ nw <= end
     IN IF n = 0 THEN UNCHANGED <<nw, buf, writes>>
        ELSE IF fits
             THEN /\ buf' = [i \in 0..(size-1) |-> IF i >= nw /\ i < end THEN Char(i) ELSE buf[i]]
                  /\ writes' = writes \cup (nw..(end-1))
                  /\ nw' = end
             ELSE /\ nw' = end
                  /\ UNCHANGED <<buf, writes>>
  /\ UNCHANGED <<size, phase, ok>>

(* CStrWriter::finish *)
Finish ==
  /\ phase = "writing"
  /\ LET idx == Min(nw, size) IN
       IF idx < size
       THEN buf' = [buf EXCEPT ![idx] = NUL] /\ writes' = writes \cup {idx}
       ELSE UNCHANGED <<buf, writes>>
  /\ nw' = nw + 1
  /\ ok' = (nw + 1 <= size)
  /\ phase' = "done"
  /\ UNCHANGED <<size, frags>>

Next == (\E n \in 0..MaxLen : Write(n)) \/ Finish

Spec == Init /\ [][Next]_vars

----------------------------------------------------------------------------------
(* Properties (C47) *)

NoOverflow == \A i \in writes : i < size

FinishCorrect ==
  phase = "done" =>
    /\ ok <=> (size >= Total + 1)
    /\ nw = Total + 1                                   \* length/needed size incl. NUL
    /\ ok => /\ \A j \in 0..(Total-1) : buf[j] = Char(j)
             /\ buf[Total] = NUL

(* nw counts exactly the text so far while writing — what makes the failure report exact *)
NwExact == phase = "writing" => nw = Total

----------------------------------------------------------------------------------
(* S2I emission: one line per maximal behaviour *)
Hist == [size |-> size, frags |-> frags, ok |-> ok, nw |-> nw]
Emit == phase = "done" => PrintT("REPLAY " \o ToJson(Hist))
=================================================================================
