\* C25: seeded simulation of longer programs (4-5 instructions, loops cut at 12 steps)
SPECIFICATION Spec
CONSTANTS
  Lens = {4, 5}
  MaxInit = 1
  Budget = 12
  CellSet <- AllCells
  InitSet <- AllInits
INVARIANTS OutcomeDefined StackBounded TypeOK Emit
CHECK_DEADLOCK FALSE
