SPECIFICATION Spec
CONSTANTS
  MaxInline = 22
  Lens = {0, 1, 3, 21, 22, 23, 1024}
  StaticLens = {0, 1, 3, 21, 22, 23}
  SkipValidate = {}
  OrdByForm = FALSE
  HeapLenFirst = FALSE
INVARIANTS ExistsIffValid CompareByContent Emit
CHECK_DEADLOCK FALSE
