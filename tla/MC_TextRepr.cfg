SPECIFICATION Spec
CONSTANTS
  MaxInline = 22
  Lens = {0, 1, 3, 21, 22, 23, 1024}
  SkipValidate = {}
  OrdByForm = FALSE
INVARIANTS ExistsIffValid CompareByContent Emit
CHECK_DEADLOCK FALSE
