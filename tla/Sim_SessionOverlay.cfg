\* C14/C13: seeded simulation over the whole key universe (sequences of length <= 2 over
\* {"", "a", "b"}), two names, programs of one update (a few of two) + check, up to 6 committed actions and
\* long session logs: exercises the sorted-merge prefix iterator with many keys and tombstones.
\* Every step carries its expectation (Fat).
SPECIFICATION Spec
CONSTANTS
  Names = {"x", "y"}
  Keys <- AllKeys
  PartOrd <- MCPartOrd
  MaxSessions = 2
  Programs <- SimPrograms
  Record = TRUE
  Fat = TRUE
  MaxCommits = 6
  MaxLog = 14
  MaxOut = 30
  MaxUps = 1
  ActorsOnly1 = FALSE
  SimDepth = 50
ACTION_CONSTRAINT SimBound
INVARIANTS OverlayRefines CurIsFold EmitSim
CHECK_DEADLOCK FALSE
