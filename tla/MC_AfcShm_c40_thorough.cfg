\* C40 thorough: two readers with 3 calls each.
SPECIFICATION Spec
CONSTANTS
  Readers = {1, 2}
  Cap = 2
  WScripts <- ScriptsC40
  ROps = 3
  Mutant = "none"
INVARIANTS TypeOK SeqsOk RemovalEffective NoLostChannel NoResurrection SidesEqualWhenIdle TableIsModel NoDuplicates WithinCap ReaderSeesProduced OutOfSpaceIffFull IdsNeverReused InSync
CHECK_DEADLOCK FALSE
