\* C12: bare fact perspectives (get_fact_perspective / write_facts, what a braid uses) over the
\* canned contexts: every location, up to MaxFUps inserts/deletes over two keys, the written index.
INIT RevInit
NEXT Next
CONSTANTS
  Names = {"x"}
  Keys <- MCKeys
  ValChoice <- MCVal
  MaxDepth = 2
  Record = TRUE
  Fat = FALSE
  MaxSegs = 2
  MaxCmds = 2
  MaxCur = 1
  MaxCps = 0
  MaxTotCmds = 3
  MaxTotUps = 3
  MaxFUps = 2
  MaxIdx = 5
  NoErr = TRUE
  SimDepth = 0
ACTION_CONSTRAINT EmitFacts
VIEW View
INVARIANTS SegRefines MidRefines PerspRefines FactPerspRefines ChainOK PriorFactsOK
PROPERTIES RevertExact
CHECK_DEADLOCK FALSE
