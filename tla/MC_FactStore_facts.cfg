\* C12: bare fact perspectives (get_fact_perspective / write_facts, what a braid uses) and the merge
\* perspective that takes the written braid index as prior facts, over the canned contexts; the
\* merge segment is written and reopened at each command.
INIT RevInit
NEXT Next
CONSTANTS
  Names = {"x"}
  Keys <- MCKeys
  ValChoice <- MCVal
  OpenCands <- Locs
  MergeCands <- AllPairs
  MaxDepth = 2
  Record = TRUE
  Fat = FALSE
  MaxSegs = 2
  MaxCmds = 2
  MaxCur = 1
  MaxCps = 0
  MaxTotCmds = 3
  MaxTotUps = 3
  MaxFUps = 2
  MaxIdx = 7
  NoErr = TRUE
  SimDepth = 0
ACTION_CONSTRAINT EmitFacts
VIEW View
INVARIANTS SegRefines MidRefines PerspRefines FactPerspRefines BraidRefines ChainOK PriorFactsOK
PROPERTIES RevertExact
CHECK_DEADLOCK FALSE
