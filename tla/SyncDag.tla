------------------------------- MODULE SyncDag -------------------------------
(* Pure operators over small command DAGs, shared by PeerCache, SyncAbs and Trace_Sync.

   A DAG is a sequence `par` over nodes 1..Len(par): par[n] is the set of parents of n, every
   parent is smaller than n (the numbering is a topological order), node 1 is the init command
   (no parents), every other node has one parent (basic command) or two causally unrelated
   parents (merge command).

   `Shapes(N)` is the set of all such DAGs with exactly N nodes in *canonical numbering*: the
   largest parent is non-decreasing in n.  Every DAG has such a numbering (number greedily the
   ready node whose largest parent is smallest), and nothing in the sync layer depends on the
   numbering (command ids are hashes, unrelated to ancestry; the harness draws ids from the
   seed), so enumerating canonical numberings enumerates all shapes.                          *)
EXTENDS Naturals, Sequences, FiniteSets

Nodes(par) == 1..Len(par)

RECURSIVE AncOf(_, _)
(* strict ancestors of n *)
AncOf(par, n) == par[n] \cup UNION {AncOf(par, p) : p \in par[n]}

AncSelf(par, n) == AncOf(par, n) \cup {n}

Closed(par, S) == \A n \in S : par[n] \subseteq S

Closure(par, S) == UNION {AncSelf(par, n) : n \in S}

(* maximal elements of a set of nodes *)
Heads(par, S) == {n \in S : ~\E m \in S : n \in AncOf(par, m)}

Antichain(par, S) == \A a, b \in S : a # b => (a \notin AncOf(par, b) /\ b \notin AncOf(par, a))

RECURSIVE McOf(_, _)
(* max cut: longest distance to init *)
McOf(par, n) == IF par[n] = {} THEN 0
                ELSE LET ms == {McOf(par, p) : p \in par[n]}
                     IN 1 + CHOOSE m \in ms : \A k \in ms : k <= m

MaxOf(S) == CHOOSE m \in S : \A k \in S : k <= m

(* all causally closed subsets containing init *)
Downsets(par) == {S \in SUBSET Nodes(par) : 1 \in S /\ Closed(par, S)}

(* candidate parent sets of a new node n over the prefix DAG `par` (nodes 1..n-1) *)
ParentChoices(par) ==
  LET ns == Nodes(par) IN
    {{p} : p \in ns}
    \cup {{p, q} : <<p, q>> \in {pq \in ns \X ns : /\ pq[1] < pq[2]
                                                 /\ pq[1] \notin AncOf(par, pq[2])}}

RECURSIVE ShapesUpTo(_)
(* canonical DAGs with exactly N nodes *)
ShapesUpTo(N) ==
  IF N = 1 THEN {<<{}>>}
  ELSE {Append(par, ps) : <<par, ps>> \in
          {pp \in ShapesUpTo(N - 1) \X SUBSET (1..(N - 1)) :
              /\ pp[2] \in ParentChoices(pp[1])
              /\ (N > 2 => MaxOf(pp[2]) >= MaxOf(pp[1][N - 1]))}}

Shapes(N) == ShapesUpTo(N)

(* `PeerCache::add_command` as a pure function: `anc` = ancestor relation (node -> strict
   ancestors), `committed` = locally committed nodes, `c` = cache (sequence), (n, ok) = address.
   See PeerCache.tla for the transcription notes. *)
CacheAdd(anc, committed, cap, c, n, ok) ==
  IF ~(ok /\ n \in committed) THEN c
  ELSE LET Blocks(old) == old = n \/ n \in anc[old]       \* keep old, do not add
           Evicted(old) == ~Blocks(old) /\ old \in anc[n]
           kept == SelectSeq(c, LAMBDA old : ~Evicted(old))
           add == \A i \in 1..Len(c) : ~Blocks(c[i])
       IN IF add /\ Len(kept) < cap THEN Append(kept, n) ELSE kept

(* a star: init and W children of it *)
Star(W) == [n \in 1..(W + 1) |-> IF n = 1 THEN {} ELSE {1}]
=============================================================================
