------------------------------- MODULE SyncProto -------------------------------
(* C18 (a) — the two session state machines of the sync protocol
   (crates/aranya-runtime/src/sync/requester.rs `SyncRequester`, responder.rs `SyncResponder`),
   one action per public call, errors as outcomes, with a hostile peer: every message kind, with
   the own or a foreign session id, in order / skipped / repeated index, SyncEnd with right or
   wrong max_index, malformed command lengths, unsupported requests, unknown graph, poll buffers
   that are large, too small for a response, or too small for anything.

   Requester (`Side = "req"`): states New Start Waiting Idle Closed Resync PartialSync Reset,
   `nxt` = next_message_index.  Calls: poll, recv(message), push(message) (= receive_push).
   Responder (`Side = "resp"`): states New Start Send Idle Reset Stopped, `sid` = adopted session
   (0 = none), `graph` in {"none","ok","bad"}, `sent` = responses sent since the last request
   (next_send; the needed segments are abstracted to `Resp` responses for a known graph), `idx` =
   message_index.  Calls: recv(request), poll(buffer), push (first call after a request only).

   Both machines are deterministic functions `Apply(state, call)` of the state; the action `Do`
   applies one call.  The property (C18): the requester returns commands only for a SyncResponse
   of its own session carrying exactly the next index (Accepts, InOrder); the responder labels its
   responses 0,1,2.. with the session it adopted (RespCounts); an unsupported request is an error
   after which the machine is ready() and the next poll closes the session (UnsupportedClosed);
   ready() is FALSE exactly when poll answers NotReady (ReadyConsistent); a message of a foreign
   session changes nothing (MismatchInert).

   Deliberate deviations of the code, modelled as they are (differences there are drift, not
   failures): `SyncResponder::get_next` and the Reset arm of `poll` change state *before* writing
   SyncEnd / EndSession, so a buffer too small even for those loses the message (TinyLoss); a
   malformed response consumes its index (the index is advanced before the command lengths are
   checked); `message_index` survives a second SyncRequest on the same responder; requester
   state Idle is never entered, so Offer is always a SessionState error.                        *)
EXTENDS Naturals, Sequences, FiniteSets, TLC, Json

CONSTANTS Sides,       \* which machines to explore: subset of {"req", "resp"}
          MaxDepth,    \* calls per behaviour
          Resp         \* responses a fresh session of the responder needs (storage dependent; 2 in the harness)

VARIABLES Side,        \* "req" | "resp": the machine of this behaviour (fixed by Init)
          s,           \* machine state (record)
          depth, acc, hist

vars == <<Side, s, depth, acc, hist>>

OWN == 1            \* the requester's session id / the first id the responder sees
FOREIGN == 2

----------------------------------------------------------------------------------
(* Requester *)

ReqStates == {"New", "Start", "Waiting", "Idle", "Closed", "Resync", "PartialSync", "Reset"}
ReqReady(st) == st \in {"New", "Resync", "Reset"}

(* messages a peer may send: kind, session, index class *)
ReqMsgs ==
  [k : {"Response", "Malformed"}, s : {OWN, FOREIGN}, ix : {"next", "skip", "repeat"}]
  \cup [k : {"End"}, s : {OWN, FOREIGN}, ix : {"next", "skip"}]
  \cup [k : {"Offer", "EndSession"}, s : {OWN, FOREIGN}, ix : {"next"}]
(* `recv` = SyncRequester::receive(bytes); `push` = SyncIncoming::decode of a SyncType::Push carrying
   the same message, handed to SyncRequester::receive_push — both end in get_sync_commands *)
ReqCalls == {[call |-> "poll"]} \cup {[call |-> "recv", msg |-> m] : m \in ReqMsgs}
            \cup {[call |-> "push", msg |-> m] : m \in ReqMsgs}

IxVal(q, m) == CASE m.ix = "next" -> q.nxt [] m.ix = "skip" -> q.nxt + 1
                 [] m.ix = "repeat" -> IF q.nxt = 0 THEN 7 ELSE q.nxt - 1

(* result classes: "cmds" = Ok(Some(commands)), "none" = Ok(None), "msg:<kind>" for a produced
   message, otherwise the SyncError variant *)
ReqApply(q, c) ==
  IF c.call = "poll" THEN
    (CASE q.st \in {"Start", "Waiting", "Idle", "Closed", "PartialSync"} -> [st |-> q.st, nxt |-> q.nxt, res |-> "NotReady"]
       [] q.st = "New"    -> [st |-> "Start", nxt |-> q.nxt, res |-> "msg:SyncRequest"]
       [] q.st = "Resync" -> IF q.nxt = 0 THEN [st |-> "Reset", nxt |-> q.nxt, res |-> "MissingSyncResponse"]
                             ELSE [st |-> "Waiting", nxt |-> q.nxt, res |-> "msg:SyncResume"]
       [] q.st = "Reset"  -> [st |-> "Closed", nxt |-> q.nxt, res |-> "msg:EndSession"])
  ELSE LET m == c.msg
           i == IxVal(q, m)
       IN IF m.s # OWN THEN [st |-> q.st, nxt |-> q.nxt, res |-> "SessionMismatch"]
          ELSE (CASE m.k \in {"Response", "Malformed"} ->
                       (IF q.st \notin {"Start", "Waiting"} THEN [st |-> q.st, nxt |-> q.nxt, res |-> "SessionState"]
                        ELSE IF i # q.nxt THEN [st |-> "Resync", nxt |-> q.nxt, res |-> "MissingSyncResponse"]
                        ELSE [st |-> "Waiting", nxt |-> q.nxt + 1, res |-> IF m.k = "Response" THEN "cmds" ELSE "MalformedResponse"])
                  [] m.k = "End" ->
                       (IF q.st \notin {"Start", "Waiting"} THEN [st |-> q.st, nxt |-> q.nxt, res |-> "SessionState"]
                        ELSE IF i # q.nxt THEN [st |-> "Resync", nxt |-> q.nxt, res |-> "MissingSyncResponse"]
                        ELSE [st |-> "PartialSync", nxt |-> q.nxt, res |-> "none"])
                  [] m.k = "Offer" ->
                       (IF q.st # "Idle" THEN [st |-> q.st, nxt |-> q.nxt, res |-> "SessionState"]
                        ELSE [st |-> "Resync", nxt |-> q.nxt, res |-> "none"])
                  [] m.k = "EndSession" -> [st |-> "Closed", nxt |-> q.nxt, res |-> "none"])

----------------------------------------------------------------------------------
(* Responder *)

RespStates == {"New", "Start", "Send", "Idle", "Reset", "Stopped"}
RespReady(st) == st \in {"Reset", "Start", "Send"}

RespMsgs == [k : {"Request", "RequestBadGraph", "Missing", "Resume", "EndSession"}, s : {OWN, FOREIGN}]
Bufs == {"big", "small", "tiny"}      \* fits everything / not a response with commands / nothing
RespCalls == {[call |-> "recv", msg |-> m] : m \in RespMsgs} \cup {[call |-> "poll", buf |-> b] : b \in Bufs}
             \cup {[call |-> "push"]}

(* get_next: responses left = Resp - sent *)
GetNext(q, b) ==
  IF q.sent >= Resp
  THEN (IF b = "tiny" THEN [q EXCEPT !.st = "Idle", !.res = "BufferTooSmall"]            \* TinyLoss
                      ELSE [q EXCEPT !.st = "Idle", !.res = "msg:SyncEnd"])
  ELSE (IF b = "big" THEN [q EXCEPT !.st = "Send", !.sent = q.sent + 1, !.idx = q.idx + 1, !.res = "msg:SyncResponse"]
                     ELSE [q EXCEPT !.st = "Send", !.res = "BufferTooSmall"])

RespApply(q, c) ==
  IF c.call = "recv" THEN
    LET m == c.msg
        adopted == IF q.sid = 0 THEN m.s ELSE q.sid          \* the first message fixes the session
    IN IF adopted # m.s THEN [q EXCEPT !.res = "SessionMismatch"]
       ELSE (CASE m.k = "Request"         -> [q EXCEPT !.sid = adopted, !.st = "Start", !.graph = "ok",  !.sent = 0, !.pushed = FALSE, !.res = "ok"]
               [] m.k = "RequestBadGraph" -> [q EXCEPT !.sid = adopted, !.st = "Start", !.graph = "bad", !.sent = 0, !.pushed = FALSE, !.res = "ok"]
               [] m.k \in {"Missing", "Resume"} -> [q EXCEPT !.sid = adopted, !.st = "Reset", !.res = "UnsupportedRequest"]
               [] m.k = "EndSession"      -> [q EXCEPT !.sid = adopted, !.st = "Stopped", !.res = "ok"])
  ELSE IF c.call = "push" THEN
    \* `push` is public and does not look at the state; without a usable graph it is a usage error
    \* that resets the machine.  On a known graph the transports use a fresh responder per push
    \* (start_session = a SyncRequest, then one push): modelled for exactly that use — the first call
    \* after a request — after which only a new request is enabled (a second push recomputes the needed
    \* segments but keeps next_send; mixing push and poll is not a usage pattern: Enabled).
    (CASE q.graph = "none" -> [q EXCEPT !.st = "Reset", !.res = "NotReady"]
       [] q.graph = "bad"  -> [q EXCEPT !.st = "Reset", !.res = "Storage"]
       [] q.graph = "ok"   -> [q EXCEPT !.pushed = TRUE, !.idx = q.idx + 1, !.res = "msg:Push"])
  ELSE LET b == c.buf IN
       (CASE q.st \in {"New", "Idle", "Stopped"} -> [q EXCEPT !.res = "NotReady"]
          [] q.st = "Start" -> (IF q.graph = "bad" THEN [q EXCEPT !.st = "Reset", !.res = "Storage"]
                                ELSE GetNext(q, b))
          [] q.st = "Send"  -> GetNext(q, b)
          [] q.st = "Reset" -> (IF q.sid = 0 THEN [q EXCEPT !.st = "Stopped", !.res = "Bug"]        \* reset by push before any request
                                ELSE IF b = "tiny" THEN [q EXCEPT !.st = "Stopped", !.res = "BufferTooSmall"]   \* TinyLoss
                                ELSE [q EXCEPT !.st = "Stopped", !.res = "msg:EndSession"]))

----------------------------------------------------------------------------------
Calls == IF Side = "req" THEN ReqCalls ELSE RespCalls
Apply(q, c) == IF Side = "req" THEN ReqApply(q, c) ELSE RespApply(q, c)
Ready(q) == IF Side = "req" THEN ReqReady(q.st) ELSE RespReady(q.st)

(* what the conformance engine compares after a call *)
Proj(q) == [st |-> q.st, res |-> q.res, ready |-> Ready(q),
            index |-> IF Side = "req" THEN q.nxt ELSE q.idx]

Init ==
  /\ Side \in Sides
  /\ s \in (IF Side = "req"
            THEN {[st |-> "New", nxt |-> 0, res |-> "new"], [st |-> "Waiting", nxt |-> 0, res |-> "new_session_id"]}
            ELSE {[st |-> "New", sid |-> 0, graph |-> "none", sent |-> 0, idx |-> 0, pushed |-> FALSE, res |-> "new"]})
  /\ depth = 0
  /\ acc = <<>>
  /\ hist = <<[call |-> [call |-> "new", how |-> s.res], exp |-> Proj(s)]>>

Enabled(q, c) ==
  IF Side = "req" THEN TRUE
  ELSE CASE c.call = "push" -> q.graph # "ok" \/ (q.st = "Start" /\ q.sent = 0 /\ ~q.pushed)
         [] c.call = "poll" -> ~q.pushed
         [] OTHER -> TRUE

Do(c) ==
  /\ depth < MaxDepth
  /\ Enabled(s, c)
  /\ depth' = depth + 1
  /\ s' = Apply(s, c)
  /\ acc' = IF Side = "req"
            THEN (IF s'.res = "cmds" THEN Append(acc, [s |-> c.msg.s, ix |-> IxVal(s, c.msg), expected |-> s.nxt]) ELSE acc)
            ELSE (IF s'.res \in {"msg:SyncResponse", "msg:Push"} THEN Append(acc, [s |-> s.sid, ix |-> s.idx, expected |-> s.idx]) ELSE acc)
  /\ hist' = Append(hist, [call |-> c, exp |-> Proj(s')])
  /\ UNCHANGED Side

Next == \E c \in Calls : Do(c)

Spec == Init /\ [][Next]_vars

View == <<Side, s, depth, acc>>

----------------------------------------------------------------------------------
(* C18 (a) as invariants *)

TypeOK == s.st \in (IF Side = "req" THEN ReqStates ELSE RespStates)

(* commands are accepted only for the own session and with exactly the expected index *)
Accepts == Side = "req" => \A k \in 1..Len(acc) : acc[k].s = OWN /\ acc[k].ix = acc[k].expected
InOrder == \A j, k \in 1..Len(acc) : j < k => acc[j].ix < acc[k].ix
(* the responder labels its responses 0,1,2,.. with the session it adopted *)
RespCounts == Side = "resp" => \A k \in 1..Len(acc) : acc[k].ix = k - 1 /\ acc[k].s = s.sid /\ s.sid # 0

Last == hist[Len(hist)]
Prev == hist[Len(hist) - 1]
(* ready() is FALSE exactly when poll answers NotReady (checked on every poll of every behaviour) *)
ReadyConsistent ==
  (Len(hist) >= 2 /\ Last.call.call = "poll") => (Prev.exp.ready = FALSE <=> Last.exp.res = "NotReady")
(* an unsupported request is an error, leaves the machine ready(), and the next poll closes the session *)
UnsupportedClosed ==
  /\ Last.exp.res = "UnsupportedRequest" => Last.exp.ready = TRUE
  /\ (Len(hist) >= 2 /\ Prev.exp.res = "UnsupportedRequest" /\ Last.call.call = "poll")
        => Last.exp.res \in {"msg:EndSession", "BufferTooSmall"}
(* a message of a foreign session changes nothing *)
MismatchInert == [][s'.res = "SessionMismatch" => ([s' EXCEPT !.res = s.res] = s /\ acc' = acc)]_vars

----------------------------------------------------------------------------------
(* S2I: one witness per reachable state (VIEW hides hist) + the outcome of every call from it *)
CallList == LET RECURSIVE F(_) F(S) == IF S = {} THEN <<>> ELSE LET c == CHOOSE x \in S : TRUE IN <<c>> \o F(S \ {c})
            IN F({c \in Calls : Enabled(s, c)})
Emit == PrintT("REPLAY " \o ToJson([side |-> Side, resp |-> Resp, steps |-> hist,
                                    fan |-> [k \in 1..Len(CallList) |-> [call |-> CallList[k], exp |-> Proj(Apply(s, CallList[k]))]]]))
=================================================================================
