\* exhaustive: early `return` at every operand position of depth-2 nests of operand-holding
\* constructs (builtin/function-call arguments, struct literal fields, comparisons, match arms);
\* each function is called by a second function that uses the result as a non-first operand
SPECIFICATION Spec
CONSTANTS
  MaxDepth = 2
  StmtDepth = 0
  Effects = FALSE
  Focus = "ret"
  Quirks = FALSE
  EnvCap = 8
  RetTypes <- MC_RetRet
INVARIANTS Emit
CHECK_DEADLOCK FALSE
