------------------------------- MODULE PolicyStmts -------------------------------
(* C30 — where a command policy can change facts and emit effects.

   The object quantified over is a *command policy program together with the run-time values
   of its conditions*: a `policy { .. }` block and the command's `recall r() { .. }` block,
   built from

       let                          let x = 7
       call(c)                      let y = chk(this.c)        chk panics iff its argument is false
       check(c, "panic")            check this.c else test_fail()
       check(c, "recall")           check this.c else recall r()          (policy block only)
       recall                       recall r()                            (policy block only)
       if(c, A, B, els)             if this.c { A } else { B }            (else part iff els)
       if3(c, c2, <<A, M, B>>)      if this.c { A } else if this.c2 { M } else { B }
       match(n, <<A0, A1, Ad>>)     match this.n { 0 => {A0} 1 => {A1} _ => {Ad} }
       dassert(c)                   debug_assert(this.c)       panics iff false (policies are compiled in debug mode)
       finish(ops)                  finish { ops }                        (last statement of its block)

       stray(op, via)               a finish-only statement (emit/create/delete/finish-function call)
                                    *outside* a finish block: inline, or inside a pure function that
                                    the block calls.  The compiler is expected to reject these; they
                                    are generated to confirm that (see StrayPrograms below)

       emitx(x) / createx(x) / ffx(x)  finish statements whose field value is an expression x of a
                                    given kind (see FinishExprKinds): `emit E {n: x}`,
                                    `create F[k: 4]=>{v: x}`, and a finish function whose second
                                    statement is `emit E {n: x}`.  Only literals, identifiers, field
                                    access, struct/optional/enum literals may appear in a finish
                                    block; every other kind — above all a call of a user function,
                                    which can panic after an earlier statement of the same finish
                                    block has already written — must be rejected by the compiler.

   where every `c` / `n` is the value the condition takes in this run (the harness passes it
   in a command field of its own), and `ops` is a sequence of finish statements:
   emit / create / delete / update / a finish-function call.  Concretisation added by the
   harness when rendering (not modelled, must not change the outcome): the recall block is
   `recall r(m int, t int)` entered as `recall r(7, this.tag)` and first checks its two
   arguments and `this.tag`; every command also has a decoy block `recall z()` that emits.

   REFERENCE SEMANTICS (`Run`).  Statements run in order.  A false `call` panics; a false
   check runs its else expression: panic, or *recall* — the evaluation continues in the recall
   block, in recall context; `finish` performs its operations and ends the evaluation: Normal
   in the policy block, Check in a recall block; falling off the end of the policy block is a
   Panic, off the end of a recall block a Check.  Side effects (`io`) are the MachineIO calls:
   fact_insert / fact_delete / effect(recalled).

   COMPILED FORM (`Compile`, `VmRun`).  The same programs are lowered the way
   `aranya-policy-compiler/src/compile.rs` lowers statements — Branch/Jump for check, if and
   match, `Recall` target, the fact/effect instructions of a finish block followed by
   `Exit(Normal|Check)`, `Exit(Panic)` after a policy block and `Exit(Check)` after a recall
   block — and run by an abstract stepper for `RunState::run`.  Nothing in the instruction
   stream itself prevents instructions after a finish block from running: the invariant
   `CompiledAgrees` (VmRun = Run on every program) is what shows that the emitted exits do.

   TLC enumerates every program within the bounds as an initial state and checks the C30
   statement on the reference semantics and its agreement with the compiled form; every
   program is emitted for replay through the real compiler, VM and VmPolicy.             *)
EXTENDS Naturals, Sequences, FiniteSets, TLC, Json

CONSTANTS MaxStmts,     \* statements per policy block (nested ones count)
          MaxDepth,     \* nesting depth of if / match
          OpsMenu,      \* set of finish-block bodies (sequences of op records)
          RecallMenu,   \* set of recall blocks used when the policy block can recall
          MatchArms,    \* set of blocks allowed as match arms (keeps the enumeration finite and small)
          ExtraSimple,  \* further simple statements to enumerate (e.g. the two dassert forms)
          WithElif,     \* enumerate if / else if / else statements (arms from MatchArms)
          StrayBase,    \* base programs into which a misplaced finish-only statement is inserted ({} = none)
          StrayOps,     \* the finish-only statements inserted (op records)
          XKinds,       \* kinds of finish-field expressions to generate programs for ({} = none)
          Enumerate     \* TRUE: Init ranges over the set of all programs within the bounds;
                        \* FALSE: programs are drawn by random derivation (MC module, tlc -simulate)

VARIABLES prog          \* [policy |-> block, recall |-> block]

---------------------------------------------------------------------------------
(* Programs *)

(* non-finish simple statements of a policy block *)
Simple ==
  {[t |-> "let"]}
  \cup {[t |-> "call", c |-> c] : c \in BOOLEAN}
  \cup {[t |-> "check", c |-> c, e |-> e] : c \in BOOLEAN, e \in {"panic", "recall"}}
  \cup {[t |-> "recall"]}
  \cup ExtraSimple

Finishes == {[t |-> "finish", ops |-> o] : o \in OpsMenu}

RECURSIVE SizeB(_)
SizeS(s) == IF s.t = "if" THEN 1 + SizeB(s.a) + SizeB(s.b)
            ELSE IF s.t \in {"match", "if3"} THEN 1 + SizeB(s.arms[1]) + SizeB(s.arms[2]) + SizeB(s.arms[3])
            ELSE 1
SizeB(b) == IF b = <<>> THEN 0 ELSE SizeS(b[1]) + SizeB(Tail(b))

(* if statements of size <= n whose branches come from the inner levels lv (lv[m + 1] = the
   inner blocks of size <= m); `if c {} ..` is left out *)
IfsOver(n, lv) ==
  UNION {{[t |-> "if", c |-> c, a |-> a, b |-> b, els |-> b # <<>>] :
             c \in BOOLEAN, b \in lv[n - 1 - SizeB(a) + 1]} :
          a \in {x \in lv[n] : x # <<>>}}
Matches(n) ==
  {m \in {[t |-> "match", n |-> k, arms |-> <<a0, a1, ad>>] :
             k \in 0..2, a0 \in MatchArms, a1 \in MatchArms, ad \in MatchArms} : SizeS(m) <= n}

Elifs(n) ==
  IF ~WithElif THEN {}
  ELSE {m \in {[t |-> "if3", c |-> c, c2 |-> c2, arms |-> <<a, mid, b>>] :
                 c \in BOOLEAN, c2 \in BOOLEAN, a \in MatchArms, mid \in MatchArms, b \in MatchArms} : SizeS(m) <= n}

(* blocks of size <= n: empty, a lone finish, or a statement of St followed by a block of the
   remaining size (prev[m + 1] = the blocks of size <= m); `finish` only in last position *)
Ext(n, St, prev) ==
  {<<>>} \cup {<<f>> : f \in Finishes}
  \cup UNION {{<<s>> \o rest : rest \in prev[n - SizeS(s) + 1]} : s \in {x \in St : SizeS(x) <= n}}

(* The levels are spelled out as constant definitions (TLC evaluates each once, eagerly —
   hence the guards that leave a level empty when the configuration does not need it):
   Ld_n = blocks of nesting depth <= d and size <= n.  Up to 4 statements, depth 2. *)
L0_0 == {<<>>}
L0_1 == IF Enumerate /\ ((MaxDepth = 0 /\ MaxStmts >= 1) \/ (MaxDepth > 0 /\ MaxStmts > 1)) THEN Ext(1, Simple, <<L0_0>>) ELSE {}
L0_2 == IF Enumerate /\ ((MaxDepth = 0 /\ MaxStmts >= 2) \/ (MaxDepth > 0 /\ MaxStmts > 2)) THEN Ext(2, Simple, <<L0_0, L0_1>>) ELSE {}
L0_3 == IF Enumerate /\ ((MaxDepth = 0 /\ MaxStmts >= 3) \/ (MaxDepth > 0 /\ MaxStmts > 3)) THEN Ext(3, Simple, <<L0_0, L0_1, L0_2>>) ELSE {}
L0_4 == IF Enumerate /\ (MaxDepth = 0 /\ MaxStmts >= 4) THEN Ext(4, Simple, <<L0_0, L0_1, L0_2, L0_3>>) ELSE {}
St1(n) == Simple \cup IfsOver(n, <<L0_0, L0_1, L0_2, L0_3>>) \cup Matches(n) \cup Elifs(n)
L1_0 == {<<>>}
L1_1 == IF Enumerate /\ ((MaxDepth = 1 /\ MaxStmts >= 1) \/ (MaxDepth > 1 /\ MaxStmts > 1)) THEN Ext(1, Simple, <<L1_0>>) ELSE {}
L1_2 == IF Enumerate /\ ((MaxDepth = 1 /\ MaxStmts >= 2) \/ (MaxDepth > 1 /\ MaxStmts > 2)) THEN Ext(2, St1(2), <<L1_0, L1_1>>) ELSE {}
L1_3 == IF Enumerate /\ ((MaxDepth = 1 /\ MaxStmts >= 3) \/ (MaxDepth > 1 /\ MaxStmts > 3)) THEN Ext(3, St1(3), <<L1_0, L1_1, L1_2>>) ELSE {}
L1_4 == IF Enumerate /\ (MaxDepth = 1 /\ MaxStmts >= 4) THEN Ext(4, St1(4), <<L1_0, L1_1, L1_2, L1_3>>) ELSE {}
St2(n) == Simple \cup IfsOver(n, <<L1_0, L1_1, L1_2, L1_3>>) \cup Matches(n) \cup Elifs(n)
L2_0 == {<<>>}
L2_1 == IF Enumerate /\ ((MaxDepth = 2 /\ MaxStmts >= 1) \/ (MaxDepth > 2 /\ MaxStmts > 1)) THEN Ext(1, Simple, <<L2_0>>) ELSE {}
L2_2 == IF Enumerate /\ ((MaxDepth = 2 /\ MaxStmts >= 2) \/ (MaxDepth > 2 /\ MaxStmts > 2)) THEN Ext(2, St2(2), <<L2_0, L2_1>>) ELSE {}
L2_3 == IF Enumerate /\ ((MaxDepth = 2 /\ MaxStmts >= 3) \/ (MaxDepth > 2 /\ MaxStmts > 3)) THEN Ext(3, St2(3), <<L2_0, L2_1, L2_2>>) ELSE {}
L2_4 == IF Enumerate /\ (MaxDepth = 2 /\ MaxStmts >= 4) THEN Ext(4, St2(4), <<L2_0, L2_1, L2_2, L2_3>>) ELSE {}

PolicyBlocks ==
  CASE MaxDepth = 0 -> (CASE MaxStmts = 1 -> L0_1 [] MaxStmts = 2 -> L0_2 [] MaxStmts = 3 -> L0_3 [] MaxStmts = 4 -> L0_4)
    [] MaxDepth = 1 -> (CASE MaxStmts = 1 -> L1_1 [] MaxStmts = 2 -> L1_2 [] MaxStmts = 3 -> L1_3 [] MaxStmts = 4 -> L1_4)
    [] MaxDepth = 2 -> (CASE MaxStmts = 1 -> L2_1 [] MaxStmts = 2 -> L2_2 [] MaxStmts = 3 -> L2_3 [] MaxStmts = 4 -> L2_4)

RECURSIVE CanRecallB(_)
CanRecallS(s) == \/ s.t = "recall"
                 \/ s.t = "check" /\ s.e = "recall"
                 \/ s.t = "if" /\ (CanRecallB(s.a) \/ CanRecallB(s.b))
                 \/ s.t \in {"match", "if3"} /\ \E i \in 1..3 : CanRecallB(s.arms[i])
CanRecallB(b) == \E i \in 1..Len(b) : CanRecallS(b[i])

(* a recall block (from the menu; recall blocks cannot recall) only when the policy block can reach it *)
Programs ==
  UNION {{[policy |-> p, recall |-> r] : r \in (IF CanRecallB(p) THEN RecallMenu ELSE {<<>>})} :
          p \in PolicyBlocks}

(* Misplaced finish-only statements.  InsB(b, x): b with x inserted at one position of any
   nesting level (never behind a finish). *)
RECURSIVE InsB(_, _)
InsS(s, x) ==
  CASE s.t = "if"    -> {[s EXCEPT !.a = a2] : a2 \in InsB(s.a, x)}
                        \cup {[s EXCEPT !.b = b2, !.els = TRUE] : b2 \in InsB(s.b, x)}
    [] s.t \in {"match", "if3"} -> UNION {{[s EXCEPT !.arms[i] = a2] : a2 \in InsB(s.arms[i], x)} : i \in 1..3}
    [] OTHER         -> {}
InsB(b, x) ==
  {SubSeq(b, 1, i) \o <<x>> \o SubSeq(b, i + 1, Len(b)) :
      i \in {j \in 0..Len(b) : j < Len(b) \/ b = <<>> \/ b[Len(b)].t # "finish"}}
  \cup UNION {{[b EXCEPT ![i] = s2] : s2 \in InsS(b[i], x)} : i \in 1..Len(b)}
StrayStmts == {[t |-> "stray", op |-> o, via |-> v] : o \in StrayOps, v \in {"inline", "function"}}
StrayPrograms ==
  UNION {UNION {{[policy |-> q, recall |-> p.recall] : q \in InsB(p.policy, x)}
                \cup (IF CanRecallB(p.policy) THEN {[policy |-> p.policy, recall |-> r] : r \in InsB(p.recall, x)} ELSE {})
                : x \in StrayStmts} : p \in StrayBase}

---------------------------------------------------------------------------------
(* Finish operations -> MachineIO calls.  F is `fact F[k int]=>{v int}`; initially F[1]=>{1}. *)

(* Expressions in finish-statement fields, by ExprKind of check_finish_expression
   (compile/lower.rs).  allowed = the compiler accepts the kind in a finish block; ty = type of
   the rendered expression; XVal = what it evaluates to (c = run-time value of its condition):
       int       6                                   allowed
       dot       this.one            (= 1)           allowed
       bool      true                                allowed
       call      pos(this.c)         user function: 6 if c, falls off its end (Panic) otherwise
       builtin   saturating_add(5, 1)
       todo      todo()                              Panic
       ifexpr    if this.c { : 6 } else { : 7 }
       match     match this.c { true => 6 false => 7 }
       coalesce  add(5, 1) or 0
       count     count_up_to 1 F[k: 1]               (F[1] is present whenever it is evaluated)
       block     { let z = 6 : z }
       and / not / eq / gt / is      this.c && true, !this.c, this.one == 1, this.one > 0, Some(1) is Some
   Not generated: Ok/Err/Cast/Substruct/NamedStruct/Optional/EnumReference/Unit/String/Identifier
   (need more scaffolding to type-check in a field), ForeignFunctionCall (the harness has no
   value-returning FFI), Return/Recall (rejected for their context already). *)
FinishExprKinds ==
  { [k |-> "int", allowed |-> TRUE, ty |-> "int", cond |-> FALSE],
    [k |-> "dot", allowed |-> TRUE, ty |-> "int", cond |-> FALSE],
    [k |-> "bool", allowed |-> TRUE, ty |-> "bool", cond |-> FALSE],
    [k |-> "call", allowed |-> FALSE, ty |-> "int", cond |-> TRUE],
    [k |-> "builtin", allowed |-> FALSE, ty |-> "int", cond |-> FALSE],
    [k |-> "todo", allowed |-> FALSE, ty |-> "int", cond |-> FALSE],
    [k |-> "ifexpr", allowed |-> FALSE, ty |-> "int", cond |-> TRUE],
    [k |-> "match", allowed |-> FALSE, ty |-> "int", cond |-> TRUE],
    [k |-> "coalesce", allowed |-> FALSE, ty |-> "int", cond |-> FALSE],
    [k |-> "count", allowed |-> FALSE, ty |-> "int", cond |-> FALSE],
    [k |-> "block", allowed |-> FALSE, ty |-> "int", cond |-> FALSE],
    [k |-> "and", allowed |-> FALSE, ty |-> "bool", cond |-> TRUE],
    [k |-> "not", allowed |-> FALSE, ty |-> "bool", cond |-> TRUE],
    [k |-> "eq", allowed |-> FALSE, ty |-> "bool", cond |-> FALSE],
    [k |-> "gt", allowed |-> FALSE, ty |-> "bool", cond |-> FALSE],
    [k |-> "is", allowed |-> FALSE, ty |-> "bool", cond |-> FALSE] }
XKind(k) == CHOOSE r \in FinishExprKinds : r.k = k
B2N(b) == IF b THEN 101 ELSE 100          \* bool results are reported through `effect EB {b bool}` as 100 + b
XVal(x) ==
  CASE x.k = "int" -> [panic |-> FALSE, v |-> 6]
    [] x.k = "dot" -> [panic |-> FALSE, v |-> 1]
    [] x.k = "bool" -> [panic |-> FALSE, v |-> B2N(TRUE)]
    [] x.k = "call" -> [panic |-> ~x.c, v |-> 6]
    [] x.k = "builtin" -> [panic |-> FALSE, v |-> 6]
    [] x.k = "todo" -> [panic |-> TRUE, v |-> 0]
    [] x.k = "ifexpr" -> [panic |-> FALSE, v |-> IF x.c THEN 6 ELSE 7]
    [] x.k = "match" -> [panic |-> FALSE, v |-> IF x.c THEN 6 ELSE 7]
    [] x.k = "coalesce" -> [panic |-> FALSE, v |-> 6]
    [] x.k = "count" -> [panic |-> FALSE, v |-> 1]
    [] x.k = "block" -> [panic |-> FALSE, v |-> 6]
    [] x.k = "and" -> [panic |-> FALSE, v |-> B2N(x.c)]
    [] x.k = "not" -> [panic |-> FALSE, v |-> B2N(~x.c)]
    [] x.k \in {"eq", "gt", "is"} -> [panic |-> FALSE, v |-> B2N(TRUE)]
XExprs(kinds) == UNION {IF XKind(k).cond THEN {[k |-> k, c |-> c] : c \in BOOLEAN} ELSE {[k |-> k, c |-> TRUE]} : k \in kinds}
OpAllowed(o) == o.o \notin {"emitx", "createx", "ffx"} \/ XKind(o.x.k).allowed

(* io of one finish statement and whether evaluating it panicked (then `io` is what had
   already happened inside it) *)
OpIo(o, recalled) ==
  CASE o.o = "emit"   -> <<[io |-> "effect", n |-> o.n, recalled |-> recalled]>>
    [] o.o = "create" -> <<[io |-> "insert", k |-> o.k, v |-> o.v]>>
    [] o.o = "delete" -> <<[io |-> "delete", k |-> o.k]>>
    [] o.o = "update" -> <<[io |-> "delete", k |-> o.k], [io |-> "insert", k |-> o.k, v |-> o.to]>>
    [] o.o = "ff"     -> <<[io |-> "insert", k |-> 3, v |-> 3], [io |-> "effect", n |-> 4, recalled |-> recalled]>>
                         \* finish function ff() { create F[k: 3]=>{v: 3}  emit E {n: 4} }
    [] o.o = "emitx"  -> IF XVal(o.x).panic THEN <<>> ELSE <<[io |-> "effect", n |-> XVal(o.x).v, recalled |-> recalled]>>
    [] o.o = "createx" -> IF XVal(o.x).panic THEN <<>> ELSE <<[io |-> "insert", k |-> 4, v |-> XVal(o.x).v]>>
    [] o.o = "ffx"    -> <<[io |-> "insert", k |-> 3, v |-> 3]>>           \* finish function fx(..) { create F[k: 3]=>{v: 3}  emit E {n: x} }
                         \o (IF XVal(o.x).panic THEN <<>> ELSE <<[io |-> "effect", n |-> XVal(o.x).v, recalled |-> recalled]>>)
OpPanics(o) == o.o \in {"emitx", "createx", "ffx"} /\ XVal(o.x).panic
(* a finish block: statements in order; a panicking field expression ends it there *)
RECURSIVE FinRun(_, _, _)
FinRun(ops, recalled, acc) ==
  IF ops = <<>> THEN [io |-> acc, panic |-> FALSE]
  ELSE IF OpPanics(ops[1]) THEN [io |-> acc \o OpIo(ops[1], recalled), panic |-> TRUE]
  ELSE FinRun(Tail(ops), recalled, acc \o OpIo(ops[1], recalled))
RECURSIVE OpsIo(_, _)
OpsIo(ops, recalled) == IF ops = <<>> THEN <<>> ELSE OpIo(ops[1], recalled) \o OpsIo(Tail(ops), recalled)

(* Programs for finish-field expressions: the expression sits behind an earlier write/emit of the
   same finish block — in the policy block's finish, in the recall block's finish, inside a finish
   function — so a panic in it leaves side effects behind. *)
XPrograms ==
  UNION {{ [policy |-> <<[t |-> "finish", ops |-> <<[o |-> "create", k |-> 2, v |-> 2], [o |-> "emitx", x |-> x]>>]>>, recall |-> <<>>],
           [policy |-> <<[t |-> "recall"]>>,
            recall |-> <<[t |-> "finish", ops |-> <<[o |-> "emit", n |-> 3], [o |-> "emitx", x |-> x]>>]>>],
           [policy |-> <<[t |-> "finish", ops |-> <<[o |-> "emit", n |-> 1], [o |-> "ffx", x |-> x]>>]>>, recall |-> <<>>] }
         \cup (IF XKind(x.k).ty = "int"
               THEN {[policy |-> <<[t |-> "finish", ops |-> <<[o |-> "emit", n |-> 1], [o |-> "createx", x |-> x]>>]>>, recall |-> <<>>]}
               ELSE {})
         : x \in XExprs(XKinds)}

---------------------------------------------------------------------------------
(* Reference semantics.  Result: [exit, io, rec]; exit "fall" = block ended without exiting. *)

Res(e, io, r) == [exit |-> e, io |-> io, rec |-> r]

RECURSIVE ExecB(_, _, _)
ExecS(s, ctx, rb) ==
  LET DoRecall == LET r == ExecB(rb, "recall", <<>>) IN
                    Res(IF r.exit = "fall" THEN "Check" ELSE r.exit, r.io, TRUE) IN
  CASE s.t = "let"    -> Res("fall", <<>>, FALSE)
    [] s.t = "call"   -> Res(IF s.c THEN "fall" ELSE "Panic", <<>>, FALSE)
    [] s.t = "check"  -> IF s.c THEN Res("fall", <<>>, FALSE)
                         ELSE IF s.e = "panic" THEN Res("Panic", <<>>, FALSE) ELSE DoRecall
    [] s.t = "recall" -> DoRecall
    [] s.t = "finish" -> LET fr == FinRun(s.ops, ctx = "recall", <<>>) IN
                           Res(IF fr.panic THEN "Panic" ELSE IF ctx = "policy" THEN "Normal" ELSE "Check", fr.io, FALSE)
    [] s.t = "if"     -> ExecB(IF s.c THEN s.a ELSE s.b, ctx, rb)
    [] s.t = "match"  -> ExecB(s.arms[s.n + 1], ctx, rb)
    [] s.t = "if3"    -> ExecB(s.arms[IF s.c THEN 1 ELSE IF s.c2 THEN 2 ELSE 3], ctx, rb)
    [] s.t = "dassert" -> Res(IF s.c THEN "fall" ELSE "Panic", <<>>, FALSE)
    [] s.t = "stray"  -> Res("fall", OpsIo(<<s.op>>, ctx = "recall"), FALSE)   \* what it would do if it were accepted
ExecB(b, ctx, rb) ==
  IF b = <<>> THEN Res("fall", <<>>, FALSE)
  ELSE LET r == ExecS(b[1], ctx, rb) IN
       IF r.exit = "fall"
       THEN LET q == ExecB(Tail(b), ctx, rb) IN Res(q.exit, r.io \o q.io, q.rec)   \* r.io # <<>> only after a stray statement
       ELSE r

Run(p) == LET r == ExecB(p.policy, "policy", p.recall) IN
            IF r.exit = "fall" THEN Res("Panic", r.io, FALSE) ELSE r

---------------------------------------------------------------------------------
(* Compiled form: instructions as records [i, ..]; targets are absolute addresses. *)

RECURSIVE CompB(_, _, _, _)
(* CompS/CompB return the code of a statement/block placed at address `at`; `rt` is the
   address of the recall block's first instruction *)
CompS(s, ctx, at, rt) ==
  CASE s.t = "let"    -> <<[i |-> "nop"]>>                                  \* Const; Def
    [] s.t = "call"   -> <<[i |-> "callchk", c |-> s.c]>>                   \* Get; Call chk; Def — chk exits Panic on false
    [] s.t = "check"  ->                                                    \* <cond>; Branch(ok); <else>; ok:
         <<[i |-> "branch", c |-> s.c, to |-> at + 2],
           IF s.e = "panic" THEN [i |-> "exit", r |-> "Panic"] ELSE [i |-> "recall", to |-> rt]>>
    [] s.t = "recall" -> <<[i |-> "recall", to |-> rt]>>
    [] s.t = "finish" ->                                                    \* Meta; ops..; Exit
         <<[i |-> "ops", ops |-> s.ops]>>
         \o <<[i |-> "exit", r |-> IF ctx = "policy" THEN "Normal" ELSE "Check"]>>
    [] s.t = "stray"  -> <<[i |-> "ops", ops |-> <<s.op>>]>>
    [] s.t = "dassert" -> <<[i |-> "branch", c |-> s.c, to |-> at + 2], [i |-> "exit", r |-> "Panic"]>>   \* <c>; Branch(+2); Exit(Panic)
    [] s.t = "if3"    ->                                                    \* per branch: <c>; Not; Branch(next); body; Jump(end); then the fallback
         LET c1 == CompB(s.arms[1], ctx, at + 1, rt)
             n1 == at + 1 + Len(c1) + 1                \* second condition
             c2 == CompB(s.arms[2], ctx, n1 + 1, rt)
             n2 == n1 + 1 + Len(c2) + 1                \* fallback
             c3 == CompB(s.arms[3], ctx, n2, rt)
             end == n2 + Len(c3) IN
           <<[i |-> "branch", c |-> ~s.c, to |-> n1]>> \o c1 \o <<[i |-> "jump", to |-> end]>>
           \o <<[i |-> "branch", c |-> ~s.c2, to |-> n2]>> \o c2 \o <<[i |-> "jump", to |-> end]>>
           \o c3
    [] s.t = "if"     ->                                                    \* <c>; Not; Branch(next); A; Jump(end); next: B; end:
         LET ca == CompB(s.a, ctx, at + 1, rt)
             cb == CompB(s.b, ctx, at + 1 + Len(ca) + 1, rt) IN
           <<[i |-> "branch", c |-> ~s.c, to |-> at + 1 + Len(ca) + 1]>> \o ca
           \o <<[i |-> "jump", to |-> at + 1 + Len(ca) + 1 + Len(cb)]>> \o cb
    [] s.t = "match"  ->                                                    \* per arm: Dup; Const; Eq; Branch(arm) ..; arms end with Jump(end)
         LET c1 == CompB(s.arms[1], ctx, at + 3, rt)
             a2 == at + 3 + Len(c1) + 1
             c2 == CompB(s.arms[2], ctx, a2, rt)
             a3 == a2 + Len(c2) + 1
             c3 == CompB(s.arms[3], ctx, a3, rt)
             end == a3 + Len(c3) IN
           <<[i |-> "branch", c |-> s.n = 0, to |-> at + 3],
             [i |-> "branch", c |-> s.n = 1, to |-> a2],
             [i |-> "jump", to |-> a3]>>
           \o c1 \o <<[i |-> "jump", to |-> end]>>
           \o c2 \o <<[i |-> "jump", to |-> end]>>
           \o c3
CompB(b, ctx, at, rt) ==
  IF b = <<>> THEN <<>>
  ELSE LET c == CompS(b[1], ctx, at, rt) IN c \o CompB(Tail(b), ctx, at + Len(c), rt)

(* policy block at address 1, followed by Exit(Panic); then the recall block, followed by Exit(Check) *)
Compile(p) ==
  LET lenp == Len(CompB(p.policy, "policy", 1, 0))       \* length does not depend on rt
      rt == lenp + 2 IN
    CompB(p.policy, "policy", 1, rt) \o <<[i |-> "exit", r |-> "Panic"]>>
    \o CompB(p.recall, "recall", rt, rt) \o <<[i |-> "exit", r |-> "Check"]>>

(* RunState::run on the compiled form: pc, context (recall or not), io so far *)
RECURSIVE VmStep(_, _, _, _, _)
VmStep(code, pc, inrecall, io, fuel) ==
  IF fuel = 0 \/ pc > Len(code) THEN Res("Stuck", io, inrecall)
  ELSE LET ins == code[pc] IN
    CASE ins.i = "nop"     -> VmStep(code, pc + 1, inrecall, io, fuel - 1)
      [] ins.i = "callchk" -> IF ins.c THEN VmStep(code, pc + 1, inrecall, io, fuel - 1)
                              ELSE Res("Panic", io, inrecall)
      [] ins.i = "branch"  -> VmStep(code, IF ins.c THEN ins.to ELSE pc + 1, inrecall, io, fuel - 1)
      [] ins.i = "jump"    -> VmStep(code, ins.to, inrecall, io, fuel - 1)
      [] ins.i = "recall"  -> VmStep(code, ins.to, TRUE, io, fuel - 1)      \* ctx := Recall
      [] ins.i = "ops"     -> LET fr == FinRun(ins.ops, inrecall, <<>>) IN                         \* Emit reads ctx
                              IF fr.panic THEN Res("Panic", io \o fr.io, inrecall)
                              ELSE VmStep(code, pc + 1, inrecall, io \o fr.io, fuel - 1)
      [] ins.i = "exit"    -> Res(ins.r, io, inrecall)
VmRun(p) == LET code == Compile(p) IN VmStep(code, 1, FALSE, <<>>, 4 * Len(code) + 4)

---------------------------------------------------------------------------------
(* Facts after the run, from the io log *)
RECURSIVE Apply(_, _)
Apply(io, facts) ==
  IF io = <<>> THEN facts
  ELSE LET x == io[1] IN
       Apply(Tail(io),
             CASE x.io = "insert" -> {f \in facts : f[1] # x.k} \cup {<<x.k, x.v>>}
               [] x.io = "delete" -> {f \in facts : f[1] # x.k}
               [] OTHER -> facts)
InitFacts == {<<1, 1>>}

---------------------------------------------------------------------------------
(* well-formedness: size and depth bounds, `finish` only as the last statement of a block,
   recall statements only in the policy block *)
RECURSIVE DepthB(_), WfB(_, _)
DepthS(s) == IF s.t = "if" THEN 1 + (IF DepthB(s.a) > DepthB(s.b) THEN DepthB(s.a) ELSE DepthB(s.b))
             ELSE IF s.t \in {"match", "if3"} THEN 1 ELSE 0
DepthB(b) == IF b = <<>> THEN 0
             ELSE LET x == DepthS(b[1]) y == DepthB(Tail(b)) IN IF x > y THEN x ELSE y
WfS(s, ctx) == CASE s.t = "if" -> WfB(s.a, ctx) /\ WfB(s.b, ctx) /\ (s.els <=> s.b # <<>>)
                 [] s.t \in {"match", "if3"} -> \A i \in 1..3 : WfB(s.arms[i], ctx)
                 [] s.t = "recall" -> ctx = "policy"
                 [] s.t = "check" -> s.e = "panic" \/ ctx = "policy"
                 [] s.t = "stray" -> FALSE
                 [] s.t = "finish" -> \A j \in 1..Len(s.ops) : OpAllowed(s.ops[j])
                 [] OTHER -> TRUE
WfB(b, ctx) == \A i \in 1..Len(b) : WfS(b[i], ctx) /\ (b[i].t = "finish" => i = Len(b))
WellFormed == \/ prog \in StrayPrograms \/ prog \in XPrograms
              \/ /\ WfB(prog.policy, "policy") /\ WfB(prog.recall, "recall")
                 /\ SizeB(prog.policy) <= MaxStmts /\ DepthB(prog.policy) <= MaxDepth

Init == prog \in Programs \cup StrayPrograms \cup XPrograms
Next == UNCHANGED prog
Spec == Init /\ [][Next]_prog

Out == Run(prog)

(* C30 on the reference semantics *)
WellPlaced == WfB(prog.policy, "policy") /\ WfB(prog.recall, "recall")
NoSideEffectsOnFailure ==
  WellPlaced => ((Out.exit = "Panic" \/ (Out.exit = "Check" /\ ~Out.rec)) => Out.io = <<>>)
RecalledMarked ==
  WellPlaced => \A j \in 1..Len(Out.io) : Out.io[j].io = "effect" => (Out.io[j].recalled <=> Out.rec)
ExitShape ==
  /\ Out.exit \in {"Normal", "Check", "Panic"}
  /\ Out.exit = "Normal" => ~Out.rec
  /\ Out.exit = "Check" => Out.rec          \* in this language a Check exit only arises through a recall block
(* the compile-time rejection of misplaced statements is load-bearing: were they accepted, the
   run would have side effects on a failing path (checked over the whole stray set in the MC module) *)
StrayBreaks(p) == LET o == Run(p) IN o.exit = "Panic" /\ o.io # <<>>
(* the compiled form computes the reference semantics *)
CompiledAgrees ==
  LET v == VmRun(prog) IN v.exit = Out.exit /\ v.io = Out.io /\ (v.rec <=> Out.rec)

---------------------------------------------------------------------------------
(* S2I emission: one line per program *)
SetToSeq(S) == LET RECURSIVE F(_)
                   F(T) == IF T = {} THEN <<>> ELSE LET m == CHOOSE x \in T : \A y \in T : x[1] <= y[1] IN <<m>> \o F(T \ {m})
               IN F(S)
Replay == [policy |-> prog.policy, recall |-> prog.recall, stray |-> ~WellPlaced,
           exit |-> Out.exit, rec |-> Out.rec, io |-> Out.io,
           facts |-> SetToSeq(Apply(Out.io, InitFacts))]
Emit == PrintT("REPLAY " \o ToJson(Replay))
=================================================================================
