\* thorough: N=5 over {basic, finalize}
SPECIFICATION Spec
CONSTANTS
  MergeTag = 2
  N = 5
  Kinds = {"b0", "fin"}
  Ops = {"n"}
  EmitEvery = 40
  EmitSalt = 0
INVARIANTS InvAlgEqRef InvLcaWalk InvFoldWalk InvFinalize InvOnce InvDominator InvFinalizeFirst Emit
CHECK_DEADLOCK FALSE
