\* C43 thorough: 3 threads x 2 rounds with the code's PASSIVE_SPIN = 5, safety (2.3M states).
SPECIFICATION Spec
CONSTANTS
  Threads = {1, 2, 3}
  Rounds = 2
  MoreRounds = {}
  PassiveSpin = 5
  Spurious = FALSE
  WakeOn = 2
INVARIANTS TypeOK MutualExclusion HeldImpliesLocked NoUnlockBug SleeperCovered
