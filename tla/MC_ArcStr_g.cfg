\* C33 schedule generation (transition cover): 2 threads, <= 1 clone and <= 1 read each ...
SPECIFICATION Spec
CONSTANTS
  Threads = {1, 2}
  Owners = {1, 2}
  MaxClones = 1
  MaxReads = 1
  FreeOn = 1
INVARIANTS NoUseAfterFree FreedOnce CountNonNeg CountIsHandles NoEarlyFree NoLeak
