\* C30 thorough: random derivations with <= 4 statements, nesting <= 2 (tlc -simulate)
SPECIFICATION SimSpec
CONSTANTS
  MaxStmts = 4
  MaxDepth = 2
  OpsMenu <- MCOpsMenu
  RecallMenu <- MCRecallMenu
  MatchArms <- MCMatchArms
  ExtraSimple <- MCExtraSimple
  WithElif = TRUE
  StrayBase = {}
  StrayOps = {}
  XKinds = {}
  Enumerate = FALSE
INVARIANTS WellFormed NoSideEffectsOnFailure RecalledMarked ExitShape CompiledAgrees Emit
CHECK_DEADLOCK FALSE
