\* C43 thorough: 3 threads x 2 rounds, PASSIVE_SPIN = 2, safety + liveness.
SPECIFICATION Spec
CONSTANTS
  Threads = {1, 2, 3}
  Rounds = 2
  MoreRounds = {}
  PassiveSpin = 2
  Spurious = FALSE
  WakeOn = 2
INVARIANTS TypeOK MutualExclusion HeldImpliesLocked NoUnlockBug SleeperCovered
PROPERTIES NoLostWakeup AllDone
