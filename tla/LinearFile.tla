------------------------------- MODULE LinearFile -------------------------------
(* C15 — crash consistency of the file-backed linear storage
   (`aranya-runtime/src/storage/linear/libc/imp.rs`: `Writer`, `Root`, `File`).

   The graph file is modelled as two *images*: `cache` (what the running process reads: the
   page cache) and `dur` (what is on stable storage).  An image is a set of *extents*
   [at, n, got, val]: a write of n units at offset `at` of which the first `got` units are
   present (got = n: intact, got < n: torn at a prefix), plus the file size.  A later write
   removes every extent it overlaps.  Every I/O call of the code is one action:

     Create · Fallocate · Fsync            Writer::create / ensure_capacity (fallocate + fsync)
     AppendHdr · AppendBody                append_at -> File::dump_bytes = two pwrites:
                                           4-byte length prefix, then the serialized value
     (commit) AppendHdr/AppendBody of the head-set record · Sync1 (fdatasync iff data_dirty)
              · RootHdr · RootBody (dump of the Root into slot `next_root`) · Sync2
     Close / Open                          drop the writer / Writer::open: both slots are
                                           loaded and checksum-validated, newest generation wins
                                           (ties -> slot A), alloc_end := free_offset,
                                           next_root := the other slot; LinearStorage::open
                                           then reads the head set
     Scrub · ScrubSync                     Writer::open, when the other slot holds no valid root:
                                           it is overwritten with zeros and fdatasync'ed before
                                           anything else is written (see StaleRootRevival below)
     Crash(plan)                           the process/machine dies: every write issued since the
                                           last fdatasync/fsync independently persists not at
                                           all, completely, or as a proper prefix.

   Assumptions about the OS (stated in the evidence): a completed fdatasync/fsync makes every
   earlier write (and file size change) durable; writes not yet synced may persist in any
   subset, in any order, each possibly torn at any unit (byte) prefix; nothing else changes
   the file.  A torn root body never passes the checksum; a length prefix larger than the
   serialized value still decodes (postcard ignores trailing bytes), a smaller one does not.

   Ghost state (`lay`, `rootlog`, `done`, `inprog`, `nid`) identifies what each commit wrote so
   that `Recoverable` can say which state a crash image must open as.

   `Mutant` switches on spec-level mutants used by the non-vacuity self-test:
   "nosync1" (no data sync before the root), "noalt" (always slot A), "nochecksum"
   (torn roots accepted), "nogen" (generation not incremented), "noscrub" (an invalid slot is
   left as it is on open — the code before the fix), "dirtyappend" (data_dirty is set by plain
   appends only, not by the commit's own head-set record).

   Bare commits: a commit needs no preceding plain append — AppendHdr(n, TRUE) is enabled in
   "idle" right after Sync2 or Open (`Storage::commit_heads` twice in a row, or as the first
   call on a reopened writer).  Then the head-set record is the only dirty data and Sync1 must
   still be taken; `BareCommitReached` is the (expected-to-fail) reachability witness.

   StaleRootRevival (found by TLC with MaxCrashes = 2 on the spec without Scrub, reproduced on
   the real code by `vh-crash recrash`, fixed in /repo): crash 1 persists the root *body* of an
   interrupted commit but not its length prefix — the slot is undecodable, the previous commit
   is recovered, the next commit overwrites the interrupted commit's data; crash 2 persists
   only the length prefix of the new root: prefix + stale body decode, carry the newest
   generation and reference overwritten data.                                                *)
EXTENDS Naturals, Sequences, FiniteSets, TLC

CONSTANTS HdrLen,       \* units of the length prefix (code: 4 bytes)
          SlotA, SlotB, \* offsets of the two root slots (code: 4096, 8192)
          FreeStart,    \* first data offset (code: 12288)
          Chunk,        \* preallocation granularity (code: 4 MiB)
          BodySizes,    \* MC: sizes a data record body may have
          RootSizes,    \* MC: sizes a serialized root may have
          ScrubLen,     \* units zeroed in an invalid root slot on open (code: 64)
          MaxCommits, MaxAppends, MaxCrashes, MaxCloses,   \* MC bounds
          PostCommits,  \* MC bound: commits that may still begin after a crash
          Mutant

VARIABLES cache, dur,   \* images
          unsynced,     \* writes issued since the last sync, in issue order
          mem,          \* the Writer's in-memory fields
          pc, cur,      \* control state of the writer; parameters of the call in progress
          lay,          \* ghost: records [off, n, id] below mem.free, in file order
          rootlog,      \* ghost: every root ever issued [gen, heads, free, k, lay]
          done, inprog, \* ghost: commits that completed (in order) / commit in progress (0 = none)
          nid, ncommit, napp, ncrash, nclose   \* ghost counters

vars == <<cache, dur, unsynced, mem, pc, cur, lay, rootlog, done, inprog,
          nid, ncommit, napp, ncrash, nclose>>

Max(a, b) == IF a > b THEN a ELSE b
Other(s) == IF s = SlotA THEN SlotB ELSE SlotA
NoMem == [gen |-> 0, heads |-> 0, free |-> 0, alloc |-> 0, next |-> SlotA, dirty |-> FALSE]
NoCur == [n |-> 0, commit |-> FALSE, want |-> 0, ret |-> "idle", slot |-> SlotA]
EmptyImage == [ext |-> {}, size |-> 0]

--------------------------------------------------------------------------------
(* Images *)

Overlaps(e, a, p) == e.at < a + p /\ a < e.at + e.got

\* the first p units (0 < p <= w.n) of write w reach the image
Put(img, w, p) ==
  IF w.kind = "fa"
  THEN [img EXCEPT !.size = Max(@, w.val[2])]
  ELSE [ext  |-> {e \in img.ext : ~Overlaps(e, w.at, p)}
                 \cup {[at |-> w.at, n |-> w.n, got |-> p, val |-> w.val]},
        size |-> Max(img.size, w.at + p)]

\* lengths announced by an intact length prefix at offset a (empty or a singleton)
HdrAt(img, a) ==
  {e.val[2] : e \in {x \in img.ext : x.at = a /\ x.n = HdrLen /\ x.got = HdrLen /\ x.val[1] = "len"}}

\* File::load(off) returns item `id` of size n
Readable(img, off, n, id) ==
  /\ \E L \in HdrAt(img, off) : L >= n
  /\ [at |-> off + HdrLen, n |-> n, got |-> n, val |-> <<"item", id>>] \in img.ext

\* File::load(slot).and_then(Root::validate): the root ids the slot decodes to (<= 1),
\* paired with whether the accepted body was torn (possible only for the "nochecksum" mutant)
Decode(img, s) ==
  {<<e.val[2], e.got < e.n>> :
     e \in {x \in img.ext : /\ x.at = s + HdrLen /\ x.val[1] = "root"
                            /\ (x.got = x.n \/ Mutant = "nochecksum")
                            /\ \E L \in HdrAt(img, s) : L >= x.n}}

Cands(img) == {<<SlotA, d[1], d[2]>> : d \in Decode(img, SlotA)}
              \cup {<<SlotB, d[1], d[2]>> : d \in Decode(img, SlotB)}

\* Writer::open: newest generation wins, slot A on a tie
Recover(img) ==
  LET C == Cands(img) IN
  IF C = {} THEN [kind |-> "error", rid |-> 0, slot |-> SlotA, torn |-> FALSE]
  ELSE LET a == {c \in C : c[1] = SlotA}
           b == {c \in C : c[1] = SlotB}
           pick == IF a = {} THEN CHOOSE c \in b : TRUE
                   ELSE IF b = {} THEN CHOOSE c \in a : TRUE
                   ELSE LET ca == CHOOSE c \in a : TRUE
                            cb == CHOOSE c \in b : TRUE
                        IN IF rootlog[ca[2]].gen < rootlog[cb[2]].gen THEN cb ELSE ca
       IN [kind |-> "state", rid |-> pick[2], slot |-> pick[1], torn |-> pick[3]]

\* every record the root's commit consists of is readable in the image, and the root's
\* pointers are the ones that commit wrote
RootSound(img, rid) ==
  LET r == rootlog[rid] IN
  /\ \A i \in 1..Len(r.lay) : Readable(img, r.lay[i].off, r.lay[i].n, r.lay[i].id)
  /\ Len(r.lay) > 0
  /\ r.heads = r.lay[Len(r.lay)].off
  /\ r.free = r.heads + HdrLen + r.lay[Len(r.lay)].n

--------------------------------------------------------------------------------
(* I/O primitives *)

Issue(w) == /\ cache' = Put(cache, w, w.n)
            /\ unsynced' = Append(unsynced, w)
            /\ dur' = dur

Flush == /\ dur' = cache
         /\ unsynced' = <<>>
         /\ cache' = cache

W(at, n, val) == [kind |-> "w", at |-> at, n |-> n, val |-> val]
Fa(size) == [kind |-> "fa", at |-> 0, n |-> 1, val |-> <<"size", size>>]

\* ensure_capacity: grow alloc_end in Chunk steps until it covers `end`
NewEnd(alloc, end) == alloc + Chunk * ((end - alloc + Chunk - 1) \div Chunk)

Ghost == <<lay, rootlog, done, inprog, nid, ncommit, napp, ncrash, nclose>>

--------------------------------------------------------------------------------
(* The writer *)

Init == /\ cache = EmptyImage /\ dur = EmptyImage /\ unsynced = <<>>
        /\ mem = NoMem /\ pc = "nofile" /\ cur = NoCur
        /\ lay = <<>> /\ rootlog = <<>> /\ done = <<>> /\ inprog = 0
        /\ nid = 1 /\ ncommit = 0 /\ napp = 0 /\ ncrash = 0 /\ nclose = 0

(* FileManager::create + Writer::create (up to its fallocate) *)
Create ==
  /\ pc = "nofile"
  /\ mem' = [NoMem EXCEPT !.free = FreeStart]
  /\ cur' = [NoCur EXCEPT !.want = FreeStart + Chunk, !.ret = "idle"]
  /\ pc' = "fallocate"
  /\ UNCHANGED <<cache, dur, unsynced, Ghost>>

(* File::fallocate, first half: libc::fallocate(0, want) *)
Fallocate ==
  /\ pc = "fallocate"
  /\ Issue(Fa(cur.want))
  /\ pc' = "fsync"
  /\ UNCHANGED <<mem, cur, Ghost>>

(* File::fallocate, second half: fsync; then alloc_end := want *)
Fsync ==
  /\ pc = "fsync"
  /\ Flush
  /\ mem' = [mem EXCEPT !.alloc = cur.want]
  /\ pc' = cur.ret
  /\ UNCHANGED <<cur, Ghost>>

\* start of append_at for a record with an n-unit body; c = it is the head-set record of a commit
StartOk(n, c) ==
  /\ pc = "idle"
  /\ IF c THEN ncommit < MaxCommits ELSE napp < MaxAppends /\ ncommit < MaxCommits
StartGhost(c) ==
  /\ IF c THEN inprog' = ncommit + 1 /\ ncommit' = ncommit + 1
          ELSE UNCHANGED <<inprog, ncommit>>
  /\ UNCHANGED <<lay, rootlog, done, nid, napp, ncrash, nclose>>

(* append_at needs more room first: ensure_capacity -> fallocate *)
AppendGrow(n, c) ==
  /\ StartOk(n, c)
  /\ mem.free + HdrLen + n > mem.alloc
  /\ cur' = [NoCur EXCEPT !.n = n, !.commit = c, !.ret = "hdr",
                          !.want = NewEnd(mem.alloc, mem.free + HdrLen + n)]
  /\ Issue(Fa(NewEnd(mem.alloc, mem.free + HdrLen + n)))
  /\ pc' = "fsync"
  /\ StartGhost(c)
  /\ UNCHANGED mem

(* dump_bytes, first pwrite: the length prefix *)
HdrWrite == /\ Issue(W(mem.free, HdrLen, <<"len", cur'.n>>))
            /\ pc' = "body"
            /\ UNCHANGED mem

AppendHdr(n, c) ==
  /\ StartOk(n, c)
  /\ mem.free + HdrLen + n <= mem.alloc
  /\ cur' = [NoCur EXCEPT !.n = n, !.commit = c]
  /\ HdrWrite
  /\ StartGhost(c)

AppendHdrAfterGrow ==
  /\ pc = "hdr"
  /\ cur' = cur
  /\ HdrWrite
  /\ UNCHANGED Ghost

(* dump_bytes, second pwrite: the value; then free_offset advances in memory only *)
AppendBody ==
  /\ pc = "body"
  /\ Issue(W(mem.free + HdrLen, cur.n, <<"item", nid>>))
  /\ lay' = Append(lay, [off |-> mem.free, n |-> cur.n, id |-> nid])
  /\ nid' = nid + 1
  /\ mem' = [mem EXCEPT !.free = @ + HdrLen + cur.n,
                        !.dirty = IF Mutant = "dirtyappend" /\ cur.commit THEN @ ELSE TRUE,
                        !.heads = IF cur.commit THEN mem.free ELSE @]
  /\ pc' = IF cur.commit THEN "sync1" ELSE "idle"
  /\ napp' = IF cur.commit THEN napp ELSE napp + 1
  /\ UNCHANGED <<cur, rootlog, done, inprog, ncommit, ncrash, nclose>>

(* commit, barrier 1: fdatasync iff data_dirty *)
Sync1 ==
  /\ pc = "sync1"
  /\ mem.dirty
  /\ IF Mutant = "nosync1" THEN UNCHANGED <<cache, dur, unsynced>> ELSE Flush
  /\ mem' = [mem EXCEPT !.dirty = FALSE]
  /\ pc' = "roothdr"
  /\ UNCHANGED <<cur, Ghost>>

(* write_root: generation + 1, checksum, dump into slot next_root: length prefix ... *)
RootHdr(n) ==
  /\ pc = "roothdr" \/ (pc = "sync1" /\ ~mem.dirty)
  /\ LET slot == IF Mutant = "noalt" THEN SlotA ELSE mem.next IN
     /\ cur' = [cur EXCEPT !.n = n, !.slot = slot]
     /\ Issue(W(slot, HdrLen, <<"len", n>>))
  /\ mem' = [mem EXCEPT !.gen = IF Mutant = "nogen" THEN @ ELSE @ + 1]
  /\ pc' = "rootbody"
  /\ UNCHANGED Ghost

(* ... then the serialized Root *)
RootBody ==
  /\ pc = "rootbody"
  /\ rootlog' = Append(rootlog, [gen |-> mem.gen, heads |-> mem.heads, free |-> mem.free,
                                 k |-> inprog, lay |-> lay])
  /\ Issue(W(cur.slot + HdrLen, cur.n, <<"root", Len(rootlog) + 1>>))
  /\ pc' = "sync2"
  /\ UNCHANGED <<mem, cur, lay, done, inprog, nid, ncommit, napp, ncrash, nclose>>

(* barrier 2: fdatasync; next_root flips; commit returns *)
Sync2 ==
  /\ pc = "sync2"
  /\ Flush
  /\ mem' = [mem EXCEPT !.next = Other(cur.slot)]
  /\ done' = Append(done, inprog)
  /\ inprog' = 0
  /\ napp' = 0
  /\ pc' = "idle"
  /\ UNCHANGED <<cur, lay, rootlog, nid, ncommit, ncrash, nclose>>

(* the writer is dropped without a crash: nothing is lost, nothing is synced *)
Close ==
  /\ pc = "idle"
  /\ nclose < MaxCloses
  /\ nclose' = nclose + 1
  /\ mem' = NoMem
  /\ pc' = "closed"
  /\ UNCHANGED <<cache, dur, unsynced, cur, lay, rootlog, done, inprog, nid, ncommit, napp, ncrash>>

--------------------------------------------------------------------------------
(* Crash and recovery *)

MaxN == LET S == {unsynced[i].n : i \in 1..Len(unsynced)} IN
        IF S = {} THEN 0 ELSE CHOOSE m \in S : \A x \in S : x <= m

\* a plan gives, per unsynced write, how many of its units persist (0 = lost, n = kept)
Plans == {p \in [1..Len(unsynced) -> 0..MaxN] : \A i \in 1..Len(unsynced) : p[i] <= unsynced[i].n}

ApplyPlan(plan) ==
  LET RECURSIVE Go(_, _)
      Go(i, img) == IF i > Len(unsynced) THEN img
                    ELSE Go(i + 1, IF plan[i] = 0 THEN img ELSE Put(img, unsynced[i], plan[i]))
  IN Go(1, dur)

Crash ==
  /\ pc \notin {"nofile", "crashed", "failed"}
  /\ ncrash < MaxCrashes
  /\ \E plan \in Plans :
       LET img == ApplyPlan(plan) IN cache' = img /\ dur' = img
  /\ unsynced' = <<>>
  /\ mem' = NoMem
  /\ cur' = NoCur
  /\ pc' = "crashed"
  /\ ncrash' = ncrash + 1
  /\ ncommit' = Max(ncommit, MaxCommits - PostCommits)    \* (bound only; commit ids stay unique)
  /\ UNCHANGED <<lay, rootlog, done, inprog, nid, napp, nclose>>

(* FileManager::open + Writer::open + LinearStorage::open (reads the head set) *)
Open ==
  /\ pc \in {"closed", "crashed"}
  /\ LET o == Recover(cache) IN
     IF o.kind = "error" \/ ~RootSound(cache, o.rid)
     THEN /\ pc' = "failed"
          /\ UNCHANGED <<mem, lay, done>>
     ELSE LET r == rootlog[o.rid] IN
          /\ mem' = [gen |-> r.gen, heads |-> r.heads, free |-> r.free, alloc |-> r.free,
                     next |-> Other(o.slot), dirty |-> FALSE]
          /\ lay' = r.lay
          /\ done' = IF done # <<>> /\ done[Len(done)] = r.k THEN done ELSE Append(done, r.k)
          /\ pc' = IF Decode(cache, Other(o.slot)) = {} /\ Mutant # "noscrub" THEN "scrub" ELSE "idle"
  /\ inprog' = 0
  /\ napp' = 0
  /\ cur' = [NoCur EXCEPT !.slot = Other(Recover(cache).slot)]
  /\ UNCHANGED <<cache, dur, unsynced, rootlog, nid, ncommit, ncrash, nclose>>

(* Writer::open, other slot invalid: wipe it ... *)
Scrub ==
  /\ pc = "scrub"
  /\ Issue(W(cur.slot, ScrubLen, <<"zero", 0>>))
  /\ pc' = "scrubsync"
  /\ UNCHANGED <<mem, cur, Ghost>>

(* ... durably, before the writer is handed out *)
ScrubSync ==
  /\ pc = "scrubsync"
  /\ Flush
  /\ pc' = "idle"
  /\ UNCHANGED <<mem, cur, Ghost>>

Next ==
  \/ Create \/ Fallocate \/ Fsync
  \/ \E n \in BodySizes, c \in BOOLEAN : AppendGrow(n, c) \/ AppendHdr(n, c)
  \/ AppendHdrAfterGrow \/ AppendBody
  \/ Sync1 \/ (\E n \in RootSizes : RootHdr(n)) \/ RootBody \/ Sync2
  \/ Close \/ Crash \/ Open \/ Scrub \/ ScrubSync

Spec == Init /\ [][Next]_vars

--------------------------------------------------------------------------------
(* Properties (C15) *)

Allowed == (IF done = <<>> THEN {} ELSE {done[Len(done)]})
           \cup (IF inprog = 0 THEN {} ELSE {inprog})

(* After any crash, opening the image yields the state of the last completed commit or of the
   commit in progress — an error only if no commit completed — and everything that state
   consists of is readable. *)
Recoverable ==
  pc = "crashed" =>
    LET o == Recover(cache) IN
    IF o.kind = "error" THEN done = <<>>
    ELSE /\ ~o.torn
         /\ rootlog[o.rid].k \in Allowed
         /\ RootSound(cache, o.rid)

(* The same for a clean close: reopening yields exactly the last completed commit. *)
CleanReopen ==
  pc = "closed" =>
    LET o == Recover(cache) IN
    /\ (o.kind = "error") = (done = <<>>)
    /\ o.kind = "state" => /\ rootlog[o.rid].k = done[Len(done)]
                           /\ RootSound(cache, o.rid)

(* The inductive core: a root that is decodable on stable storage only references data that is
   on stable storage ("synced before the root was written"), at every moment. *)
DurableRootsSound ==
  \A c \in Cands(dur) : ~c[3] /\ RootSound(dur, c[2])

(* Data appended after the recovered commit is never visible: the reopened writer's view of the
   file is exactly the recovered commit's records. *)
NothingNewerVisible ==
  pc = "idle" /\ mem.heads # 0 /\ inprog = 0 /\ napp = 0 =>
    /\ Len(lay) > 0
    /\ mem.free = lay[Len(lay)].off + HdrLen + lay[Len(lay)].n
    /\ mem.heads = lay[Len(lay)].off

(* Appends stay inside the preallocated region (ensure_capacity ran before the write). *)
WithinAlloc == pc = "body" => mem.free + HdrLen + cur.n <= mem.alloc

(* reachability witness (must be VIOLATED): a commit whose head-set record is the only data
   appended since the last sync reaches its first barrier *)
BareCommitReached == ~(pc = "sync1" /\ napp = 0 /\ Len(unsynced) = 2)

(* A failed open is terminal and only legitimate before the first completed commit. *)
FailOnlyBeforeFirstCommit == pc = "failed" => done = <<>>

TypeOK == /\ pc \in {"nofile", "fallocate", "fsync", "idle", "hdr", "body", "sync1", "roothdr",
                     "rootbody", "sync2", "closed", "crashed", "failed", "scrub", "scrubsync"}
          /\ mem.next \in {SlotA, SlotB}
=================================================================================
