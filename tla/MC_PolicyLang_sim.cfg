\* seeded simulation of deeper derivations (run with -simulate)
SPECIFICATION Spec
CONSTANTS
  MaxDepth = 3
  StmtDepth = 2
  Effects = FALSE
  Focus = "all"
  Quirks = FALSE
  EnvCap = 12
  RetTypes <- MC_RetAll
INVARIANTS Emit
CHECK_DEADLOCK FALSE
