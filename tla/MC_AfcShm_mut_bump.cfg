\* Self-test: bumping the generation of the first list only must be rejected (C41).
SPECIFICATION Spec
CONSTANTS
  Readers = {1}
  Cap = 2
  WScripts <- ScriptsBump
  ROps = 3
  Mutant = "bump_first_only"
INVARIANTS RemovalEffective
CHECK_DEADLOCK FALSE
