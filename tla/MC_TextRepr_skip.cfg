SPECIFICATION Spec
CONSTANTS
  MaxInline = 22
  Lens = {0, 1, 3, 21, 22, 23, 1024}
  StaticLens = {0, 1, 3, 21, 22, 23}
  SkipValidate = {"rkyv_access"}
  OrdByForm = FALSE
  HeapLenFirst = FALSE
INVARIANTS ExistsIffValid CompareByContent
CHECK_DEADLOCK FALSE
