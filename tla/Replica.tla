-------------------------------- MODULE Replica --------------------------------
(* Replicas of one graph (aranya-runtime `ClientState`, `Transaction`): authoring by actions
   (with lazy-merge collapse), sync delivery into transactions, commit.   DESIGN §3.1.

   The committed fact state, head set and hello head of a replica are *functions of its
   committed command set* (via Braid!RefBraid) — that is the design-level content of C01;
   the substance is the conformance replay (`vh-graph hist`), which executes every step of
   a behaviour on real replicas and compares the real projection with the `view` recorded
   in `hist`, and real replicas with each other.

   One action per public call; `action()` is split into its critical sections
   (ActBegin / ActMerge* / ActPublish|ActFail) because the collapse writes one merge command
   at a time; errors are outcomes.                                                          *)
EXTENDS Braid, Json

CONSTANTS Reps,         \* replica ids, e.g. {1, 2}; replica 1 creates the graph
          Authors,      \* replicas that perform actions
          Receivers,    \* replicas that receive sync deliveries
          Txns,         \* transaction slots per replica, e.g. {1} or {1, 2}
          MaxCmds,      \* bound on Len(dag) (universe incl. init and merges)
          MaxSteps,     \* bound on Len(hist); behaviours are emitted when reached
          Kinds, Ops,   \* as in MC_Braid
          MaxBatch,     \* add_commands batch length 1..MaxBatch
          AllowDup,     \* deliver commands the transaction already has
          AllowOrphan,  \* deliver commands whose parent the replica lacks
          AllowPoison,  \* deliver commands the policy rejects at origin (C06)
          AllowFail,    \* actions that fail after publishing (C07)
          AllowNoop,    \* commits of untouched transactions
          BootAll,      \* TRUE: every replica starts with the graph (init committed)
          MaxRank,      \* ranks (id order positions) available to new commands
          AllRanks,     \* new commands take every free rank (else only the least / greatest)
          AllowMulti,   \* actions publishing two commands (C07)
          AllowBadMerge,\* forged merges over concurrent finalize commands (C05)
          AllowBad,     \* malformed init deliveries (C10)
          PubWeight, CommitWeight, SyncWeight,   \* simulation weights (copies of the sub-action)
          ActWeight1,   \* simulation weight of starting an action on a single-head replica
          ActWeight     \* simulation weight of starting an action on a multi-head replica

VARIABLES rep,     \* [Reps -> [exists, committed, heads, stamp, q]]   q = collapse queue (<<>> = idle)
          tx,      \* [Reps -> [Txns -> [open, rs, base, acc]]]
          hist,    \* sequence of step records (S2I)
          npoison, \* poison commands delivered so far
          nbad,    \* malformed deliveries so far
          noise    \* no meaning: multiplies the successors of ActBegin (uniform simulation)

vars == <<dag, rep, tx, hist, npoison, nbad, noise>>

RECURSIVE AscSeq(_)
AscSeq(S) == IF S = {} THEN <<>>
             ELSE LET m == CHOOSE x \in S : \A y \in S : x <= y IN <<m>> \o AscSeq(S \ {m})

NoStamp == 9999
NoTx == [open |-> FALSE, rs |-> NoStamp, base |-> {}, acc |-> {}]

(* what a replica reports — all functions of the committed set *)
View(r) ==
  IF ~rep[r].exists THEN [exists |-> FALSE]
  ELSE LET H == rep[r].heads f == FactsOf(H) IN
       [exists |-> TRUE, heads |-> SortedById(H), committed |-> rep[r].committed,
        seq |-> f.seq, k |-> f.k, hello |-> HelloId(H), stamp |-> rep[r].stamp]

Record(rec) == hist' = Append(hist, rec)

Init ==
  /\ dag = << [par |-> <<>>, kind |-> "init", prio |-> 0, rank |-> 0, lca |-> 1, op |-> "n"] >>
  /\ noise = 0
  /\ nbad = 0
  /\ rep = [r \in Reps |-> IF r = 1 \/ BootAll THEN [exists |-> TRUE, committed |-> {1}, heads |-> {1}, stamp |-> 0, q |-> <<>>]
                                    ELSE [exists |-> FALSE, committed |-> {}, heads |-> {}, stamp |-> 0, q |-> <<>>]]
  /\ tx = [r \in Reps |-> [t \in Txns |-> NoTx]]
  /\ hist = <<>>
  /\ npoison = 0

Idle(r) == rep[r].q = <<>>
Steps == Len(hist) < MaxSteps
UsedRanks == {dag[c].rank : c \in Nodes}
FreeRanks == (1..MaxRank) \ UsedRanks
(* id order of a new command relative to the others: every free rank, or only the extremes *)
RankChoice == IF AllRanks THEN FreeRanks
              ELSE {CHOOSE x \in FreeRanks : \A y \in FreeRanks : x <= y, CHOOSE x \in FreeRanks : \A y \in FreeRanks : y <= x}

--------------------------------------------------------------------------------
(* action(): collapse the head set pairwise (sorted by id, fold through a queue), then publish *)
ActBegin(r) ==
  /\ r \in Authors /\ Steps /\ rep[r].exists /\ Idle(r) /\ Len(dag) < MaxCmds
  /\ rep' = [rep EXCEPT ![r].q = SortedById(rep[r].heads)]
  /\ noise' = noise
  /\ UNCHANGED <<dag, tx, hist, npoison, nbad>>

FindMerge(l, r) == {m \in Nodes : IsMerge(m) /\ ParSet(m) = {l, r}}

ActMerge(r) ==
  /\ Len(rep[r].q) >= 2
  /\ LET l == rep[r].q[1] rr == rep[r].q[2] rest == SubSeq(rep[r].q, 3, Len(rep[r].q)) IN
     IF FindMerge(l, rr) # {}
     THEN /\ rep' = [rep EXCEPT ![r].q = Append(rest, CHOOSE m \in FindMerge(l, rr) : TRUE)]
          /\ UNCHANGED dag
     ELSE /\ Len(dag) < MaxCmds + 3     \* merges of a collapse may exceed the universe bound slightly
          /\ dag' = Append(dag, [par |-> IF IdLess(l, rr) THEN <<l, rr>> ELSE <<rr, l>>, kind |-> "merge",
                                 prio |-> 0, rank |-> 0, lca |-> Lca({l, rr}), op |-> "n"])
          /\ rep' = [rep EXCEPT ![r].q = Append(rest, Len(dag) + 1)]
  /\ UNCHANGED <<tx, hist, npoison, nbad, noise>>

(* nodes of the collapse that r has not committed yet: the merges the fold wrote *)
NewMerges(r, top) == {m \in AncSelf(top) : IsMerge(m)} \ rep[r].committed

NodeRec(c) == [n |-> c, par |-> Par(c), kind |-> dag[c].kind, prio |-> dag[c].prio,
               rank |-> dag[c].rank, op |-> dag[c].op]

ActPublish(r) ==
  /\ Len(rep[r].q) = 1 /\ Len(dag) < MaxCmds + 4
  /\ \E k \in Kinds, rk \in RankChoice, o \in Ops :
       LET top == rep[r].q[1]
           c   == Len(dag) + 1
           ms  == NewMerges(r, top)
       IN /\ AcceptedAtOrigin(top, o)
          /\ dag' = Append(dag, [par |-> <<top>>, kind |-> IF k = "fin" THEN "fin" ELSE "b",
                                 prio |-> IF k = "b1" THEN 1 ELSE 0, rank |-> rk, lca |-> 1, op |-> o])
          /\ rep' = [rep EXCEPT ![r] = [exists |-> TRUE, committed |-> rep[r].committed \cup ms \cup {c},
                                        heads |-> {c}, stamp |-> rep[r].stamp + 1, q |-> <<>>]]
          /\ hist' = Append(hist, [op |-> "action", r |-> r, res |-> "ok",
                                   merges |-> [i \in 1..Cardinality(ms) |-> NodeRec(SortedById(ms)[i])],
                                   pub |-> [n |-> c, par |-> <<top>>, kind |-> IF k = "fin" THEN "fin" ELSE "b",
                                            prio |-> IF k = "b1" THEN 1 ELSE 0, rank |-> rk, op |-> o],
                                   pre |-> View(r),
                                   view |-> [exists |-> TRUE, heads |-> <<c>>,
                                             committed |-> rep[r].committed \cup ms \cup {c},
                                             seq |-> ApplyOp(FactsAt(top), c, o).seq, k |-> ApplyOp(FactsAt(top), c, o).k,
                                             hello |-> <<1, rk>>, stamp |-> rep[r].stamp + 1]])
  /\ UNCHANGED <<tx, npoison, nbad, noise>>

(* an action publishing TWO commands (the second a plain child of the first): one new head, both
   commands and their facts committed together (C07) *)
ActPublish2(r) ==
  /\ AllowMulti /\ Len(rep[r].q) = 1 /\ Len(dag) + 1 < MaxCmds + 4 /\ Cardinality(FreeRanks) >= 2
  /\ \E k \in Kinds, o \in Ops :
       LET top == rep[r].q[1]
           c   == Len(dag) + 1
           ms  == NewMerges(r, top)
           rk  == CHOOSE x \in FreeRanks : \A y \in FreeRanks : y <= x
           rk2 == CHOOSE x \in FreeRanks : \A y \in FreeRanks : x <= y
           n1  == [par |-> <<top>>, kind |-> IF k = "fin" THEN "fin" ELSE "b",
                   prio |-> IF k = "b1" THEN 1 ELSE 0, rank |-> rk, lca |-> 1, op |-> o]
           n2  == [par |-> <<c>>, kind |-> "b", prio |-> 0, rank |-> rk2, lca |-> 1, op |-> "n"]
           f2  == ApplyOp(ApplyOp(FactsAt(top), c, o), c + 1, "n")
       IN /\ AcceptedAtOrigin(top, o)
          /\ dag' = Append(Append(dag, n1), n2)
          /\ rep' = [rep EXCEPT ![r] = [exists |-> TRUE, committed |-> rep[r].committed \cup ms \cup {c, c + 1},
                                        heads |-> {c + 1}, stamp |-> rep[r].stamp + 1, q |-> <<>>]]
          /\ hist' = Append(hist, [op |-> "action", r |-> r, res |-> "ok",
                                   merges |-> [i \in 1..Cardinality(ms) |-> NodeRec(SortedById(ms)[i])],
                                   pub |-> [n |-> c, par |-> <<top>>, kind |-> n1.kind, prio |-> n1.prio, rank |-> rk, op |-> o],
                                   pub2 |-> [n |-> c + 1, par |-> <<c>>, kind |-> "b", prio |-> 0, rank |-> rk2, op |-> "n"],
                                   pre |-> View(r),
                                   view |-> [exists |-> TRUE, heads |-> <<c + 1>>,
                                             committed |-> rep[r].committed \cup ms \cup {c, c + 1},
                                             seq |-> f2.seq, k |-> f2.k,
                                             hello |-> <<1, rk2>>, stamp |-> rep[r].stamp + 1]])
  /\ UNCHANGED <<tx, npoison, nbad, noise>>

(* an action whose policy fails (after publishing j commands and writing facts): no trace (C07) *)
ActFail(r) ==
  /\ AllowFail /\ Len(rep[r].q) = 1
  /\ \E j \in 0..1 :
       /\ rep' = [rep EXCEPT ![r].q = <<>>]
       /\ Record([op |-> "action_fail", r |-> r, j |-> j, res |-> "Rejected", view |-> View(r)])
  /\ UNCHANGED <<dag, tx, npoison, nbad, noise>>

--------------------------------------------------------------------------------
(* add_commands *)
Has(r, t, c) == c \in tx[r][t].base \cup tx[r][t].acc
TxTips(x) == HeadsOf(x.base \cup x.acc)

(* effect of one command on a transaction value x (already past the lazy head read).
   `locate` searches the LIVE committed heads and the transaction's tips, so commands another
   commit added meanwhile count as known (such a transaction fails at commit anyway). *)
AddOne(x, c, live) ==
  LET known == live \cup x.base \cup x.acc IN
  IF c \in known THEN [x |-> x, res |-> "skip"]
  ELSE IF Par(c) = <<>> THEN [x |-> x, res |-> "skip"]          \* the graph's own init again
  ELSE IF ~(ParSet(c) \subseteq known) THEN [x |-> x, res |-> "NoSuchParent"]
  ELSE [x |-> [x EXCEPT !.acc = @ \cup {c}], res |-> "added"]

RECURSIVE AddAll(_, _, _, _, _)
AddAll(x, batch, i, n, live) ==
  IF i > Len(batch) THEN [x |-> x, res |-> "ok", count |-> n]
  ELSE LET s == AddOne(x, batch[i], live) IN
       IF s.res \in {"skip", "added"} THEN AddAll(s.x, batch, i + 1, IF s.res = "added" THEN n + 1 ELSE n, live)
       ELSE [x |-> s.x, res |-> s.res, count |-> n]

Batches(S) == UNION {{b \in [1..n -> S] : AllowDup \/ \A i, j \in 1..n : i # j => b[i] # b[j]} : n \in 1..MaxBatch}

(* the first touch of the graph reads the committed heads and the stamp *)
Touch(r, t) == IF tx[r][t].rs = NoStamp
               THEN [open |-> TRUE, rs |-> rep[r].stamp, base |-> rep[r].committed, acc |-> {}]
               ELSE tx[r][t]

Candidates(r, t) ==
  LET x == Touch(r, t)
      known == rep[r].committed \cup x.base \cup x.acc
      others == UNION {rep[p].committed : p \in Reps \ {r}}
  IN {c \in others : (AllowDup \/ c \notin known) /\ (AllowOrphan \/ ParSet(c) \subseteq known \cup others)}

Deliver(r, t) ==
  /\ r \in Receivers /\ Steps /\ Idle(r) /\ rep[r].exists
  /\ \E batch \in Batches(Candidates(r, t)) :
       LET a == AddAll(Touch(r, t), batch, 1, 0, rep[r].committed) IN
       /\ tx' = [tx EXCEPT ![r][t] = a.x]
       /\ Record([op |-> "deliver", r |-> r, t |-> t, cmds |-> batch, res |-> a.res, count |-> a.count,
                  tips |-> SortedById(TxTips(a.x))])
  /\ UNCHANGED <<dag, rep, npoison, nbad, noise>>

(* first contact: the graph does not exist locally; the first command must be its init *)
DeliverInit(r, t) ==
  /\ r \in Receivers /\ Steps /\ ~rep[r].exists
  /\ \E batch \in Batches(UNION {rep[p].committed : p \in Reps \ {r}}) :
       IF batch[1] = 1
       THEN LET x0 == [open |-> TRUE, rs |-> 0, base |-> {1}, acc |-> {}]
                a  == AddAll(x0, Tail(batch), 1, 1, {1})
            IN /\ rep' = [rep EXCEPT ![r] = [exists |-> TRUE, committed |-> {1}, heads |-> {1}, stamp |-> 0, q |-> <<>>]]
               /\ tx' = [tx EXCEPT ![r][t] = a.x]
               /\ Record([op |-> "deliver", r |-> r, t |-> t, cmds |-> batch, res |-> a.res, count |-> a.count,
                          tips |-> SortedById(TxTips(a.x))])
       ELSE /\ UNCHANGED <<rep, tx>>
            /\ Record([op |-> "deliver", r |-> r, t |-> t, cmds |-> batch, res |-> "InitError", count |-> 0, tips |-> <<>>])
  /\ UNCHANGED <<dag, npoison, nbad, noise>>

(* a command the policy rejects at origin, child of a command the transaction has; then
   optionally a command naming the rejected one as parent (C06) *)
DeliverPoison(r, t) ==
  /\ r \in Receivers /\ AllowPoison /\ Steps /\ Idle(r) /\ rep[r].exists /\ npoison < 2
  /\ \E p \in Touch(r, t).base \cup Touch(r, t).acc, orphan \in BOOLEAN :
       /\ ~IsMerge(p) \/ TRUE
       /\ tx' = [tx EXCEPT ![r][t] = Touch(r, t)]
       /\ npoison' = npoison + 1
       /\ Record([op |-> "poison", r |-> r, t |-> t, parent |-> p, pid |-> npoison + 1, orphan |-> orphan,
                  res |-> "Rejected", res2 |-> "NoSuchParent", tips |-> SortedById(TxTips(Touch(r, t)))])
  /\ UNCHANGED <<dag, rep, nbad, noise>>

(* C10: malformed first contacts and foreign init commands.  Shapes:
     foreign_init   a parentless command with another id (with a policy)
     foreign_nopolicy   the same without policy bytes
     nopolicy_init  the graph's own init id but without policy bytes      (missing graph only)
     parented       a first command that has a parent                      (missing graph only)
   All are refused with InitError; nothing is created or changed. *)
DeliverBad(r, t) ==
  /\ AllowBad /\ Steps /\ Idle(r) /\ nbad < 2
  /\ \E shape \in (IF rep[r].exists THEN {"foreign_init", "foreign_nopolicy"}
                    ELSE {"foreign_init", "foreign_nopolicy", "nopolicy_init", "parented"}) :
       /\ nbad' = nbad + 1
       /\ tx' = IF rep[r].exists THEN [tx EXCEPT ![r][t] = Touch(r, t)] ELSE tx   \* heads are read first
       /\ Record([op |-> "bad", r |-> r, t |-> t, shape |-> shape, exists |-> rep[r].exists, res |-> "InitError"])
  /\ UNCHANGED <<dag, rep, npoison, noise>>

(* C05: a forged merge command over two concurrent finalize commands the transaction already
   holds (no honest replica writes one): refused with ParallelFinalize, nothing changes — in
   particular its parents stay heads of the transaction, so a later commit still fails. *)
DeliverBadMerge(r, t) ==
  /\ AllowBadMerge /\ r \in Receivers /\ Steps /\ Idle(r) /\ rep[r].exists /\ nbad < 2
  /\ LET x == Touch(r, t) known == rep[r].committed \cup x.base \cup x.acc IN
     \E l \in known, rr \in known :
       /\ l < rr /\ Concurrent(l, rr) /\ RefBraid({l, rr}).err
       /\ tx' = [tx EXCEPT ![r][t] = x]
       /\ nbad' = nbad + 1
       /\ Record([op |-> "badmerge", r |-> r, t |-> t, l |-> l, rr |-> rr, res |-> "ParallelFinalize"])
  /\ UNCHANGED <<dag, rep, npoison, noise>>

Flush(r, t) ==
  /\ Steps /\ Idle(r) /\ tx[r][t].open /\ tx[r][t].acc # {}
  /\ hist # <<>> /\ hist[Len(hist)].op # "flush"
  /\ Record([op |-> "flush", r |-> r, t |-> t])
  /\ UNCHANGED <<dag, rep, tx, npoison, nbad, noise>>

Commit(r, t) ==
  /\ Steps /\ Idle(r) /\ tx[r][t].open
  /\ LET x == tx[r][t] H == TxTips(x) IN
     /\ tx' = [tx EXCEPT ![r][t] = NoTx]
     /\ IF x.rs # rep[r].stamp
        THEN /\ UNCHANGED rep
             /\ Record([op |-> "commit", r |-> r, t |-> t, res |-> "ConcurrentTransaction", view |-> View(r)])
        ELSE IF Cardinality(H) >= 2 /\ RefBraid(H).err
        THEN /\ UNCHANGED rep
             /\ Record([op |-> "commit", r |-> r, t |-> t, res |-> "ParallelFinalize", view |-> View(r)])
        ELSE /\ rep' = [rep EXCEPT ![r].committed = x.base \cup x.acc, ![r].heads = H, ![r].stamp = @ + 1]
             /\ LET f == FactsOf(H) IN
                Record([op |-> "commit", r |-> r, t |-> t, res |-> "ok",
                        view |-> [exists |-> TRUE, heads |-> SortedById(H), committed |-> x.base \cup x.acc,
                                  seq |-> f.seq, k |-> f.k, hello |-> HelloId(H), stamp |-> rep[r].stamp + 1]])
  /\ UNCHANGED <<dag, npoison, nbad, noise>>

(* commit of a transaction that never touched the graph: returns false *)
CommitNoop(r, t) ==
  /\ AllowNoop /\ Steps /\ Idle(r) /\ rep[r].exists /\ ~tx[r][t].open
  /\ hist # <<>> /\ hist[Len(hist)].op # "commit"
  /\ Record([op |-> "commit", r |-> r, t |-> t, res |-> "noop", view |-> View(r)])
  /\ UNCHANGED <<dag, rep, tx, npoison, nbad, noise>>

(* sync everything p has into r in one transaction and commit (makes converged pairs frequent) *)
SyncAll(r, p) ==
  /\ r \in Receivers /\ Steps /\ Idle(r) /\ Idle(p) /\ r # p /\ rep[p].exists
  /\ \A t \in Txns : ~tx[r][t].open
  /\ ~(rep[p].committed \subseteq rep[r].committed)
  /\ LET all == rep[r].committed \cup rep[p].committed
         H   == HeadsOf(all)
         missing == rep[p].committed \ rep[r].committed
         order == AscSeq(missing)
     IN IF Cardinality(H) >= 2 /\ RefBraid(H).err
        THEN /\ UNCHANGED rep
             /\ Record([op |-> "syncall", r |-> r, p |-> p, cmds |-> order, res |-> "ParallelFinalize", view |-> View(r)])
        ELSE /\ rep' = [rep EXCEPT ![r] = [exists |-> TRUE, committed |-> all, heads |-> H,
                                           stamp |-> IF rep[r].exists THEN rep[r].stamp + 1 ELSE 1, q |-> <<>>]]
             /\ LET f == FactsOf(H) IN
                Record([op |-> "syncall", r |-> r, p |-> p, cmds |-> order, res |-> "ok",
                        view |-> [exists |-> TRUE, heads |-> SortedById(H), committed |-> all,
                                  seq |-> f.seq, k |-> f.k, hello |-> HelloId(H),
                                  stamp |-> IF rep[r].exists THEN rep[r].stamp + 1 ELSE 1]])
  /\ UNCHANGED <<dag, tx, npoison, nbad, noise>>

Next ==
  \E r \in Reps :
     \/ (\E w \in 1..ActWeight1 : ActBegin(r))      \* TLC's simulator picks a sub-action uniformly:
     \/ (\E w \in 1..ActWeight : ActBegin(r) /\ Cardinality(rep[r].heads) >= 2)   \* copies = weight
     \/ ActMerge(r) \/ (\E w \in 1..PubWeight : ActPublish(r)) \/ ActPublish2(r) \/ ActFail(r)
     \/ \E t \in Txns : Deliver(r, t) \/ DeliverInit(r, t) \/ DeliverPoison(r, t) \/ DeliverBad(r, t) \/ DeliverBadMerge(r, t) \/ Flush(r, t)
                        \/ (\E w \in 1..CommitWeight : Commit(r, t)) \/ CommitNoop(r, t)
     \/ \E p \in Reps, w \in 1..SyncWeight : SyncAll(r, p)

Spec == Init /\ [][Next]_vars

--------------------------------------------------------------------------------
(* Design-level properties *)

(* C09 *)
Frontier == \A r \in Reps : rep[r].exists =>
  /\ rep[r].heads = HeadsOf(rep[r].committed)
  /\ Closed(rep[r].committed)
  /\ 1 \in rep[r].committed
(* C08 (action property) *)
AppendOnly == [][\A r \in Reps : rep[r].committed \subseteq rep'[r].committed]_vars
(* C01: state is a function of the committed set (by construction) — stated for the record *)
Convergence == \A a \in Reps, b \in Reps :
  (rep[a].exists /\ rep[b].exists /\ rep[a].committed = rep[b].committed) => rep[a].heads = rep[b].heads
(* C04: the collapse's top command holds the N-way braid state and is what hello advertises *)
LazyMergeEquiv == \A r \in Reps : Len(rep[r].q) = 1 =>
  LET top == rep[r].q[1] H == rep[r].heads IN
    /\ FactsAt(top) = FactsOf(H)
    /\ IdOf(top) = HelloId(H)
(* C05 consequence: a committed head set never holds concurrent finalize commands *)
NoParallelFinalizeCommitted == \A r \in Reps : rep[r].exists /\ Cardinality(rep[r].heads) >= 2 => ~RefBraid(rep[r].heads).err
(* C19 (design level; known to fail for the lazy-vs-materialised class, see DESIGN §7.7):
   ShouldSync = FALSE => the advertiser's surplus consists of merge commands only *)
ShouldSync(r, p) == ~rep[r].exists \/ (HelloId(rep[r].heads) # HelloId(rep[p].heads)
                                       /\ ~\E c \in rep[r].committed : IdOf(c) = HelloId(rep[p].heads))
HelloSound == \A r \in Reps, p \in Reps :
  (rep[p].exists /\ Idle(p) /\ Idle(r) /\ ~ShouldSync(r, p)) =>
     \A c \in rep[p].committed \ rep[r].committed : IsMerge(c)

--------------------------------------------------------------------------------
Done == Len(hist) = MaxSteps
Emit == Done => PrintT("REPLAY " \o ToJson([steps |-> hist]))
NotDone == Len(hist) <= MaxSteps
=================================================================================
