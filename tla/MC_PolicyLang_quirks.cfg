\* programs outside the type system that the compiler may accept (C24): binding alternations,
\* partial struct literals.  Root production is a quirk, operands are ordinary atoms.
SPECIFICATION Spec
CONSTANTS
  MaxDepth = 1
  StmtDepth = 0
  Effects = FALSE
  Focus = "all"
  Quirks = TRUE
  EnvCap = 8
  RetTypes <- MC_RetQuirks
INVARIANTS Emit
CHECK_DEADLOCK FALSE
