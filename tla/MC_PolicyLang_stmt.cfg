\* exhaustive: every statement form (let, check, debug_assert, if/else-if/else, match) over atoms
SPECIFICATION Spec
CONSTANTS
  MaxDepth = 0
  StmtDepth = 1
  Effects = FALSE
  Focus = "all"
  Quirks = FALSE
  EnvCap = 8
  RetTypes <- MC_RetInt
INVARIANTS Emit
CHECK_DEADLOCK FALSE
