\* thorough: universe <= 4 so multi-head collapses (ActMerge) occur in exhaustive histories
SPECIFICATION Spec
CONSTANTS
  MergeTag = 2
  Reps = {1, 2}
  Authors = {1, 2}
  Receivers = {1, 2}
  Txns = {1}
  MaxCmds = 4
  MaxSteps = 5
  Kinds = {"b0", "fin"}
  Ops = {"n"}
  MaxBatch = 1
  AllowDup = FALSE
  AllowOrphan = FALSE
  AllowPoison = FALSE
  AllowFail = FALSE
  AllowNoop = TRUE
  BootAll = FALSE
  MaxRank = 4
  AllRanks = TRUE
  AllowMulti = TRUE
  AllowBadMerge = TRUE
  AllowBad = FALSE
  PubWeight = 1
  CommitWeight = 1
  SyncWeight = 1
  ActWeight1 = 1
  ActWeight = 1
INVARIANTS Frontier Convergence LazyMergeEquiv NoParallelFinalizeCommitted HelloSound Emit
PROPERTIES AppendOnly
CONSTRAINT NotDone
CHECK_DEADLOCK FALSE
