\* Self-test: resuming the cached sequence number only when the channel kept its list slot must be rejected (C40).
SPECIFICATION Spec
CONSTANTS
  Readers = {1}
  Cap = 4
  WScripts <- ScriptsMoveOne
  ROps = 3
  Mutant = "seq_zero_if_moved"
INVARIANTS SeqsOk
CHECK_DEADLOCK FALSE
