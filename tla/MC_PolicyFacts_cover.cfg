\* C29 quick, S2I generation: every store x every operation (one step), emitted for replay
SPECIFICATION Spec
CONSTANTS
  Schemas <- SchemasQuick
  ValDom = 2
  MaxFacts = 3
  Limits = {1, 2, 3}
  MaxSteps = 1
  InitMode = "all"
INVARIANTS TypeOK StoreSorted Emit
PROPERTIES OneKeyPerStep
CHECK_DEADLOCK FALSE
