------------------------------- MODULE PolicyFront -------------------------------
(* C27 — "Policy front ends are total": parse_policy_document / parse_policy_str /
   parse_expression and Compiler::compile return a result or a structured error on every
   input; neither panics.

   "All texts" is approximated by nine generated families.  A text is a sequence of *tokens*
   (rendered with single spaces) or, for Markdown documents, a sequence of lines.  Every state
   of this spec is one cell of the table — TLC enumerates them (exhaustively in the MC
   configurations, by seeded simulation for the deep ones) and prints one REPLAY line per cell
   with the spec's verdict where it has one:

     expr   AnyExprs: every atom, every unary constructor over it, every binary constructor
            over two atoms (no type filter: ill-typed, ill-scoped, undefined names included);
            the Grow action nests further.  Syntactically valid by construction: parse = ok.
     stmt   every statement kind in every statement context (action, pure function, finish
            function, policy block, finish block inside policy, recall block, seal, open).
            All of them parse; `Allowed` is the compiler's placement table
            (compile/lower.rs lower_statements) and predicts compile ok / err.
     defs   definition sets with one defect each: duplicate definitions of every kind,
            recursive structs (direct, mutual, through option, through field insertion),
            duplicate fields / enum variants / fact keys, undefined types and callees, wrong
            arity, recursion, missing command blocks, reserved words as names.
     arity  every kind of callable (function, builtin, finish function, action, recall block in
            statement and in expression position) with fewer / as many / more arguments than
            parameters and with a wrongly typed argument; struct / effect / command literals
            and fact literals with missing, surplus, repeated and reordered fields.
     card   `match` over types with just under, exactly and over 2^64 inhabitants (structs of
            bools / of structs / of enums), bare and under option / result, with and without
            default arms, as statement and as expression.
     mut    token-level mutations of two well-formed base programs: delete / duplicate / swap a
            token, insert an (unbalancing) delimiter, replace a token — at every position.
     repo   the same mutation classes over the repository's own policy documents (token counts
            come from the driver; positions are sampled with a stride, offset by the seed).
     doc    Markdown structure: front matter variants x fence variants x line ending x
            text before the fence (ASCII / multi-byte) x body (ok, syntax error, compile
            error, multi-byte characters before an error).
     nest   recursive constructs nested 64 / 512 / 4096 deep.

   The property itself has a single verdict for every cell: "returns".  The parse / compile
   predictions are extra oracle strength (differences are drift, not violations).           *)
EXTENDS Integers, Sequences, FiniteSets, TLC, Json, IOUtils

CONSTANTS Families,     \* subset of {"expr","stmt","defs","arity","card","mut","repo","doc","nest"}
          GrowDepth,    \* expr: nesting steps beyond the first constructor level
          Stride,       \* repo: every Stride-th token position (offset = Seed % Stride)
          MutStride,    \* mut: every MutStride-th token position of the base programs
          DocEols,      \* doc: subset of {"lf", "crlf"}
          DocBefores    \* doc: subset of {"none", "ascii", "wide"} (text before the fence)

VARIABLES fam, cell, depth
vars == <<fam, cell, depth>>

Cat(ss) == LET RECURSIVE C(_)
               C(i) == IF i > Len(ss) THEN <<>> ELSE ss[i] \o C(i + 1)
           IN C(1)

---------------------------------------------------------------------------------
(* the common prelude: a small well-formed policy every generated text may refer to *)
Prelude == Cat(<<
  <<"struct", "S", "{", "a", "int", ",", "b", "bool", "}">>,
  <<"struct", "T", "{", "a", "int", "}">>,
  <<"enum", "E", "{", "A", ",", "B", "}">>,
  <<"fact", "F", "[", "k", "int", "]", "=>", "{", "v", "int", "}">>,
  <<"effect", "Ef", "{", "a", "int", "}">>,
  <<"function", "g", "(", "x", "int", ")", "int", "{", "return", "x", "}">>,
  <<"finish", "function", "ff", "(", "x", "int", ")", "{",
      "create", "F", "[", "k", ":", "x", "]", "=>", "{", "v", ":", "1", "}", "}">>,
  <<"command", "C", "{",
      "fields", "{", "a", "int", "}",
      "seal", "{", "return", "todo()", "}",
      "open", "{", "return", "todo()", "}",
      "policy", "{", "finish", "{", "}", "}",
      "recall", "r", "(", ")", "{", "finish", "{", "}", "}",
    "}">>,
  <<"action", "act", "(", "n", "int", ")", "{", "publish", "C", "{", "a", ":", "n", "}", "}">> >>)

---------------------------------------------------------------------------------
(* expr *)
Atoms == { <<"1">>, <<"-1">>, <<"9223372036854775808">>, <<"true">>, <<"None">>, <<"Unit">>,
           <<"\"s\"">>, <<"x">>, <<"s">>, <<"o">>, <<"nope">>, <<"this">>,
           <<"E", "::", "A">>, <<"E", "::", "Zz">>, <<"todo()">> }

UnaryOps == {"not", "some", "ok", "err", "paren", "dot-a", "dot-zz", "substruct", "cast", "is-none",
             "is-some", "call1", "call-undef", "call2", "lit-full", "lit-missing", "lit-undef",
             "lit-compose", "query", "exists", "count", "atleast-bind", "return", "block", "if",
             "match", "match-empty", "ffi", "test-fail", "serialize"}
Unary(op, e) ==
  CASE op = "not" -> <<"!">> \o e
    [] op = "some" -> <<"Some", "(">> \o e \o <<")">>
    [] op = "ok" -> <<"Ok", "(">> \o e \o <<")">>
    [] op = "err" -> <<"Err", "(">> \o e \o <<")">>
    [] op = "paren" -> <<"(">> \o e \o <<")">>
    [] op = "dot-a" -> e \o <<".", "a">>
    [] op = "dot-zz" -> e \o <<".", "zz">>
    [] op = "substruct" -> e \o <<"substruct", "T">>
    [] op = "cast" -> e \o <<"as", "T">>
    [] op = "is-none" -> e \o <<"is", "None">>
    [] op = "is-some" -> e \o <<"is", "Some">>
    [] op = "call1" -> <<"g", "(">> \o e \o <<")">>
    [] op = "call-undef" -> <<"nope", "(">> \o e \o <<")">>
    [] op = "call2" -> <<"g", "(">> \o e \o <<",">> \o e \o <<")">>
    [] op = "lit-full" -> <<"S", "{", "a", ":">> \o e \o <<",", "b", ":", "true", "}">>
    [] op = "lit-missing" -> <<"S", "{", "a", ":">> \o e \o <<"}">>
    [] op = "lit-undef" -> <<"U", "{", "a", ":">> \o e \o <<"}">>
    [] op = "lit-compose" -> <<"S", "{", "b", ":">> \o e \o <<",", "...", "s", "}">>
    [] op = "query" -> <<"query", "F", "[", "k", ":">> \o e \o <<"]">>
    [] op = "exists" -> <<"exists", "F", "[", "k", ":">> \o e \o <<"]", "=>", "{", "v", ":", "?", "}">>
    [] op = "count" -> <<"count_up_to", "2", "F", "[", "k", ":">> \o e \o <<"]">>
    [] op = "atleast-bind" -> <<"at_least", "0", "F", "[", "k", ":", "?", "]", "=>", "{", "v", ":">> \o e \o <<"}">>
    [] op = "return" -> <<"return">> \o e
    [] op = "block" -> <<"{", "let", "y", "=">> \o e \o <<":", "y", "}">>
    [] op = "if" -> <<"if">> \o e \o <<"{", ":", "1", "}", "else", "{", ":", "2", "}">>
    [] op = "match" -> <<"match">> \o e \o <<"{", "1", "=>", "2", "_", "=>", "3", "}">>
    [] op = "match-empty" -> <<"match">> \o e \o <<"{", "}">>
    [] op = "ffi" -> <<"ffi", "::", "g", "(">> \o e \o <<")">>
    [] op = "test-fail" -> <<"check">> \o e \o <<"else", "test_fail(", "\"m\"", ")">>
    [] op = "serialize" -> <<"serialize", "(">> \o e \o <<")">>

BinaryOps == {"+", "-", ">", "<", ">=", "<=", "==", "!=", "&&", "||", "or",
              "if-branches", "match-arms", "lit-two", "alt-pattern"}
Binary(op, a, b) ==
  CASE op = "if-branches" -> <<"if", "true", "{", ":">> \o a \o <<"}", "else", "{", ":">> \o b \o <<"}">>
    [] op = "match-arms" -> <<"match", "1", "{", "1", "=>">> \o a \o <<"_", "=>">> \o b \o <<"}">>
    [] op = "lit-two" -> <<"S", "{", "a", ":">> \o a \o <<",", "b", ":">> \o b \o <<"}">>
    [] op = "alt-pattern" -> <<"match", "x", "{">> \o a \o <<"|">> \o b \o <<"=>", "1", "_", "=>", "2", "}">>
    [] OTHER -> <<"(">> \o a \o <<op>> \o b \o <<")">>

(* Parse verdict of one constructor application.  Everything above is derivable from
   `expression` in policy.pest, except:
     "test-fail"    a statement-shaped check, not an expression                     -> err
     "+", "-"       the grammar accepts them but language version 2 rejects the
                    operators (InvalidOperator; add/sub/saturating functions instead) -> err
     "match-empty"  `match x { }`: after an identifier `x { }` is taken as an empty struct
                    literal, so the verdict depends on the operand                  -> any
   and an int literal outside i64 anywhere in the text is a parse error.                      *)
BigInt == "9223372036854775808"
HasBigInt(e) == \E i \in DOMAIN e : e[i] = BigInt
OpVerdict(op) == IF op \in {"test-fail", "+", "-"} THEN "err" ELSE IF op = "match-empty" THEN "any" ELSE "ok"
ExprVerdict(op, e) == IF HasBigInt(e) THEN "err" ELSE OpVerdict(op)

(* the function an expression is embedded in for the compile step *)
ExprHost(e) == Prelude \o <<"function", "h", "(", "x", "int", ",", "s", "struct", "S", ",", "o",
                             "option[", "int", "]", ")", "int", "{", "let", "v", "=">> \o e
                        \o <<"return", "1", "}">>

---------------------------------------------------------------------------------
(* stmt *)
StmtKinds == {"let", "check", "match", "if", "finish", "map", "create", "update", "delete", "emit",
              "return", "recall", "debug_assert", "call", "action-call", "publish"}
Stmt(k) ==
  CASE k = "let" -> <<"let", "v", "=", "1">>
    [] k = "check" -> <<"check", "true", "else", "todo()">>
    [] k = "match" -> <<"match", "1", "{", "1", "=>", "{", "}", "_", "=>", "{", "}", "}">>
    [] k = "if" -> <<"if", "true", "{", "}">>
    [] k = "finish" -> <<"finish", "{", "}">>
    [] k = "map" -> <<"map", "F", "[", "k", ":", "?", "]", "as", "m", "{", "}">>
    [] k = "create" -> <<"create", "F", "[", "k", ":", "1", "]", "=>", "{", "v", ":", "1", "}">>
    [] k = "update" -> <<"update", "F", "[", "k", ":", "1", "]", "=>", "{", "v", ":", "1", "}", "to", "{", "v", ":", "2", "}">>
    [] k = "delete" -> <<"delete", "F", "[", "k", ":", "1", "]">>
    [] k = "emit" -> <<"emit", "Ef", "{", "a", ":", "1", "}">>
    [] k = "return" -> <<"return", "1">>
    [] k = "recall" -> <<"recall", "r", "(", ")">>
    [] k = "debug_assert" -> <<"debug_assert(", "true", ")">>
    [] k = "call" -> <<"ff", "(", "1", ")">>
    [] k = "action-call" -> <<"action", "act", "(", "1", ")">>
    [] k = "publish" -> <<"publish", "C", "{", "a", ":", "1", "}">>

Contexts == {"action", "function", "finishfn", "policy", "policy-finish", "recall", "seal", "open"}
CmdD(seal, open, policy, recall) ==
  <<"command", "D", "{", "fields", "{", "a", "int", "}",
    "seal", "{">> \o seal \o <<"}", "open", "{">> \o open \o <<"}",
    "policy", "{">> \o policy \o <<"}", "recall", "r", "(", ")", "{">> \o recall \o <<"}", "}">>
RT == <<"return", "todo()">>
FIN == <<"finish", "{", "}">>
InContext(c, st) ==
  Prelude \o
  (CASE c = "action" -> <<"action", "t", "(", ")", "{">> \o st \o <<"}">>
     [] c = "function" -> <<"function", "t", "(", ")", "int", "{">> \o st \o <<"return", "1", "}">>
     [] c = "finishfn" -> <<"finish", "function", "t", "(", ")", "{">> \o st \o <<"}">>
     [] c = "policy" -> CmdD(RT, RT, st \o FIN, FIN)
     [] c = "policy-finish" -> CmdD(RT, RT, <<"finish", "{">> \o st \o <<"}">>, FIN)
     [] c = "recall" -> CmdD(RT, RT, FIN, st \o FIN)
     [] c = "seal" -> CmdD(st \o RT, RT, FIN, FIN)
     [] c = "open" -> CmdD(RT, st \o RT, FIN, FIN))

(* compile/lower.rs lower_statements: which statement kind is valid in which context *)
CtxKind(c) == CASE c = "action" -> "Action" [] c \in {"function", "seal", "open"} -> "PureFunction"
                [] c \in {"finishfn", "policy-finish"} -> "Finish" [] c = "policy" -> "CommandPolicy"
                [] c = "recall" -> "CommandRecall"
Allowed(k, c) ==
  LET x == CtxKind(c) IN
  CASE k \in {"let", "check", "match", "if"} -> x # "Finish"
    [] k = "publish" -> x = "Action"
    [] k = "return" -> x \in {"PureFunction", "Action"}
    [] k = "finish" -> x \in {"CommandPolicy", "CommandRecall"}
    [] k \in {"map", "action-call"} -> x = "Action"
    [] k \in {"create", "update", "delete", "emit", "call"} -> x = "Finish"
    [] k = "recall" -> x = "CommandPolicy"
    [] k = "debug_assert" -> TRUE
(* what else the surrounding template makes invalid although the placement is allowed *)
TemplateRejects(k, c) ==
  \/ k = "finish" /\ c \in {"policy", "recall"}      \* a second finish follows: "must be the last statement"
  \/ k = "return" /\ c \in {"action", "seal", "open"}   \* action t() has no result type; seal/open do not return int
StmtCompiles(k, c) == Allowed(k, c) /\ ~TemplateRejects(k, c)

---------------------------------------------------------------------------------
(* defs: Prelude plus one defective (or, for the "ok-" entries, unusual but valid) definition.
   Each entry: <<name, tokens, parse verdict, compile verdict>>.                              *)
Fn(name, body) == <<"function", name, "(", ")", "int", "{">> \o body \o <<"}">>
DefCases == {
  <<"dup-struct", <<"struct", "S", "{", "}">>, "ok", "err">>,
  <<"dup-enum", <<"enum", "E", "{", "X", "}">>, "ok", "err">>,
  <<"dup-fact", <<"fact", "F", "[", "]", "=>", "{", "}">>, "ok", "err">>,
  <<"dup-effect", <<"effect", "Ef", "{", "}">>, "ok", "err">>,
  <<"dup-function", Fn("g", <<"return", "1">>), "ok", "err">>,
  <<"dup-finish-function", <<"finish", "function", "ff", "(", ")", "{", "}">>, "ok", "err">>,
  <<"dup-action", <<"action", "act", "(", ")", "{", "}">>, "ok", "err">>,
  <<"dup-command", CmdD(RT, RT, FIN, FIN) \o CmdD(RT, RT, FIN, FIN), "ok", "err">>,
  <<"dup-global", <<"let", "gg", "=", "1", "let", "gg", "=", "2">>, "ok", "err">>,
  <<"struct-vs-command-name", <<"struct", "C", "{", "}">>, "ok", "err">>,
  <<"struct-vs-fact-name", <<"struct", "F", "{", "}">>, "ok", "err">>,
  <<"function-vs-action-name", Fn("act", <<"return", "1">>), "ok", "ok">>,
  <<"rec-struct-direct", <<"struct", "R", "{", "r", "struct", "R", "}">>, "ok", "err">>,
  <<"rec-struct-option", <<"struct", "R", "{", "r", "option[", "struct", "R", "]", "}">>, "ok", "err">>,
  <<"rec-struct-mutual", <<"struct", "R1", "{", "r", "struct", "R2", "}",
                           "struct", "R2", "{", "r", "struct", "R1", "}">>, "ok", "err">>,
  <<"rec-struct-insertion", <<"struct", "R", "{", "+", "R", "}">>, "ok", "err">>,
  <<"rec-insertion-mutual", <<"struct", "R1", "{", "+", "R2", "}", "struct", "R2", "{", "+", "R1", "}">>, "ok", "err">>,
  <<"insertion-undefined", <<"struct", "R", "{", "+", "Nope", "}">>, "ok", "err">>,
  <<"insertion-dup-field", <<"struct", "R", "{", "a", "int", ",", "+", "T", "}">>, "ok", "err">>,
  <<"dup-field", <<"struct", "R", "{", "a", "int", ",", "a", "bool", "}">>, "ok", "err">>,
  <<"dup-variant", <<"enum", "R", "{", "X", ",", "X", "}">>, "ok", "err">>,
  <<"dup-fact-key", <<"fact", "R", "[", "k", "int", ",", "k", "int", "]", "=>", "{", "}">>, "ok", "err">>,
  <<"fact-key-value-clash", <<"fact", "R", "[", "k", "int", "]", "=>", "{", "k", "int", "}">>, "ok", "err">>,
  <<"fact-key-struct", <<"fact", "R", "[", "k", "struct", "S", "]", "=>", "{", "}">>, "ok", "err">>,
  <<"fact-key-option", <<"fact", "R", "[", "k", "option[", "int", "]", "]", "=>", "{", "}">>, "ok", "err">>,
  <<"undefined-field-type", <<"struct", "R", "{", "r", "struct", "Nope", "}">>, "ok", "err">>,
  <<"undefined-enum-type", <<"struct", "R", "{", "r", "enum", "Nope", "}">>, "ok", "err">>,
  <<"undefined-param-type", <<"function", "q", "(", "p", "struct", "Nope", ")", "int", "{", "return", "1", "}">>, "ok", "err">>,
  <<"undefined-callee", Fn("q", <<"return", "nope", "(", ")">>), "ok", "err">>,
  <<"wrong-arity", Fn("q", <<"return", "g", "(", ")">>), "ok", "err">>,
  <<"wrong-arg-type", Fn("q", <<"return", "g", "(", "true", ")">>), "ok", "err">>,
  <<"no-return", Fn("q", <<"let", "v", "=", "1">>), "ok", "err">>,
  <<"wrong-return-type", Fn("q", <<"return", "true">>), "ok", "err">>,
  <<"self-recursion", Fn("q", <<"return", "q", "(", ")">>), "ok", "ok">>,
  <<"mutual-recursion", Fn("q1", <<"return", "q2", "(", ")">>) \o Fn("q2", <<"return", "q1", "(", ")">>), "ok", "ok">>,
  <<"shadow-param", <<"function", "q", "(", "p", "int", ")", "int", "{", "let", "p", "=", "1", "return", "p", "}">>, "ok", "err">>,
  <<"shadow-global", <<"let", "gg", "=", "1">> \o Fn("q", <<"let", "gg", "=", "2", "return", "gg">>), "ok", "err">>,
  <<"global-self-ref", <<"let", "gg", "=", "gg">>, "ok", "err">>,
  <<"global-forward-ref", <<"let", "g1", "=", "g2", "let", "g2", "=", "1">>, "ok", "err">>,
  <<"global-call", <<"let", "gg", "=", "g", "(", "1", ")">>, "ok", "err">>,
  <<"use-undefined-ffi", <<"use", "nope">>, "ok", "ok">>,
  <<"ffi-call-no-use", Fn("q", <<"return", "nope", "::", "f", "(", ")">>), "ok", "err">>,
  <<"cmd-no-policy", <<"command", "D", "{", "fields", "{", "}", "seal", "{">> \o RT \o <<"}", "open", "{">> \o RT \o <<"}", "}">>, "err", "any">>,
  <<"cmd-no-seal", <<"command", "D", "{", "open", "{">> \o RT \o <<"}", "policy", "{">> \o FIN \o <<"}", "}">>, "err", "any">>,
  <<"cmd-empty", <<"command", "D", "{", "}">>, "err", "any">>,
  <<"cmd-dup-fields", <<"command", "D", "{", "fields", "{", "a", "int", ",", "a", "int", "}", "seal", "{">> \o RT
      \o <<"}", "open", "{">> \o RT \o <<"}", "policy", "{">> \o FIN \o <<"}", "}">>, "ok", "err">>,
  <<"cmd-two-recalls-same-name", CmdD(RT, RT, FIN, FIN) \o <<>>, "ok", "ok">>,
  <<"cmd-attributes", <<"command", "D", "{", "attributes", "{", "p", ":", "1", ",", "p", ":", "2", "}", "fields", "{", "}",
      "seal", "{">> \o RT \o <<"}", "open", "{">> \o RT \o <<"}", "policy", "{">> \o FIN \o <<"}", "}">>, "ok", "err">>,
  <<"cmd-attribute-nonliteral", <<"command", "D", "{", "attributes", "{", "p", ":", "g", "(", "1", ")", "}", "fields", "{", "}",
      "seal", "{">> \o RT \o <<"}", "open", "{">> \o RT \o <<"}", "policy", "{">> \o FIN \o <<"}", "}">>, "ok", "err">>,
  <<"action-result-bad", <<"action", "q", "(", ")", "result[", "int", ",", "int", "]", "{", "}">>, "ok", "err">>,
  <<"action-publish-noncommand", <<"action", "q", "(", ")", "{", "publish", "S", "{", "a", ":", "1", ",", "b", ":", "true", "}", "}">>, "ok", "err">>,
  <<"ephemeral-mix", <<"ephemeral", "action", "q", "(", ")", "{", "publish", "C", "{", "a", ":", "1", "}", "}">>, "ok", "err">>,
  <<"reserved-let-this", Fn("q", <<"let", "this", "=", "1", "return", "1">>), "err", "any">>,
  <<"reserved-struct-int", <<"struct", "int", "{", "}">>, "err", "any">>,
  <<"reserved-fn-match", Fn("match", <<"return", "1">>), "err", "any">>,
  <<"reserved-field-envelope", <<"struct", "R", "{", "envelope", "int", "}">>, "ok", "ok">>,
  <<"optional-old-syntax", <<"struct", "R", "{", "r", "optional", "int", "}">>, "ok", "ok">>,
  <<"nested-option", <<"struct", "R", "{", "r", "option[", "option[", "int", "]", "]", "}">>, "ok", "ok">>,
  <<"result-type-field", <<"struct", "R", "{", "r", "result[", "int", ",", "string", "]", "}">>, "ok", "ok">>,
  <<"effect-dynamic-insertion", <<"effect", "R", "{", "a", "int", "dynamic", ",", "+", "T", "}">>, "ok", "err">>,
  <<"immutable-fact-update", <<"immutable", "fact", "R", "[", "k", "int", "]", "=>", "{", "v", "int", "}",
      "finish", "function", "q", "(", ")", "{", "update", "R", "[", "k", ":", "1", "]", "to", "{", "v", ":", "2", "}", "}">>, "ok", "err">>,
  <<"int-overflow-literal", <<"let", "gg", "=", "9223372036854775808">>, "err", "any">>,
  <<"int-min-literal", <<"let", "gg", "=", "-9223372036854775808">>, "ok", "ok">>,
  <<"string-bad-escape", <<"let", "gg", "=", "\"\\q\"">>, "err", "any">>,
  <<"string-hex-nul", <<"let", "gg", "=", "\"\\x00\"">>, "err", "any">>,
  <<"string-hex-highbit", <<"let", "gg", "=", "\"\\xff\"">>, "err", "any">>,
  <<"enum-empty", <<"enum", "R", "{", "}">>, "err", "any">> }

---------------------------------------------------------------------------------
(* arity: every kind of callable applied to fewer, exactly as many, and more arguments than it
   has parameters, and once to an argument of the wrong type; literals (struct, effect,
   command, fact key/value lists) with missing, surplus and repeated fields.  The compiler
   looks parameters up per argument in several places (functions, finish functions, actions,
   recall blocks in statement and expression position, builtins); none of them may index
   past the declaration.  Verdict: compiles iff the count and the type match.                *)
RECURSIVE CommaSep(_)
CommaSep(items) == IF Len(items) = 0 THEN <<>>
                   ELSE IF Len(items) = 1 THEN items[1]
                   ELSE items[1] \o <<",">> \o CommaSep(Tail(items))
ArgList(n, tok) == CommaSep([i \in 1..n |-> <<tok>>])
CmdR(policy) ==
  <<"command", "R", "{", "fields", "{", "a", "int", "}", "seal", "{">> \o RT \o <<"}", "open", "{">> \o RT
  \o <<"}", "policy", "{">> \o policy \o <<"}",
     "recall", "rr", "(", "a", "int", ")", "{", "finish", "{", "}", "}",
     "recall", "r0", "(", ")", "{", "finish", "{", "}", "}", "}">>
ArityKinds == {"function", "builtin", "finishfn", "action", "recall-stmt", "recall-expr", "recall0-stmt", "recall0-expr"}
Params(k) == IF k = "builtin" THEN 2 ELSE IF k \in {"recall0-stmt", "recall0-expr"} THEN 0 ELSE 1
CallSite(k, args) ==
  CASE k = "function" -> Fn("t", <<"return", "g", "(">> \o args \o <<")">>)
    [] k = "builtin" -> Fn("t", <<"return", "saturating_add", "(">> \o args \o <<")">>)
    [] k = "finishfn" -> <<"finish", "function", "t", "(", ")", "{", "ff", "(">> \o args \o <<")", "}">>
    [] k = "action" -> <<"action", "t", "(", ")", "{", "action", "act", "(">> \o args \o <<")", "}">>
    [] k = "recall-stmt" -> CmdR(<<"recall", "rr", "(">> \o args \o <<")">>)
    [] k = "recall-expr" -> CmdR(<<"check", "this", ".", "a", ">", "0", "else", "recall", "rr", "(">> \o args \o <<")">> \o FIN)
    [] k = "recall0-stmt" -> CmdR(<<"recall", "r0", "(">> \o args \o <<")">>)
    [] k = "recall0-expr" -> CmdR(<<"check", "this", ".", "a", ">", "0", "else", "recall", "r0", "(">> \o args \o <<")">> \o FIN)
ArityCells == {<<k, n, "1">> : k \in ArityKinds, n \in 0..3}
              \cup {<<k, Params(k), "true">> : k \in {x \in ArityKinds : Params(x) > 0}}
ArityCompiles(c) == c[2] = Params(c[1]) /\ (c[3] = "1" \/ c[2] = 0)
(* Deviation of the code: a recall call is checked argument by argument against the block's
   parameters (zip), the *number* of arguments is never compared — `recall rr()` and
   `recall rr(1, 1)` compile against `recall rr(a int)`.  No verdict is predicted for a recall
   call with the wrong count (reported to the integrator; it is not a C27 matter).           *)
ArityVerdict(c) == IF c[1] \in {"recall-stmt", "recall-expr", "recall0-stmt", "recall0-expr"} /\ c[2] # Params(c[1])
                   THEN "any" ELSE IF ArityCompiles(c) THEN "ok" ELSE "err"

FieldList(fs) == CommaSep([i \in DOMAIN fs |-> <<fs[i][1], ":", fs[i][2]>>])
FieldSets == [
  none   |-> <<>>,
  a      |-> << <<"a", "1">> >>,
  ab     |-> << <<"a", "1">>, <<"b", "true">> >>,
  abc    |-> << <<"a", "1">>, <<"b", "true">>, <<"c", "1">> >>,
  aab    |-> << <<"a", "1">>, <<"a", "2">>, <<"b", "true">> >>,
  ba     |-> << <<"b", "true">>, <<"a", "1">> >>,
  atyped |-> << <<"a", "true">>, <<"b", "true">> >> ]
LiteralKinds == {"struct", "effect", "command"}
LiteralSite(k, fs) ==
  CASE k = "struct" -> <<"function", "t", "(", ")", "struct", "S", "{", "return", "S", "{">> \o FieldList(fs) \o <<"}", "}">>
    [] k = "effect" -> <<"finish", "function", "t", "(", ")", "{", "emit", "Ef", "{">> \o FieldList(fs) \o <<"}", "}">>
    [] k = "command" -> <<"action", "t", "(", ")", "{", "publish", "C", "{">> \o FieldList(fs) \o <<"}", "}">>
(* S has fields a int, b bool; Ef and C have the single field a int *)
LiteralCompiles(k, f) == IF k = "struct" THEN f \in {"ab", "ba"} ELSE f = "a"
FactCases == {
  <<"create-ok", <<"create", "F", "[", "k", ":", "1", "]", "=>", "{", "v", ":", "1", "}">>, "ok">>,
  <<"create-nokey", <<"create", "F", "[", "]", "=>", "{", "v", ":", "1", "}">>, "err">>,
  <<"create-novalue", <<"create", "F", "[", "k", ":", "1", "]", "=>", "{", "}">>, "err">>,
  <<"create-novalues", <<"create", "F", "[", "k", ":", "1", "]">>, "err">>,
  <<"create-extrakey", <<"create", "F", "[", "k", ":", "1", ",", "k2", ":", "2", "]", "=>", "{", "v", ":", "1", "}">>, "err">>,
  <<"create-extravalue", <<"create", "F", "[", "k", ":", "1", "]", "=>", "{", "v", ":", "1", ",", "w", ":", "2", "}">>, "err">>,
  <<"create-dupkey", <<"create", "F", "[", "k", ":", "1", ",", "k", ":", "2", "]", "=>", "{", "v", ":", "1", "}">>, "err">>,
  <<"create-bind", <<"create", "F", "[", "k", ":", "?", "]", "=>", "{", "v", ":", "1", "}">>, "err">>,
  <<"delete-extrakey", <<"delete", "F", "[", "k", ":", "1", ",", "k2", ":", "2", "]">>, "err">>,
  <<"delete-nokey", <<"delete", "F", "[", "]">>, "any">>,
  <<"update-extra", <<"update", "F", "[", "k", ":", "1", "]", "to", "{", "v", ":", "2", ",", "w", ":", "3", "}">>, "err">>,
  <<"update-empty", <<"update", "F", "[", "k", ":", "1", "]", "to", "{", "}">>, "err">> }
FactSite(st) == <<"finish", "function", "t", "(", ")", "{">> \o st \o <<"}">>

---------------------------------------------------------------------------------
(* card: `match` exhaustiveness needs the number of inhabitants of the scrutinee type; for
   structs that is a product over the fields and reaches 2^64 quickly (8 structs of 8 bools,
   64 bools, 16 enums of 16 variants).  Types just below, at and above 2^64, bare and under
   option / result, matched with and without default arms, as statement and as expression. *)
NumFields(prefix, n, ty) == CommaSep([i \in 1..n |-> <<prefix \o ToString(i)>> \o ty])
CardTypes == {"flags63", "flags64", "flags65", "big7", "big8", "big9", "enum15", "enum16", "enum17"}
CardDefs(t) ==
  CASE t \in {"flags63", "flags64", "flags65"} ->
         <<"struct", "Big", "{">> \o NumFields("b", IF t = "flags63" THEN 63 ELSE IF t = "flags64" THEN 64 ELSE 65, <<"bool">>) \o <<"}">>
    [] t \in {"big7", "big8", "big9"} ->
         <<"struct", "Flags8", "{">> \o NumFields("b", 8, <<"bool">>) \o <<"}", "struct", "Big", "{">>
         \o NumFields("p", IF t = "big7" THEN 7 ELSE IF t = "big8" THEN 8 ELSE 9, <<"struct", "Flags8">>) \o <<"}">>
    [] OTHER ->
         <<"enum", "E16", "{">> \o CommaSep([i \in 1..16 |-> <<"V" \o ToString(i)>>]) \o <<"}", "struct", "Big", "{">>
         \o NumFields("e", IF t = "enum15" THEN 15 ELSE IF t = "enum16" THEN 16 ELSE 17, <<"enum", "E16">>) \o <<"}">>
Wrappers == {"bare", "option", "result-ok", "result-err"}
WrapType(w) == CASE w = "bare" -> <<"struct", "Big">>
                 [] w = "option" -> <<"option[", "struct", "Big", "]">>
                 [] w = "result-ok" -> <<"result[", "struct", "Big", ",", "int", "]">>
                 [] OTHER -> <<"result[", "int", ",", "struct", "Big", "]">>
MatchForms == {"default-only", "no-arms", "literal-default", "literal-only", "binding", "expr-literal-default", "expr-literal-only"}
R1 == <<"{", "return", "1", "}">>
Literal(w) == CASE w = "option" -> <<"None">> [] w = "result-ok" -> <<"Err", "(", "1", ")">>
                [] w = "result-err" -> <<"Ok", "(", "1", ")">> [] OTHER -> <<"x">>
Binding(w) == CASE w = "option" -> <<"Some", "(", "y", ")">> [] w = "result-ok" -> <<"Ok", "(", "y", ")">>
                [] w = "result-err" -> <<"Err", "(", "y", ")">> [] OTHER -> <<"_">>
MatchBody(f, w) ==
  CASE f = "default-only" -> <<"match", "x", "{", "_", "=>">> \o R1 \o <<"}">>
    [] f = "no-arms" -> <<"match", "(", "x", ")", "{", "}">>
    [] f = "literal-default" -> <<"match", "x", "{">> \o Literal(w) \o <<"=>">> \o R1 \o <<"_", "=>">> \o R1 \o <<"}">>
    [] f = "literal-only" -> <<"match", "x", "{">> \o Literal(w) \o <<"=>">> \o R1 \o <<"}">>
    [] f = "binding" -> <<"match", "x", "{">> \o Literal(w) \o <<"=>">> \o R1 \o Binding(w) \o <<"=>">> \o R1 \o <<"}">>
    [] f = "expr-literal-default" -> <<"let", "v", "=", "match", "x", "{">> \o Literal(w) \o <<"=>", "0", "_", "=>", "1", "}">>
    [] OTHER -> <<"let", "v", "=", "match", "x", "{">> \o Literal(w) \o <<"=>", "0", "}">>
CardProgram(t, w, f) ==
  CardDefs(t) \o <<"function", "t", "(", "x">> \o WrapType(w) \o <<")", "int", "{">> \o MatchBody(f, w) \o <<"return", "2", "}">>

---------------------------------------------------------------------------------
(* mut / repo: token-level mutation classes *)
Delims == <<"{", "}", "(", ")", "[", "]", "\"", "/*", "*/", "//", "```", ":", "=>", ",", "?", "option[", "::">>
Repls  == <<"this", "0", "finish", "struct", "xx", "-", "|">>
MutClasses == {<<"del", 0>>, <<"dup", 0>>, <<"swap", 0>>}
              \cup {<<"ins", i>> : i \in DOMAIN Delims} \cup {<<"rep", i>> : i \in DOMAIN Repls}
Apply(ts, mc, p) ==
  CASE mc[1] = "del" -> SubSeq(ts, 1, p - 1) \o SubSeq(ts, p + 1, Len(ts))
    [] mc[1] = "dup" -> SubSeq(ts, 1, p) \o SubSeq(ts, p, Len(ts))
    [] mc[1] = "swap" -> (IF p < Len(ts) THEN SubSeq(ts, 1, p - 1) \o <<ts[p + 1], ts[p]>> \o SubSeq(ts, p + 2, Len(ts))
                          ELSE ts)
    [] mc[1] = "ins" -> SubSeq(ts, 1, p - 1) \o <<Delims[mc[2]]>> \o SubSeq(ts, p, Len(ts))
    [] mc[1] = "rep" -> [ts EXCEPT ![p] = Repls[mc[2]]]

Base2 == Cat(<<
  <<"function", "w", "(", "p", "int", ",", "q", "option[", "struct", "S", "]", ")", "bool", "{">>,
  <<"let", "a", "=", "if", "p", ">", "0", "{", ":", "p", "}", "else", "{", ":", "0", "}">>,
  <<"let", "b", "=", "match", "p", "{", "1", "|", "2", "=>", "q", "is", "None", "_", "=>", "false", "}">>,
  <<"let", "c", "=", "exists", "F", "[", "k", ":", "a", "]", "=>", "{", "v", ":", "?", "}">>,
  <<"check", "b", "||", "(", "c", "==", "(", "a", "==", "1", ")", ")", "else", "return", "false">>,
  <<"return", "at_least", "1", "F", "[", "k", ":", "saturating_add", "(", "a", ",", "1", ")", "]">>,
  <<"}">> >>)
Bases == <<Prelude, Prelude \o Base2>>

(* token counts of the repository's policy documents (written by the driver) *)
RepoLens == JsonDeserialize(IOEnv.VERIF_C27_DOCS)
Seed == IF "VERIF_C27_SEED" \in DOMAIN IOEnv THEN atoi(IOEnv.VERIF_C27_SEED) ELSE 0

---------------------------------------------------------------------------------
(* doc: Markdown documents as sequences of lines.  Multi-byte characters are written as
   placeholders the driver substitutes: @e@ = U+00E9, @chk@ = U+2713, @cjk@ = U+65E5 U+672C U+8A9E. *)
FrontMatters == [
  ok        |-> <<"---", "policy-version: 2", "---">>,
  extra     |-> <<"---", "policy-version: 2", "title: x", "---">>,
  quoted    |-> <<"---", "policy-version: \"2\"", "---">>,
  v1        |-> <<"---", "policy-version: 1", "---">>,
  v3        |-> <<"---", "policy-version: 3", "---">>,
  nokey     |-> <<"---", "title: x", "---">>,
  badyaml   |-> <<"---", "policy-version: [2", "---">>,
  listyaml  |-> <<"---", "- 2", "---">>,
  dupkey    |-> <<"---", "policy-version: 2", "policy-version: 2", "---">>,
  empty     |-> <<"---", "---">>,
  unclosed  |-> <<"---", "policy-version: 2">>,
  missing   |-> <<>>,
  notfirst  |-> <<"text", "", "---", "policy-version: 2", "---">> ]
FmOk == {"ok", "extra", "quoted"}

(* <<opening line, prefix of every code line, closing lines, recognised as policy code>> *)
Fences == [
  bt3      |-> <<"```policy", "", <<"```">>, TRUE>>,
  bt4      |-> <<"````policy", "", <<"````">>, TRUE>>,
  bt5      |-> <<"`````policy", "", <<"`````">>, TRUE>>,
  tilde    |-> <<"~~~policy", "", <<"~~~">>, TRUE>>,
  space    |-> <<"``` policy", "", <<"```">>, TRUE>>,
  info     |-> <<"```policy extra words", "", <<"```">>, TRUE>>,
  indent3  |-> <<"   ```policy", "   ", <<"   ```">>, TRUE>>,
  open     |-> <<"```policy", "", <<>>, TRUE>>,
  twice    |-> <<"```policy", "", <<"```", "", "```policy", "```">>, TRUE>>,
  upper    |-> <<"```Policy", "", <<"```">>, FALSE>>,
  attrs    |-> <<"```policy,ignore", "", <<"```">>, FALSE>>,
  other    |-> <<"```rust", "", <<"```">>, FALSE>>,
  indent4  |-> <<"    ```policy", "    ", <<"    ```">>, FALSE>>,
  quote    |-> <<"> ```policy", "> ", <<"> ```">>, FALSE>>,
  list     |-> <<"- ```policy", "  ", <<"  ```">>, FALSE>> ]

Befores == [none |-> <<>>, ascii |-> <<"# Title", "", "text">>, wide |-> <<"# T@e@t@e@lo @chk@", "", "@cjk@ text">>]

(* <<lines, parses, compiles>> *)
Bodies == [
  ok        |-> << <<"function f() int {", "    return 1", "}">>, TRUE, TRUE >>,
  empty     |-> << <<>>, TRUE, TRUE >>,
  syntax    |-> << <<"function f( {">>, FALSE, FALSE >>,
  latesyntax |-> << <<"function f() int {", "    return 1", "}", "fact F[ =>">>, FALSE, FALSE >>,
  compile   |-> << <<"function f() int {", "    return nope", "}">>, TRUE, FALSE >>,
  widecomment |-> << <<"// @chk@ @cjk@", "function f() int {", "    return nope", "}">>, TRUE, FALSE >>,
  widesyntax |-> << <<"// @chk@ @cjk@", "function f() int { return @e@ }">>, FALSE, FALSE >>,
  widestring |-> << <<"function f() bool {", "    return \"@cjk@\" == nope", "}">>, TRUE, FALSE >> ]

DocLines(fm, fe, be, bo) ==
  LET f == Fences[fe]
      body == Bodies[bo][1]
  IN FrontMatters[fm] \o <<"">> \o Befores[be] \o (IF Befores[be] = <<>> THEN <<>> ELSE <<"">>)
     \o <<f[1]>> \o [i \in DOMAIN body |-> f[2] \o body[i]] \o f[3] \o <<"", "trailing text">>
DocParses(fm, fe, bo) ==
  IF fm \notin FmOk THEN "err"
  ELSE IF ~Fences[fe][4] THEN "err"          \* "No policy code found"
  ELSE IF fe = "open" THEN "err"             \* the unclosed fence swallows the trailing text
  ELSE IF Bodies[bo][2] THEN "ok" ELSE "err"
DocCompiles(bo) == IF Bodies[bo][3] THEN "ok" ELSE "err"

---------------------------------------------------------------------------------
(* nest *)
NestKinds == {"paren", "some", "not", "block", "if-stmt", "match-stmt", "option-type", "struct-lit",
              "call", "dot", "binary-chain", "comment-open", "else-if-chain"}
NestDepths == {64, 512, 4096}

---------------------------------------------------------------------------------
TokCell(tokens, entry, p, c) == [t |-> tokens, entry |-> entry, parse |-> p, compile |-> c]

InitExpr == /\ fam = "expr" /\ depth = 0
            /\ \E a \in Atoms : cell = [e |-> a, op |-> "atom", parse |-> ExprVerdict("atom", a)]
InitStmt == /\ fam = "stmt" /\ depth = 0
            /\ \E k \in StmtKinds, c \in Contexts :
                 cell = [k |-> k, ctx |-> c] @@ TokCell(InContext(c, Stmt(k)), "str", "ok",
                                                       IF StmtCompiles(k, c) THEN "ok" ELSE "err")
InitDefs == /\ fam = "defs" /\ depth = 0
            /\ \E d \in DefCases : cell = [name |-> d[1]] @@ TokCell(Prelude \o d[2], "str", d[3], d[4])
InitMut  == /\ fam = "mut" /\ depth = 0
            /\ \E b \in DOMAIN Bases : cell = [base |-> b, cls |-> "none", pos |-> 0]
                                              @@ TokCell(Bases[b], "str", "ok", "ok")
InitRepo == /\ fam = "repo" /\ depth = 0
            /\ \E d \in DOMAIN RepoLens : cell = [doc |-> d, cls |-> "none", arg |-> "", pos |-> 0]
InitDoc  == /\ fam = "doc" /\ depth = 0
            /\ \E fm \in DOMAIN FrontMatters, fe \in DOMAIN Fences, be \in DocBefores,
                  bo \in DOMAIN Bodies, eol \in DocEols :
                 cell = [fm |-> fm, fence |-> fe, before |-> be, body |-> bo, eol |-> eol,
                         lines |-> DocLines(fm, fe, be, bo), entry |-> "doc",
                         parse |-> DocParses(fm, fe, bo),
                         compile |-> IF DocParses(fm, fe, bo) = "ok" THEN DocCompiles(bo) ELSE "any"]
InitNest == /\ fam = "nest" /\ depth = 0
            /\ \E k \in NestKinds, d \in NestDepths : cell = [kind |-> k, depth |-> d]

InitArity ==
  /\ fam = "arity" /\ depth = 0
  /\ \/ \E c \in ArityCells :
          cell = [kind |-> c[1], n |-> c[2], arg |-> c[3]]
                 @@ TokCell(Prelude \o CallSite(c[1], ArgList(c[2], c[3])), "str", "ok", ArityVerdict(c))
     \/ \E k \in LiteralKinds, f \in DOMAIN FieldSets :
          cell = [kind |-> k \o "-literal", fields |-> f]
                 @@ TokCell(Prelude \o LiteralSite(k, FieldSets[f]), "str", "ok",
                            IF LiteralCompiles(k, f) THEN "ok" ELSE "err")
     \/ \E fc \in FactCases :
          cell = [kind |-> "fact", name |-> fc[1]] @@ TokCell(Prelude \o FactSite(fc[2]), "str", "ok", fc[3])
InitCard ==
  /\ fam = "card" /\ depth = 0
  /\ \E t \in CardTypes, w \in Wrappers, f \in MatchForms :
       cell = [ty |-> t, wrap |-> w, form |-> f] @@ TokCell(CardProgram(t, w, f), "str", "ok", "any")

Init == \/ "expr" \in Families /\ InitExpr
        \/ "arity" \in Families /\ InitArity
        \/ "card" \in Families /\ InitCard
        \/ "stmt" \in Families /\ InitStmt
        \/ "defs" \in Families /\ InitDefs
        \/ "mut" \in Families /\ InitMut
        \/ "repo" \in Families /\ InitRepo
        \/ "doc" \in Families /\ InitDoc
        \/ "nest" \in Families /\ InitNest

(* expr: apply one more constructor (the other operand of a binary one is an atom) *)
Grow ==
  /\ fam = "expr" /\ depth <= GrowDepth /\ cell.parse = "ok"
  /\ \/ \E op \in UnaryOps : cell' = [e |-> Unary(op, cell.e), op |-> op, parse |-> ExprVerdict(op, cell.e)]
     \/ \E op \in BinaryOps, a \in Atoms, left \in BOOLEAN :
          LET e2 == IF left THEN Binary(op, cell.e, a) ELSE Binary(op, a, cell.e)
          IN cell' = [e |-> e2, op |-> op, parse |-> ExprVerdict(op, e2)]
  /\ depth' = depth + 1
  /\ UNCHANGED fam

(* mut: one token-level mutation of a base program at every position *)
Mutate ==
  /\ fam = "mut" /\ depth = 0
  /\ \E mc \in MutClasses, p \in {q \in 1..Len(cell.t) : q % MutStride = Seed % MutStride} :
       cell' = [base |-> cell.base, cls |-> mc[1],
                arg |-> IF mc[1] = "ins" THEN Delims[mc[2]] ELSE IF mc[1] = "rep" THEN Repls[mc[2]] ELSE "",
                pos |-> p] @@ TokCell(Apply(cell.t, mc, p), "str", "any", "any")
  /\ depth' = 1
  /\ UNCHANGED fam

(* repo: the same classes at every Stride-th token of a repository document *)
MutateRepo ==
  /\ fam = "repo" /\ depth = 0
  /\ \E mc \in MutClasses, p \in {q \in 1..RepoLens[cell.doc] : q % Stride = Seed % Stride} :
       cell' = [doc |-> cell.doc, cls |-> mc[1],
                arg |-> IF mc[1] = "ins" THEN Delims[mc[2]] ELSE IF mc[1] = "rep" THEN Repls[mc[2]] ELSE "",
                pos |-> p]
  /\ depth' = 1
  /\ UNCHANGED fam

Next == Grow \/ Mutate \/ MutateRepo
Spec == Init /\ [][Next]_vars

---------------------------------------------------------------------------------
(* The property at model level: the verdict of every cell is "returns" — the table has no
   cell whose expected outcome is a panic — and the generators are well formed.             *)
Verdicts == {"ok", "err", "any"}
WellFormed ==
  /\ fam \in Families
  /\ fam \in {"stmt", "defs", "mut", "doc", "arity", "card"} => cell.parse \in Verdicts /\ cell.compile \in Verdicts
  /\ fam = "expr" => cell.parse \in Verdicts /\ Len(cell.e) > 0
  /\ fam \in {"stmt", "defs", "mut"} => Len(cell.t) > 0
PlacementTotal == \A k \in StmtKinds, c \in Contexts : StmtCompiles(k, c) \in BOOLEAN

Emit == PrintT("REPLAY " \o ToJson([fam |-> fam, d |-> depth, c |-> cell]))

ASSUME PrintT("PRINT TABLES " \o ToJson([prelude |-> Prelude,
         host |-> [pre |-> SubSeq(ExprHost(<<"@">>), Len(Prelude) + 1, Len(Prelude) + 20),
                   post |-> <<"return", "1", "}">>]]))
=================================================================================
