\* C18(b): enumerate every mutation cell of the wire grammar (TABLE; exploration)
SPECIFICATION Spec
INVARIANTS GrammarOK Emit
CHECK_DEADLOCK FALSE
