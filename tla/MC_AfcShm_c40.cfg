\* C40 quick: one reader (setup + 3 seals, each may fail) against writer calls on other channels.
SPECIFICATION Spec
CONSTANTS
  Readers = {1}
  Cap = 2
  WScripts <- ScriptsC40
  ROps = 4
  Mutant = "none"
INVARIANTS TypeOK SeqsOk RemovalEffective NoLostChannel NoResurrection SidesEqualWhenIdle TableIsModel NoDuplicates WithinCap ReaderSeesProduced OutOfSpaceIffFull IdsNeverReused InSync
CHECK_DEADLOCK FALSE
