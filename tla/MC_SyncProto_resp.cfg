\* C18(a) responder: all call sequences <= 5 (every request kind x first/foreign session, poll with
\* big / small / tiny buffer), two responses per session
SPECIFICATION Spec
CONSTANTS
  Side = "resp"
  MaxDepth = 5
  Resp = 2
VIEW View
INVARIANTS TypeOK RespCounts InOrder ReadyConsistent UnsupportedClosed Emit
PROPERTIES MismatchInert
CHECK_DEADLOCK FALSE
