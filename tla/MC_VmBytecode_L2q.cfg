\* C25 quick: every 2-instruction prefix tree from the empty stack
SPECIFICATION Spec
CONSTANTS
  Lens = {2}
  MaxInit = 0
  Budget = 6
  CellSet <- AllCells
  InitSet <- AllInits
INVARIANTS OutcomeDefined StackBounded TypeOK Emit
CHECK_DEADLOCK FALSE
