SPECIFICATION Spec
CONSTANTS
  HdrLen = 1
  SlotA = 0
  SlotB = 4
  FreeStart = 8
  Chunk = 6
  BodySizes = {2}
  RootSizes = {2}
  ScrubLen = 4
  MaxCommits = 3
  MaxAppends = 2
  MaxCrashes = 1
  MaxCloses = 0
  PostCommits = 1
  Mutant = "dirtyappend"
INVARIANTS TypeOK Recoverable CleanReopen DurableRootsSound NothingNewerVisible WithinAlloc FailOnlyBeforeFirstCommit
CHECK_DEADLOCK FALSE
