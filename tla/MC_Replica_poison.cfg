\* C06: poison commands at every position of small transactions, exhaustive
SPECIFICATION Spec
CONSTANTS
  MergeTag = 2
  Reps = {1, 2}
  Authors = {1}
  Receivers = {2}
  Txns = {1}
  MaxCmds = 3
  MaxSteps = 6
  Kinds = {"b0"}
  Ops = {"n"}
  MaxBatch = 2
  AllowDup = FALSE
  AllowOrphan = FALSE
  AllowPoison = TRUE
  AllowFail = FALSE
  AllowNoop = FALSE
  BootAll = TRUE
  MaxRank = 3
  AllRanks = FALSE
  AllowMulti = FALSE
  AllowBadMerge = FALSE
  AllowBad = FALSE
  PubWeight = 1
  CommitWeight = 1
  SyncWeight = 1
  ActWeight1 = 1
  ActWeight = 1
INVARIANTS Frontier Convergence LazyMergeEquiv NoParallelFinalizeCommitted HelloSound Emit
PROPERTIES AppendOnly
CONSTRAINT NotDone
CHECK_DEADLOCK FALSE
