\* enumeration only: every DAG shape <= 5 commands with every pair of committed sets (thorough I2S input)
SPECIFICATION Spec
CONSTANTS
  MaxNodes = 5
  SampleMax = 1
  RespMax = 2
  SegMax = 2
  CacheMax = 2
  Impl = FALSE
  OneShot = FALSE
  MaxSessions = 0
  AssumeProgress = TRUE
  Exempt = FALSE
INVARIANTS TypeOK EmitPairs

CHECK_DEADLOCK FALSE
