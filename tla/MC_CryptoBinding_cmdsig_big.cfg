SPECIFICATION Spec
CONSTANTS
  Schemes = {"cmdsig"}
  MaxTamper = 2
  HashModel = "tuple"
  PLens = {0}
  DataLens = {1, 4096, 4097, 70000}
INVARIANTS AcceptIffUnchanged IdAgreement NoBothEnds OnlyRightful Emit
CHECK_DEADLOCK FALSE
