\* Schedule graph 1 (transition cover, replayed on the real shm state): one reader with 4 calls, all quick scripts.
SPECIFICATION Spec
CONSTANTS
  Readers = {1}
  Cap = 2
  WScripts <- ScriptsG1
  ROps = 4
  Mutant = "none"
INVARIANTS TypeOK SeqsOk RemovalEffective NoLostChannel NoResurrection SidesEqualWhenIdle TableIsModel NoDuplicates WithinCap ReaderSeesProduced OutOfSpaceIffFull IdsNeverReused InSync
CHECK_DEADLOCK FALSE
