\* C43 design level, quick tier: 3 threads x 2 rounds, safety + liveness (no spurious wake-ups,
\* no state constraint).
SPECIFICATION Spec
CONSTANTS
  Threads = {1, 2, 3}
  Rounds = 2
  MoreRounds = {}
  PassiveSpin = 1
  Spurious = FALSE
  WakeOn = 2
INVARIANTS TypeOK MutualExclusion HeldImpliesLocked NoUnlockBug SleeperCovered
PROPERTIES NoLostWakeup AllDone
