\* C43 safety with spurious futex wake-ups.
SPECIFICATION Spec
CONSTANTS
  Threads = {1, 2, 3}
  Rounds = 2
  MoreRounds = {}
  PassiveSpin = 1
  Spurious = TRUE
  WakeOn = 2
INVARIANTS TypeOK MutualExclusion HeldImpliesLocked NoUnlockBug SleeperCovered
