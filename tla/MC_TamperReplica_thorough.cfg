SPECIFICATION Spec
CONSTANTS
  NCmds = 3
  MaxTamper = 2
  MaxForged = 2
INVARIANTS AuthenticOnly RejectLeavesNoTrace HonestAccepted Prefix Emit
CHECK_DEADLOCK FALSE
