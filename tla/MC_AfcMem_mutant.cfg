\* Self-test: remove_all that also resets next_chan_id (the next add reuses id 0) must be rejected (C41).
SPECIFICATION Spec
CONSTANTS
  Readers = {1}
  WScripts <- ScriptsClearAdd
  Mutant = "clear_resets_ids"
  ROps = 2
INVARIANTS NoResurrection
CHECK_DEADLOCK FALSE
