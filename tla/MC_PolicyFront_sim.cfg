\* C27: deeper expressions by seeded simulation (constructors nested up to 4 levels)
SPECIFICATION Spec
CONSTANTS
  Families = {"expr"}
  GrowDepth = 3
  Stride = 1
  MutStride = 1
  DocEols = {"lf"}
  DocBefores = {"none"}
INVARIANTS WellFormed Emit
CHECK_DEADLOCK FALSE
