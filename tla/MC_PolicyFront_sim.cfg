\* C27: deeper expressions by seeded simulation (constructors nested up to 4 levels)
SPECIFICATION Spec
CONSTANTS
  Families = {"expr"}
  GrowDepth = 3
  Stride = 1
INVARIANTS WellFormed Emit
CHECK_DEADLOCK FALSE
