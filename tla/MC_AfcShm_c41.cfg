\* C41 quick: 7 writer scripts of 3 calls (every removal form), capacity 2, two readers with 2 calls each.
SPECIFICATION Spec
CONSTANTS
  Readers = {1, 2}
  Cap = 2
  WScripts <- ScriptsQuick
  ROps = 2
  Mutant = "none"
INVARIANTS TypeOK SeqsOk RemovalEffective NoLostChannel NoResurrection SidesEqualWhenIdle TableIsModel NoDuplicates WithinCap ReaderSeesProduced OutOfSpaceIffFull IdsNeverReused InSync
CHECK_DEADLOCK FALSE
