------------------------------- MODULE MC_AfcMem -------------------------------
EXTENDS AfcMem
Add == <<"add">>
Rm(i) == <<"rm", i>>
RmIf(S) == <<"rmif", S>>
Clear == <<"clear">>
Scripts == { <<Add, Add, Rm(0)>>, <<Add, Rm(0), Add>>, <<Add, Add, Clear>>, <<Add, RmIf({0}), Add>>, <<Add, Add, RmIf({1})>>,
             <<Add, Clear, Add>>, <<Add, Add, Clear, Add>> }   \* remove_all, then add: the old ids must stay dead
ScriptsG == Scripts \ { <<Add, Add, Clear, Add>> }
ScriptsClearAdd == { <<Add, Clear, Add>> }
=============================================================================
