\* Self-test: re-deriving the key at sequence number 0 on a cache miss must be rejected (C40).
SPECIFICATION Spec
CONSTANTS
  Readers = {1}
  Cap = 2
  WScripts <- ScriptsSeq
  ROps = 3
  Mutant = "seq_zero"
INVARIANTS SeqsOk
CHECK_DEADLOCK FALSE
