SPECIFICATION Spec
CONSTANTS
  MaxInline = 22
  Lens = {0, 1, 2, 3, 7, 8, 9, 15, 16, 21, 22, 23, 24, 63, 64, 65, 255, 256, 1024, 4096}
  StaticLens = {0, 1, 3, 21, 22, 23}
  SkipValidate = {}
  OrdByForm = FALSE
  HeapLenFirst = FALSE
INVARIANTS ExistsIffValid CompareByContent Emit
CHECK_DEADLOCK FALSE
