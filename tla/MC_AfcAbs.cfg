\* The call-level machine by itself with a free environment (ids 0..2, capacity 2, one reader).
SPECIFICATION Spec
CONSTANTS
  Readers = {1}
  Cap = 2
  SingleCtx = FALSE
  MaxId = 2
  Check = {"C40", "C41", "C42"}
INVARIANTS TypeOK NoReuse WithinCap
CHECK_DEADLOCK FALSE
