SPECIFICATION Spec
CONSTANTS
  MaxLen = 64
  BigLens = {1000, 4096}
  MaxMsgs = 1
  MaxJunk = 96
  SmallSeal = FALSE
INVARIANTS AcceptOnlyAuthentic AuthenticAccepted ReturnsWhatWasSealed Total0 SeqDense Emit
CHECK_DEADLOCK FALSE
