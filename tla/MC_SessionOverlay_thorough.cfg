\* C14 thorough tier: <= 2 committed actions, two sessions, programs of
\* <= 1 update + optional check over two fact keys; every interleaving of actions and receives
\* within the bounds; invariants in every state, C14 on every transition, one S2I behaviour per
\* transition.
SPECIFICATION Spec
CONSTANTS
  Names = {"x"}
  Keys <- MCKeys
  PartOrd <- MCPartOrd
  MaxSessions = 2
  Programs <- MCPrograms
  Record = TRUE
  Fat = FALSE
  MaxCommits = 2
  MaxLog = 2
  MaxOut = 2
  MaxUps = 1
  ActorsOnly1 = FALSE
  SimDepth = 0
ACTION_CONSTRAINT EmitBounded
VIEW View
INVARIANTS OverlayRefines PrefixMergeOK CurIsFold
PROPERTIES C14
CHECK_DEADLOCK FALSE
