\* simulation: 3 replicas, 2 transactions each, all kinds/ops, batches, duplicates, orphans,
\* poison commands and failing actions; behaviours of 14 recorded steps
SPECIFICATION Spec
CONSTANTS
  MergeTag = 2
  Reps = {1, 2, 3}
  Authors = {1, 2, 3}
  Receivers = {1, 2, 3}
  Txns = {1, 2}
  MaxCmds = 8
  MaxSteps = 16
  Kinds = {"b0", "b1", "fin"}
  Ops = {"n", "s", "d", "x", "q"}
  MaxBatch = 2
  AllowDup = TRUE
  AllowOrphan = TRUE
  AllowPoison = TRUE
  AllowFail = TRUE
  AllowNoop = FALSE
  BootAll = TRUE
  MaxRank = 12
  AllRanks = FALSE
  AllowMulti = TRUE
  AllowBadMerge = TRUE
  AllowBad = FALSE
  PubWeight = 3
  CommitWeight = 5
  SyncWeight = 3
  ActWeight1 = 3
  ActWeight = 60
INVARIANTS Frontier Convergence LazyMergeEquiv NoParallelFinalizeCommitted HelloSound Emit
CONSTRAINT NotDone
CHECK_DEADLOCK FALSE
