\* C16/C17 implementation shaped (requester sampling, find_needed_segments, limits, peer cache):
\* every step is a property-level step; Progress outside the two exempted classes; convergence
SPECIFICATION Spec
CONSTANTS
  MaxNodes = 5
  SampleMax = 2
  RespMax = 2
  SegMax = 2
  CacheMax = 2
  Impl = TRUE
  OneShot = FALSE
  MaxSessions = 8
  AssumeProgress = FALSE
  Exempt = TRUE
INVARIANTS TypeOK AClosed GotSound NoRepeat SampleOK CacheOK IndexOK Terminates Progress ImplConverged
PROPERTIES StepSound Monotone
CHECK_DEADLOCK FALSE
