SPECIFICATION Spec
CONSTANTS
  MaxLen = 0
  BigLens = {17}
  MaxMsgs = 2
  MaxJunk = 0
  SmallSeal = TRUE
INVARIANTS AcceptOnlyAuthentic AuthenticAccepted ReturnsWhatWasSealed Total0 SeqDense Emit
CHECK_DEADLOCK FALSE
