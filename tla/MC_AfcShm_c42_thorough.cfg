\* C42 thorough: all scripts (3-5 calls), two readers with 2 calls each.
SPECIFICATION Spec
CONSTANTS
  Readers = {1, 2}
  Cap = 2
  WScripts <- ScriptsAll
  ROps = 2
  Mutant = "none"
INVARIANTS TypeOK SeqsOk RemovalEffective NoLostChannel NoResurrection SidesEqualWhenIdle TableIsModel NoDuplicates WithinCap ReaderSeesProduced OutOfSpaceIffFull IdsNeverReused InSync
CHECK_DEADLOCK FALSE
