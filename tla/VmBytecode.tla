------------------------------- MODULE VmBytecode -------------------------------
(* C25 — "The VM never panics on any bytecode".

   An executable, implementation-shaped reference model of
   `aranya_policy_vm::RunState::step` (crates/aranya-policy-vm/src/machine.rs) over a small
   but complete world:

     struct S {a int, b bool}   struct T {a int}    (struct U is NOT defined)
     fact   F[k int] => {v int}                     (fact G is NOT defined)
     enum   E {A = 0, B = 1}     global g = 7
     command context names: action "act", seal/open/policy/recall "S"

   The machine state is one record `m` (value stack, call stack, scopes, pc, context,
   query cursors, observable I/O log, status).  `Exec(m, cell)` is a *total* function from
   (state, instruction cell) to the next state: every `Instruction` variant of
   aranya-policy-module, each with its operand classes (`CellTable`), has exactly one
   defined outcome — continue, policy exit, or one `MachineErrorType` — in every state.
   No arm yields "panic": that, together with TLC evaluating `Exec` in every reachable
   state without ever falling out of a CASE, is the design-level statement of C25
   (invariant `OutcomeDefined`).  The model mirrors the order of pops and checks of the
   Rust code, so the stack left behind by a failing instruction is predicted as well.

   Case dimensions enumerated by TLC (TABLE pattern, DESIGN §2.1):
     * the initial stack: every sequence of length 0..MaxInit over `InitTable`
       (one or more representatives of every `Value` kind),
     * the program: length L \in Lens, every address that execution reaches is filled with
       every cell of `CellTable` (lazily — a program whose first instruction fails is not
       extended, so the state graph is the tree of feasible prefixes),
     * the command context and the I/O result class, chosen lazily at the first
       instruction that consults them (`need:ctx`, `need:io`),
   and each maximal behaviour is printed as one REPLAY line carrying the complete expected
   final state.  `vh-vmtable bytecode` builds a real `Machine` from it, runs `step()` the same
   number of times against a stub `MachineIO` and compares.

   Integers: i64::MAX is modelled by MaxI = 1000 and i64::MIN by MinI = -1001 (so that
   MIN = -MAX - 1); every value within 500 of a boundary denotes boundary +/- offset, which
   keeps checked/saturating arithmetic exact for the short programs explored.
   usize::MAX (jump targets, MStruct counts) is modelled by Big.                              *)
EXTENDS Integers, Sequences, FiniteSets, TLC, Json

CONSTANTS Lens,      \* set of program lengths
          MaxInit,   \* initial stacks of depth 0..MaxInit
          Budget,    \* steps executed before a run is cut off ("budget")
          CellSet,   \* subset of DOMAIN CellTable used by this configuration
          InitSet    \* subset of DOMAIN InitTable used for initial stacks

VARIABLES m,         \* machine state record
          prog,      \* prog[i] = cell index at address i-1, 0 = not yet chosen
          len,       \* program length L
          init,      \* initial stack (indices into InitTable)
          ctx0,      \* initial command context ("unset" until consulted)
          io,        \* I/O result class ("unset" until consulted)
          n          \* steps executed

vars == <<m, prog, len, init, ctx0, io, n>>

MaxI == 1000
MinI == -1001
Big  == 1000000

---------------------------------------------------------------------------------
(* Values: tuples whose first element is the kind tag. *)
VInt(i)   == <<"int", i>>
VBool(b)  == <<"bool", b>>
VNone     == <<"opt">>
VSome(v)  == <<"opt", v>>
VOk(v)    == <<"res", TRUE, v>>
VErr(v)   == <<"res", FALSE, v>>
VStruct(name, f) == <<"struct", name, f>>
VFact(name, ks, vs) == <<"fact", name, ks, vs>>
VIdent(s) == <<"ident", s>>
VBytes(t) == <<"bytes", t>>      \* "good" = serialization of SFull, "junk", "other"

SFullFields == [a |-> VInt(1), b |-> VBool(TRUE)]
SFull == VStruct("S", SFullFields)
NoFields == <<>>

(* Values a `Const` instruction can carry (ConstValue). *)
ConstTable == <<
  <<"unit">>, VInt(0), VInt(1), VInt(MaxI), VInt(MinI), VBool(TRUE), VBool(FALSE),
  <<"str", "a">>, SFull, VStruct("S", NoFields), <<"enum", "E", 1>>,
  VNone, VSome(VInt(1)), VOk(VInt(1)), VErr(<<"str", "a">>) >>

(* Representatives for initial stacks: every Value kind. *)
InitTable == ConstTable \o <<
  VBytes("good"), VBytes("junk"), <<"id", 1>>,
  VFact("F", << <<"k", VInt(1)>> >>, << <<"v", VInt(2)>> >>),
  VFact("F", <<>>, <<>>),
  VIdent("a"), VIdent("b"),
  VStruct("U", NoFields), VStruct("T", [a |-> VInt(1)]) >>

(* Instruction cells: variant x operand class.  Targets: "t0" = Resolved(0), "next" =
   Resolved(pc+1), "skip" = Resolved(pc+2), "end" = Resolved(L), "max" = Resolved(usize::MAX),
   "unres" = Unresolved.                                                                     *)
Targets == <<"t0", "next", "skip", "end", "max", "unres">>
CellTable ==
  [i \in 1..Len(ConstTable) |-> <<"Const", ConstTable[i]>>] \o
  << <<"Identifier", "a">>, <<"Identifier", "b">>, <<"Identifier", "zz">>,
     <<"Def", "x">>, <<"Def", "g">>, <<"Get", "x">>, <<"Get", "g">>,
     <<"Dup">>, <<"Pop">>, <<"Block">>, <<"End">> >> \o
  [i \in 1..Len(Targets) |-> <<"Jump", Targets[i]>>] \o
  [i \in 1..Len(Targets) |-> <<"Branch", Targets[i]>>] \o
  [i \in 1..Len(Targets) |-> <<"Call", Targets[i]>>] \o
  [i \in 1..Len(Targets) |-> <<"Recall", Targets[i]>>] \o
  << <<"ExtCall", 0, 0>>, <<"ExtCall", 0, 1>>, <<"ExtCall", 0, 2>>, <<"ExtCall", 9, 0>>,
     <<"Return">>,
     <<"Exit", "normal">>, <<"Exit", "yield">>, <<"Exit", "check">>, <<"Exit", "panic">>,
     <<"Add">>, <<"Sub">>, <<"SaturatingAdd">>, <<"SaturatingSub">>,
     <<"Not">>, <<"Gt">>, <<"Lt">>, <<"Eq">>,
     <<"FactNew", "F">>, <<"FactNew", "G">>,
     <<"FactKeySet", "k">>, <<"FactKeySet", "zz">>,
     <<"FactValueSet", "v">>, <<"FactValueSet", "zz">>,
     <<"StructNew", "S">>, <<"StructNew", "U">>,
     <<"StructSet", "a">>, <<"StructSet", "zz">>,
     <<"StructGet", "a">>, <<"StructGet", "zz">>,
     <<"MStructSet", 1>>, <<"MStructSet", 2>>, <<"MStructSet", Big>>,
     <<"MStructGet", 1>>, <<"MStructGet", 2>>, <<"MStructGet", Big>>,
     <<"Cast", "T">>, <<"Cast", "U">>,
     <<"Wrap", "ok">>, <<"Wrap", "err">>, <<"Wrap", "some">>,
     <<"Is", "ok">>, <<"Is", "err">>, <<"Is", "some">>,
     <<"Unwrap", "ok">>, <<"Unwrap", "err">>, <<"Unwrap", "some">>,
     <<"Publish">>, <<"Create">>, <<"Delete">>, <<"Update">>, <<"Emit">>, <<"Query">>,
     <<"FactCount", MinI>>, <<"FactCount", 0>>, <<"FactCount", 1>>, <<"FactCount", 2>>,
     <<"QueryStart">>, <<"QueryNext", "x">>,
     <<"Serialize">>, <<"Deserialize">>, <<"SaveSP">>, <<"RestoreSP">>,
     <<"Meta", "finish">>, <<"Meta", "ffi">>,
     <<"Next">>, <<"Last">> >>

AllCells == DOMAIN CellTable
AllInits == DOMAIN InitTable

(* one cell per instruction variant (two for Const/Wrap/Unwrap), chosen so that execution tends
   to continue: the alphabet of the exhaustive 4-instruction configuration                  *)
CoreDescr == {
  <<"Const", VInt(1)>>, <<"Const", VBool(TRUE)>>, <<"Const", SFull>>, <<"Identifier", "a">>,
  <<"Def", "x">>, <<"Get", "x">>, <<"Dup">>, <<"Pop">>, <<"Block">>, <<"End">>,
  <<"Jump", "next">>, <<"Branch", "next">>, <<"Call", "next">>, <<"Recall", "next">>,
  <<"ExtCall", 0, 0>>, <<"Return">>, <<"Exit", "check">>,
  <<"Add">>, <<"Sub">>, <<"SaturatingAdd">>, <<"SaturatingSub">>, <<"Not">>, <<"Gt">>, <<"Lt">>, <<"Eq">>,
  <<"FactNew", "F">>, <<"FactKeySet", "k">>, <<"FactValueSet", "v">>,
  <<"StructNew", "S">>, <<"StructSet", "a">>, <<"StructGet", "a">>, <<"MStructSet", 1>>, <<"MStructGet", 1>>,
  <<"Cast", "T">>, <<"Wrap", "some">>, <<"Wrap", "ok">>, <<"Is", "some">>, <<"Unwrap", "some">>, <<"Unwrap", "ok">>,
  <<"Publish">>, <<"Create">>, <<"Delete">>, <<"Update">>, <<"Emit">>, <<"Query">>, <<"FactCount", 1>>,
  <<"QueryStart">>, <<"QueryNext", "x">>, <<"Serialize">>, <<"Deserialize">>, <<"SaveSP">>, <<"RestoreSP">>,
  <<"Meta", "finish">>, <<"Next">>, <<"Last">> }
CoreCells == {i \in AllCells : CellTable[i] \in CoreDescr}

(* The control alphabet: everything that touches the call-state stack (shared by SaveSP's saved
   stack depths and Call's return addresses), the scope stack (function scopes pushed by Call,
   popped by Return — also by a Return that consumes a SaveSP entry, which pops the *root*
   function scope —, blocks pushed/popped by Block/End) and the names defined in it, with
   forward, skipping and backward jumps.  Explored exhaustively to 4 instructions from value
   stacks of depth 0..2 (only the depth matters here: SaveSP/Return turn it into an address). *)
CtrlDescr == {
  <<"SaveSP">>, <<"RestoreSP">>, <<"Return">>, <<"Block">>, <<"End">>, <<"Def", "x">>, <<"Get", "x">>,
  <<"Call", "t0">>, <<"Call", "next">>, <<"Call", "skip">>,
  <<"Jump", "t0">>, <<"Jump", "next">>, <<"Jump", "skip">>,
  <<"Const", VInt(1)>>, <<"Dup">>, <<"Pop">>, <<"QueryNext", "x">> }
CtrlCells == {i \in AllCells : CellTable[i] \in CtrlDescr}
CtrlInits == {i \in AllInits : InitTable[i] = VInt(1)}

Contexts == {"action", "seal", "open", "policy", "recall"}
IoClasses == {"ok", "empty", "error", "itemerr"}

(* Every status a run may end in: policy exits and MachineErrorType kinds.  There is no
   "panic" (a Rust panic / abort of the host) in this set — that is C25.                    *)
ErrKinds == {"StackUnderflow", "StackOverflow", "AlreadyDefined", "NotDefined", "InvalidType",
             "InvalidStructMember", "InvalidFact", "InvalidSchema", "UnresolvedTarget",
             "InvalidAddress", "BadState", "InvalidInstruction", "CallStack", "IO",
             "FfiModuleNotDefined", "Serialize", "Deserialize", "Unknown"}
Outcomes == {"run", "budget", "exit:normal", "exit:check", "exit:panic"}
            \cup {"err:" \o k : k \in ErrKinds}

---------------------------------------------------------------------------------
(* The world's schemas. *)
StructDefined(name) == name \in {"S", "T"}
FieldKinds(name) == IF name = "S" THEN [a |-> "int", b |-> "bool"] ELSE [a |-> "int"]
FactDefined(name) == name = "F"
FactKeyKinds == [k |-> "int"]
FactValKinds == [v |-> "int"]
IsGlobal(name) == name = "g"
GlobalVal == VInt(7)
Fits(v, kind) == v[1] = kind          \* only primitive field types in this world

Top(s) == s[Len(s)]
PopS(s) == SubSeq(s, 1, Len(s) - 1)
Clamp(r) == IF r > MaxI THEN MaxI ELSE IF r < MinI THEN MinI ELSE r

Fail(mm, kind, s) == [mm EXCEPT !.st = "err:" \o kind, !.stack = s]
Cont(mm, s) == [mm EXCEPT !.stack = s, !.pc = mm.pc + 1]
Log(mm, e) == [mm EXCEPT !.log = Append(mm.log, e)]

(* Stack::pop_value / Stack::pop::<T>: underflow leaves the stack alone, a conversion
   failure has already consumed the value.                                                 *)
PopV(mm, s) ==
  IF Len(s) = 0 THEN [ok |-> FALSE, m |-> Fail(mm, "StackUnderflow", s)]
  ELSE [ok |-> TRUE, v |-> Top(s), s |-> PopS(s)]
PopK(mm, s, kinds) ==
  IF Len(s) = 0 THEN [ok |-> FALSE, m |-> Fail(mm, "StackUnderflow", s)]
  ELSE IF Top(s)[1] \in kinds THEN [ok |-> TRUE, v |-> Top(s), s |-> PopS(s)]
  ELSE [ok |-> FALSE, m |-> Fail(mm, "InvalidType", PopS(s))]
(* Stack::peek::<T> *)
PeekK(mm, s, kinds) ==
  IF Len(s) = 0 THEN [ok |-> FALSE, m |-> Fail(mm, "StackUnderflow", s)]
  ELSE IF Top(s)[1] \in kinds THEN [ok |-> TRUE, v |-> Top(s)]
  ELSE [ok |-> FALSE, m |-> Fail(mm, "InvalidType", s)]
SetTop(s, v) == [s EXCEPT ![Len(s)] = v]

HashableKinds == {"int", "bool", "str", "id", "enum"}

(* pairs: sequences of <<name, value>> (FactKeyList / FactValueList / scope blocks) *)
HasName(ps, name) == \E i \in DOMAIN ps : ps[i][1] = name
ValOf(ps, name) == ps[CHOOSE i \in DOMAIN ps : ps[i][1] = name][2]
SetPair(ps, name, v) ==
  IF HasName(ps, name) THEN [i \in DOMAIN ps |-> IF ps[i][1] = name THEN <<name, v>> ELSE ps[i]]
  ELSE Append(ps, <<name, v>>)
IsPrefix(p, s) == Len(p) <= Len(s) /\ \A i \in DOMAIN p : p[i] = s[i]

(* struct field maps are TLA+ functions name -> value (BTreeMap: order-free) *)
WithField(f, name, v) == (name :> v) @@ f
WithoutField(f, name) == [x \in (DOMAIN f) \ {name} |-> f[x]]
FieldsOfPairs(ks, vs) ==
  LET all == ks \o vs
      names == {all[i][1] : i \in DOMAIN all}
  IN [x \in names |-> all[CHOOSE i \in DOMAIN all :
                            all[i][1] = x /\ \A j \in DOMAIN all : all[j][1] = x => j <= i][2]]

(* RunState::validate_struct_schema *)
StructValid(sv) ==
  /\ StructDefined(sv[2])
  /\ LET fk == FieldKinds(sv[2]) IN
       /\ DOMAIN sv[3] \subseteq DOMAIN fk
       /\ \A x \in DOMAIN fk : x \in DOMAIN sv[3] /\ Fits(sv[3][x], fk[x])

(* RunState::validate_fact_literal + validate_fact_schema *)
FactValid(fv) ==
  /\ FactDefined(fv[2])
  /\ \A i \in DOMAIN fv[3] : fv[3][i][1] \in DOMAIN FactKeyKinds
                             /\ Fits(fv[3][i][2], FactKeyKinds[fv[3][i][1]])
  /\ \A i \in DOMAIN fv[4] : fv[4][i][1] \in DOMAIN FactValKinds
                             /\ Fits(fv[4][i][2], FactValKinds[fv[4][i][1]])

(* what the stub MachineIO's query iterator yields for each I/O class *)
StoredKeys == << <<"k", VInt(1)>> >>
StoredVals == << <<"v", VInt(2)>> >>
IterItems(cls) == IF cls = "ok" THEN <<"ok">> ELSE IF cls = "itemerr" THEN <<"err">> ELSE <<>>
(* machine.rs fact_match *)
FactMatch(q) ==
  /\ IsPrefix(q[3], StoredKeys)
  /\ \A i \in DOMAIN q[4] : HasName(StoredVals, q[4][i][1])
                            /\ ValOf(StoredVals, q[4][i][1]) = q[4][i][2]
StoredStruct(name) == VStruct(name, FieldsOfPairs(StoredKeys, StoredVals))

(* serialize.rs: can this value be serialized at all (schema lookups of nested structs,
   no Identifier/Fact inside)?                                                              *)
RECURSIVE Serializable(_)
Serializable(v) ==
  CASE v[1] \in {"ident", "fact"} -> FALSE
    [] v[1] = "opt" -> (Len(v) = 1 \/ Serializable(v[2]))
    [] v[1] = "res" -> Serializable(v[3])
    [] v[1] = "struct" -> /\ StructDefined(v[2])
                          /\ Cardinality(DOMAIN v[3]) = Cardinality(DOMAIN FieldKinds(v[2]))
                          /\ \A x \in DOMAIN FieldKinds(v[2]) :
                               x \in DOMAIN v[3] /\ Serializable(v[3][x])
    [] OTHER -> TRUE

---------------------------------------------------------------------------------
(* scope.rs ScopeManager: m.scope is a sequence of function scopes, each a sequence of
   blocks, each a sequence of <<name, value>> pairs.                                        *)
ScopeSet(mm, s, name, v) ==      \* returns the next machine (error or updated scope)
  IF IsGlobal(name) THEN [ok |-> FALSE, m |-> Fail(mm, "AlreadyDefined", s)]
  ELSE IF Len(mm.scope) = 0 THEN [ok |-> FALSE, m |-> Fail(mm, "BadState", s)]
  ELSE LET fs == Top(mm.scope) IN
    IF \E i \in DOMAIN fs : HasName(fs[i], name) THEN [ok |-> FALSE, m |-> Fail(mm, "AlreadyDefined", s)]
    ELSE IF Len(fs) = 0 THEN [ok |-> FALSE, m |-> Fail(mm, "BadState", s)]
    ELSE [ok |-> TRUE,
          scope |-> SetTop(mm.scope, SetTop(fs, Append(Top(fs), <<name, v>>)))]

ScopeGet(mm, name) ==            \* <<found, value>>
  IF Len(mm.scope) > 0 /\ \E i \in DOMAIN Top(mm.scope) : HasName(Top(mm.scope)[i], name)
  THEN LET fs == Top(mm.scope)
           i == CHOOSE j \in DOMAIN fs : HasName(fs[j], name)
       IN <<TRUE, ValOf(fs[i], name)>>
  ELSE IF IsGlobal(name) THEN <<TRUE, GlobalVal>>
  ELSE <<FALSE, VNone>>

EnterFunction(sc) == Append(sc, << <<>> >>)

(* branch targets *)
Resolve(mm, t, L) == CASE t = "t0" -> 0 [] t = "next" -> mm.pc + 1 [] t = "skip" -> mm.pc + 2 [] t = "end" -> L
                       [] t = "max" -> Big [] OTHER -> -1

---------------------------------------------------------------------------------
(* MStructSet / MStructGet pop loops *)
RECURSIVE MSetPops(_, _, _, _)
MSetPops(mm, s, k, acc) ==
  IF k = 0 THEN [ok |-> TRUE, s |-> s, acc |-> acc]
  ELSE LET p1 == PopV(mm, s) IN
    IF ~p1.ok THEN p1
    ELSE LET p2 == PopK(mm, p1.s, {"ident"}) IN
      IF ~p2.ok THEN p2
      ELSE MSetPops(mm, p2.s, k - 1, Append(acc, <<p2.v[2], p1.v>>))

RECURSIVE MSetApply(_, _, _, _, _)
MSetApply(mm, s, tgt, pairs, i) ==
  IF i > Len(pairs) THEN Cont(mm, Append(s, tgt))
  ELSE LET nm == pairs[i][1]  v == pairs[i][2]  fk == FieldKinds(tgt[2]) IN
    IF nm \notin DOMAIN fk THEN Fail(mm, "InvalidStructMember", s)
    ELSE IF ~Fits(v, fk[nm]) THEN Fail(mm, "InvalidStructMember", s)
    ELSE MSetApply(mm, s, VStruct(tgt[2], WithField(tgt[3], nm, v)), pairs, i + 1)

RECURSIVE MGetPops(_, _, _, _)
MGetPops(mm, s, k, acc) ==
  IF k = 0 THEN [ok |-> TRUE, s |-> s, acc |-> acc]
  ELSE LET p == PopK(mm, s, {"ident"}) IN
    IF ~p.ok THEN p ELSE MGetPops(mm, p.s, k - 1, Append(acc, p.v[2]))

RECURSIVE MGetApply(_, _, _, _, _)
MGetApply(mm, s, f, names, i) ==
  IF i > Len(names) THEN Cont(mm, s)
  ELSE IF names[i] \notin DOMAIN f THEN Fail(mm, "InvalidStructMember", s)
  ELSE MGetApply(mm, Append(Append(s, VIdent(names[i])), f[names[i]]),
                 WithoutField(f, names[i]), names, i + 1)

---------------------------------------------------------------------------------
(* One call of RunState::step for instruction cell `c` in machine state mm.
   cx = command context or "unset", cls = I/O class or "unset"; L = program length.
   Returns the next machine record; st = "need:ctx" / "need:io" asks for the lazy choice.   *)
NeedCtx(mm) == [mm EXCEPT !.st = "need:ctx"]
NeedIo(mm)  == [mm EXCEPT !.st = "need:io"]

DoArith(mm, op) ==
  LET p1 == PopK(mm, mm.stack, {"int"}) IN IF ~p1.ok THEN p1.m ELSE
  LET p2 == PopK(mm, p1.s, {"int"}) IN IF ~p2.ok THEN p2.m ELSE
  LET a == p2.v[2]  b == p1.v[2]
      r == IF op \in {"Add", "SaturatingAdd"} THEN a + b ELSE a - b
      v == IF op \in {"Add", "Sub"}
           THEN (IF r > MaxI \/ r < MinI THEN VNone ELSE VSome(VInt(r)))
           ELSE VInt(Clamp(r))
  IN Cont(mm, Append(p2.s, v))

DoCompare(mm, op) ==
  LET p1 == PopV(mm, mm.stack) IN IF ~p1.ok THEN p1.m ELSE
  LET p2 == PopV(mm, p1.s) IN IF ~p2.ok THEN p2.m ELSE
  LET a == p2.v  b == p1.v IN
    IF op = "Eq" THEN Cont(mm, Append(p2.s, VBool(a = b)))
    ELSE IF a[1] = "int" /\ b[1] = "int"
         THEN Cont(mm, Append(p2.s, VBool(IF op = "Gt" THEN a[2] > b[2] ELSE a[2] < b[2])))
         ELSE Fail(mm, "InvalidType", p2.s)

DoTarget(mm, op, t, L) ==
  CASE op = "Jump" ->
         IF t = "unres" THEN Fail(mm, "UnresolvedTarget", mm.stack)
         ELSE [mm EXCEPT !.pc = Resolve(mm, t, L)]
    [] op = "Branch" ->
         LET p == PopK(mm, mm.stack, {"bool"}) IN IF ~p.ok THEN p.m
         ELSE IF p.v[2]
              THEN (IF t = "unres" THEN Fail(mm, "UnresolvedTarget", p.s)
                    ELSE [mm EXCEPT !.stack = p.s, !.pc = Resolve(mm, t, L)])
              ELSE Cont(mm, p.s)
    [] op = "Call" ->
         IF t = "unres" THEN Fail(mm, "UnresolvedTarget", mm.stack)
         ELSE [mm EXCEPT !.scope = EnterFunction(mm.scope), !.calls = Append(mm.calls, mm.pc),
                         !.pc = Resolve(mm, t, L)]
    [] op = "Recall" ->
         IF t = "unres" THEN Fail(mm, "UnresolvedTarget", mm.stack)
         ELSE IF mm.ctx = "unset" THEN NeedCtx(mm)
         ELSE IF mm.ctx # "policy" THEN Fail(mm, "BadState", mm.stack)
         ELSE [mm EXCEPT !.ctx = "recall", !.scope = EnterFunction(mm.scope),
                         !.calls = Append(mm.calls, mm.pc), !.pc = Resolve(mm, t, L)]

DoReturn(mm) ==
  IF Len(mm.calls) = 0 THEN [mm EXCEPT !.st = "exit:normal"]
  ELSE LET ret == Top(mm.calls)
           m1 == [mm EXCEPT !.calls = PopS(mm.calls), !.pc = ret]
       IN IF Len(mm.scope) = 0 THEN Fail(m1, "BadState", mm.stack)
          ELSE [m1 EXCEPT !.scope = PopS(mm.scope), !.pc = ret + 1]

DoRestoreSP(mm) ==
  IF Len(mm.calls) = 0 THEN Fail(mm, "BadState", mm.stack)
  ELSE LET sp == Top(mm.calls)
           m1 == [mm EXCEPT !.calls = PopS(mm.calls)]
           s == mm.stack
       IN IF Len(s) < sp + 1 THEN Fail(m1, "BadState", s)
          ELSE IF Len(s) = sp + 1 THEN Cont(m1, s)
          ELSE Cont(m1, Append(SubSeq(s, 1, sp), Top(s)))

DoExtCall(mm, module, proc) ==
  IF module # 0 THEN Fail(Log(mm, "call"), "FfiModuleNotDefined", mm.stack)
  ELSE LET m1 == Log(mm, "call") IN
    CASE proc = 0 -> Cont(m1, Append(mm.stack, VInt(5)))
      [] proc = 1 -> IF Len(mm.stack) = 0 THEN Fail(m1, "StackUnderflow", mm.stack)
                     ELSE Cont(m1, PopS(mm.stack))
      [] OTHER    -> Fail(m1, "Unknown", mm.stack)

DoFactSet(mm, op, name) ==
  LET p1 == IF op = "FactKeySet" THEN PopK(mm, mm.stack, HashableKinds) ELSE PopV(mm, mm.stack)
  IN IF ~p1.ok THEN p1.m ELSE
  LET p2 == PeekK(mm, p1.s, {"fact"}) IN IF ~p2.ok THEN [p2.m EXCEPT !.stack = p1.s] ELSE
  LET f == p2.v
      f2 == IF op = "FactKeySet" THEN VFact(f[2], SetPair(f[3], name, p1.v), f[4])
            ELSE VFact(f[2], f[3], SetPair(f[4], name, p1.v))
  IN Cont(mm, SetTop(p1.s, f2))

DoStructSet(mm, name) ==
  LET p1 == PopV(mm, mm.stack) IN IF ~p1.ok THEN p1.m ELSE
  LET p2 == PopK(mm, p1.s, {"struct"}) IN IF ~p2.ok THEN p2.m ELSE
  LET sv == p2.v IN
    IF ~StructDefined(sv[2]) THEN Fail(mm, "InvalidSchema", p2.s)
    ELSE IF name \notin DOMAIN FieldKinds(sv[2]) THEN Fail(mm, "InvalidStructMember", p2.s)
    ELSE Cont(mm, Append(p2.s, VStruct(sv[2], WithField(sv[3], name, p1.v))))

DoStructGet(mm, name) ==
  LET p == PopK(mm, mm.stack, {"struct"}) IN IF ~p.ok THEN p.m
  ELSE IF name \notin DOMAIN p.v[3] THEN Fail(mm, "InvalidStructMember", p.s)
  ELSE Cont(mm, Append(p.s, p.v[3][name]))

DoMStructSet(mm, cnt) ==
  LET k == IF cnt = Big THEN Len(mm.stack) + 1 ELSE cnt
      ps == MSetPops(mm, mm.stack, k, <<>>)
  IN IF ~ps.ok THEN ps.m ELSE
  LET pt == PopK(mm, ps.s, {"struct"}) IN IF ~pt.ok THEN pt.m
  ELSE IF ~StructDefined(pt.v[2]) THEN Fail(mm, "InvalidSchema", pt.s)
  ELSE MSetApply(mm, pt.s, pt.v, ps.acc, 1)

DoMStructGet(mm, cnt) ==
  LET k == IF cnt = Big THEN Len(mm.stack) + 1 ELSE cnt
      ps == MGetPops(mm, mm.stack, k, <<>>)
  IN IF ~ps.ok THEN ps.m ELSE
  LET pt == PopK(mm, ps.s, {"struct"}) IN IF ~pt.ok THEN pt.m
  ELSE MGetApply(mm, pt.s, pt.v[3], ps.acc, 1)

DoCast(mm, name) ==
  LET p == PopV(mm, mm.stack) IN IF ~p.ok THEN p.m
  ELSE IF p.v[1] # "struct" THEN Fail(mm, "InvalidType", p.s)
  ELSE IF ~StructDefined(name) THEN Fail(mm, "NotDefined", p.s)
  ELSE LET fk == FieldKinds(name)  f == p.v[3] IN
    IF \E x \in DOMAIN fk : x \notin DOMAIN f \/ ~Fits(f[x], fk[x]) THEN Fail(mm, "Unknown", p.s)
    ELSE Cont(mm, Append(p.s, VStruct(name, f)))

DoWrap(mm, op, w) ==
  LET p == PopV(mm, mm.stack) IN IF ~p.ok THEN p.m ELSE
  LET v == p.v
      isW == CASE w = "some" -> (v[1] = "opt" /\ Len(v) = 2)
               [] w = "ok"   -> (v[1] = "res" /\ v[2])
               [] OTHER      -> (v[1] = "res" /\ ~v[2])
  IN CASE op = "Wrap" -> Cont(mm, Append(p.s, CASE w = "some" -> VSome(v) [] w = "ok" -> VOk(v)
                                                   [] OTHER -> VErr(v)))
       [] op = "Is" -> Cont(mm, Append(p.s, VBool(isW)))
       [] OTHER -> IF isW THEN Cont(mm, Append(p.s, IF w = "some" THEN v[2] ELSE v[3]))
                   ELSE Fail(mm, "InvalidType", p.s)

IoFail(mm, s) == Fail(mm, "IO", s)

DoCreateDelete(mm, op, cls) ==
  LET p == PopK(mm, mm.stack, {"fact"}) IN IF ~p.ok THEN p.m
  ELSE IF cls = "unset" THEN NeedIo(mm)
  ELSE LET m1 == Log(mm, IF op = "Create" THEN "insert" ELSE "delete") IN
    IF cls = "error" THEN IoFail(m1, p.s) ELSE Cont(m1, p.s)

DoUpdate(mm, cls) ==
  LET p1 == PopK(mm, mm.stack, {"fact"}) IN IF ~p1.ok THEN p1.m ELSE
  LET p2 == PopK(mm, p1.s, {"fact"}) IN IF ~p2.ok THEN p2.m
  ELSE IF cls = "unset" THEN NeedIo(mm)
  ELSE LET from == p2.v
           m1 == Log(mm, "query") IN
    IF cls = "error" THEN IoFail(m1, p2.s)
    ELSE IF cls = "empty" THEN Fail(m1, "InvalidFact", p2.s)
    ELSE IF cls = "itemerr" THEN IoFail(m1, p2.s)
    ELSE IF \E i \in DOMAIN from[4] : ~(HasName(StoredVals, from[4][i][1])
                                          /\ ValOf(StoredVals, from[4][i][1]) = from[4][i][2])
         THEN Fail(m1, "InvalidFact", p2.s)   \* every given from-value must equal the stored one
    ELSE Cont(Log(Log(m1, "delete"), "insert"), p2.s)

DoEmit(mm) ==
  LET p == PopK(mm, mm.stack, {"struct"}) IN IF ~p.ok THEN p.m
  ELSE IF ~StructValid(p.v) THEN Fail(mm, "InvalidSchema", p.s)
  ELSE IF mm.ctx = "unset" THEN NeedCtx(mm)
  ELSE IF mm.ctx \notin {"policy", "recall"} THEN Fail(mm, "BadState", p.s)
  ELSE Cont(Log(mm, IF mm.ctx = "recall" THEN "effect-recalled" ELSE "effect"), p.s)

DoPublish(mm) ==
  LET p == PopK(mm, mm.stack, {"struct"}) IN IF ~p.ok THEN p.m
  ELSE IF ~StructValid(p.v) THEN Fail(mm, "InvalidSchema", p.s)
  ELSE Log(Cont(mm, mm.stack), "yield")      \* ExitReason::Yield; the run is resumed

DoQueryish(mm, op, limit, cls) ==      \* Query, FactCount(limit), QueryStart
  LET p == PopK(mm, mm.stack, {"fact"}) IN IF ~p.ok THEN p.m
  ELSE IF ~FactValid(p.v) THEN Fail(mm, "InvalidSchema", p.s)
  ELSE IF cls = "unset" THEN NeedIo(mm)
  ELSE LET m1 == Log(mm, "query")  items == IterItems(cls)  q == p.v IN
    IF cls = "error" THEN IoFail(m1, p.s)
    ELSE CASE op = "QueryStart" -> Cont([m1 EXCEPT !.qit = Append(m1.qit, items)], p.s)
           [] op = "Query" ->
                IF items = <<"err">> THEN IoFail(m1, p.s)
                ELSE IF items = <<"ok">> /\ FactMatch(q)
                     THEN Cont(m1, Append(p.s, VSome(StoredStruct(q[2]))))
                     ELSE Cont(m1, Append(p.s, VNone))
           [] OTHER ->    \* FactCount
                IF limit <= 0 \/ items = <<>> THEN Cont(m1, Append(p.s, VInt(0)))
                ELSE IF items = <<"err">> THEN IoFail(m1, p.s)
                ELSE Cont(m1, Append(p.s, VInt(IF FactMatch(q) THEN 1 ELSE 0)))

DoQueryNext(mm, name) ==
  IF Len(mm.qit) = 0 THEN Fail(mm, "BadState", mm.stack)
  ELSE LET it == Top(mm.qit) IN
    IF Len(it) = 0 THEN Cont([mm EXCEPT !.qit = PopS(mm.qit)], Append(mm.stack, VBool(TRUE)))
    ELSE LET m1 == [mm EXCEPT !.qit = SetTop(mm.qit, Tail(it))] IN
      IF Head(it) = "err" THEN IoFail(m1, mm.stack)
      ELSE LET r == ScopeSet(m1, mm.stack, name, StoredStruct(name)) IN
        IF ~r.ok THEN r.m
        ELSE Cont([m1 EXCEPT !.scope = r.scope], Append(mm.stack, VBool(FALSE)))

DoSerialize(mm) ==
  IF mm.ctx = "unset" THEN NeedCtx(mm)
  ELSE IF mm.ctx # "seal" THEN Fail(mm, "BadState", mm.stack)
  ELSE LET p == PopK(mm, mm.stack, {"struct"}) IN IF ~p.ok THEN p.m
  ELSE IF p.v[2] # "S" THEN Fail(mm, "BadState", p.s)
  ELSE IF ~Serializable(p.v) THEN Fail(mm, "Serialize", p.s)
  ELSE Cont(mm, Append(p.s, VBytes(IF p.v = SFull THEN "good" ELSE "other")))

DoDeserialize(mm) ==
  IF mm.ctx = "unset" THEN NeedCtx(mm)
  ELSE IF mm.ctx # "open" THEN Fail(mm, "InvalidInstruction", mm.stack)
  ELSE LET p == PopK(mm, mm.stack, {"bytes"}) IN IF ~p.ok THEN p.m
  ELSE IF p.v[2] = "good" THEN Cont(mm, Append(p.s, SFull))
  ELSE Fail(mm, "Deserialize", p.s)

Exec(mm, c, cls, L) ==
  LET op == c[1]  s == mm.stack IN
  IF mm.pc >= L THEN Fail(mm, "InvalidAddress", s) ELSE
  CASE op = "Const" -> Cont(mm, Append(s, c[2]))
    [] op = "Identifier" -> Cont(mm, Append(s, VIdent(c[2])))
    [] op = "Def" -> (LET p == PopV(mm, s) IN IF ~p.ok THEN p.m ELSE
                      LET r == ScopeSet(mm, p.s, c[2], p.v) IN
                        IF ~r.ok THEN r.m ELSE Cont([mm EXCEPT !.scope = r.scope], p.s))
    [] op = "Get" -> (LET g == ScopeGet(mm, c[2]) IN
                        IF g[1] THEN Cont(mm, Append(s, g[2])) ELSE Fail(mm, "NotDefined", s))
    [] op = "Dup" -> (IF Len(s) = 0 THEN Fail(mm, "StackUnderflow", s) ELSE Cont(mm, Append(s, Top(s))))
    [] op = "Pop" -> (IF Len(s) = 0 THEN Cont(mm, s) ELSE Cont(mm, PopS(s)))
    [] op = "Block" -> (IF Len(mm.scope) = 0 THEN Fail(mm, "BadState", s)
                        ELSE Cont([mm EXCEPT !.scope = SetTop(mm.scope, Append(Top(mm.scope), <<>>))], s))
    [] op = "End" -> (IF Len(mm.scope) = 0 \/ Len(Top(mm.scope)) = 0 THEN Fail(mm, "BadState", s)
                      ELSE Cont([mm EXCEPT !.scope = SetTop(mm.scope, PopS(Top(mm.scope)))], s))
    [] op \in {"Jump", "Branch", "Call", "Recall"} -> DoTarget(mm, op, c[2], L)
    [] op = "ExtCall" -> DoExtCall(mm, c[2], c[3])
    [] op = "Return" -> DoReturn(mm)
    [] op = "Exit" -> (IF c[2] = "yield" THEN Log(mm, "yield") ELSE [mm EXCEPT !.st = "exit:" \o c[2]])
    [] op \in {"Add", "Sub", "SaturatingAdd", "SaturatingSub"} -> DoArith(mm, op)
    [] op = "Not" -> (LET p == PeekK(mm, s, {"bool"}) IN IF ~p.ok THEN p.m
                      ELSE Cont(mm, SetTop(s, VBool(~p.v[2]))))
    [] op \in {"Gt", "Lt", "Eq"} -> DoCompare(mm, op)
    [] op = "FactNew" -> Cont(mm, Append(s, VFact(c[2], <<>>, <<>>)))
    [] op \in {"FactKeySet", "FactValueSet"} -> DoFactSet(mm, op, c[2])
    [] op = "StructNew" -> Cont(mm, Append(s, VStruct(c[2], NoFields)))
    [] op = "StructSet" -> DoStructSet(mm, c[2])
    [] op = "StructGet" -> DoStructGet(mm, c[2])
    [] op = "MStructSet" -> DoMStructSet(mm, c[2])
    [] op = "MStructGet" -> DoMStructGet(mm, c[2])
    [] op = "Cast" -> DoCast(mm, c[2])
    [] op \in {"Wrap", "Is", "Unwrap"} -> DoWrap(mm, op, c[2])
    [] op = "Publish" -> DoPublish(mm)
    [] op \in {"Create", "Delete"} -> DoCreateDelete(mm, op, cls)
    [] op = "Update" -> DoUpdate(mm, cls)
    [] op = "Emit" -> DoEmit(mm)
    [] op = "Query" -> DoQueryish(mm, op, 0, cls)
    [] op = "FactCount" -> DoQueryish(mm, op, c[2], cls)
    [] op = "QueryStart" -> DoQueryish(mm, op, 0, cls)
    [] op = "QueryNext" -> DoQueryNext(mm, c[2])
    [] op = "Serialize" -> DoSerialize(mm)
    [] op = "Deserialize" -> DoDeserialize(mm)
    [] op = "SaveSP" -> Cont([mm EXCEPT !.calls = Append(mm.calls, Len(s))], s)
    [] op = "RestoreSP" -> DoRestoreSP(mm)
    [] op = "Meta" -> Cont(mm, s)
    [] op \in {"Next", "Last"} -> Fail(mm, "InvalidInstruction", s)
  \* no OTHER arm on purpose: an instruction variant without a defined outcome is a TLC error

---------------------------------------------------------------------------------
RECURSIVE SeqsUpTo(_, _)
SeqsUpTo(S, k) == IF k = 0 THEN {<<>>}
                  ELSE LET r == SeqsUpTo(S, k - 1) IN
                       r \cup {Append(q, x) : q \in {y \in r : Len(y) = k - 1}, x \in S}

Machine0(st0) == [stack |-> st0, calls |-> <<>>, scope |-> << << <<>> >> >>, pc |-> 0,
                  ctx |-> "unset", qit |-> <<>>, log |-> <<>>, st |-> "run"]

Init ==
  /\ len \in Lens
  /\ init \in SeqsUpTo(InitSet, MaxInit)
  /\ m = Machine0([i \in DOMAIN init |-> InitTable[init[i]]])
  /\ prog = [i \in 1..len |-> 0]
  /\ ctx0 = "unset"
  /\ io = "unset"
  /\ n = 0

Running == m.st = "run"

Run(mm, c, cls) == Exec(mm, CellTable[c], cls, len)

(* One call of RunState::step.  If the address about to be executed has no instruction yet,
   every cell is tried (the program is built lazily); if the instruction consults the command
   context / the I/O layer and that dimension is still open, every class is tried.  A run
   that is still executing after Budget steps is cut off by the harness ("budget").        *)
Step ==
  /\ Running
  /\ LET fresh == m.pc < len /\ prog[m.pc + 1] = 0
         choices == IF fresh THEN CellSet ELSE IF m.pc < len THEN {prog[m.pc + 1]} ELSE {1}
     IN \E c \in choices :
        LET r0 == Run(m, c, io) IN
        \E cx \in (IF r0.st = "need:ctx" THEN Contexts ELSE {ctx0}) :
          LET m1 == IF r0.st = "need:ctx" THEN [m EXCEPT !.ctx = cx] ELSE m
              r1 == IF r0.st = "need:ctx" THEN Run(m1, c, io) ELSE r0 IN
          \E cls \in (IF r1.st = "need:io" THEN IoClasses ELSE {io}) :
            LET r2 == IF r1.st = "need:io" THEN Run(m1, c, cls) ELSE r1 IN
              /\ Assert(r2.st \notin {"need:ctx", "need:io"}, "unresolved lazy choice")
              /\ m' = IF r2.st = "run" /\ n + 1 = Budget THEN [r2 EXCEPT !.st = "budget"] ELSE r2
              /\ prog' = IF fresh THEN [prog EXCEPT ![m.pc + 1] = c] ELSE prog
              /\ ctx0' = cx
              /\ io' = cls
              /\ n' = n + 1
  /\ UNCHANGED <<len, init>>

Next == Step
Spec == Init /\ [][Next]_vars

---------------------------------------------------------------------------------
(* C25 at model level: whatever was executed, the status is a defined outcome; the value
   stack never exceeds the implementation's capacity within the explored bounds (so
   StackOverflow needs no arm); a finished run stays finished.                              *)
OutcomeDefined == m.st \in Outcomes
StackBounded == Len(m.stack) < 100
TypeOK == /\ m.pc \in Nat /\ n \in 0..Budget
          /\ \A i \in DOMAIN m.stack : m.stack[i][1] \in
               {"unit", "int", "bool", "str", "bytes", "struct", "fact", "id", "enum", "ident", "opt", "res"}
          /\ \A i \in DOMAIN m.stack : m.stack[i][1] = "int" => m.stack[i][2] \in MinI..MaxI
Terminal == m.st # "run"

---------------------------------------------------------------------------------
(* S2I emission: one line per maximal behaviour with the complete expected final state *)
Locals == IF Len(m.scope) = 0 THEN <<>>
          ELSE LET fs == Top(m.scope)
                   RECURSIVE Cat(_)
                   Cat(i) == IF i > Len(fs) THEN <<>> ELSE fs[i] \o Cat(i + 1)
               IN Cat(1)
Hist == [i |-> init, p |-> prog, l |-> len, c |-> ctx0, o |-> io, n |-> n,
         st |-> m.st, s |-> m.stack, pc |-> m.pc, cx |-> m.ctx, loc |-> Locals, log |-> m.log]
Emit == Terminal => PrintT("REPLAY " \o ToJson(Hist))

---------------------------------------------------------------------------------
(* Second case dimension of C25: hand-built / corrupted modules.  A `ModuleV0` around one of
   the programs above is mutated along four axes and loaded with `Machine::from_module`, then
   entered through `RunState::run` (raw) or one of the `call_*` entry points:

     cm  code map: none / a valid span / an empty span at the end of the text / the whole
         text / a span reaching beyond the text / a span cutting a multi-byte character /
         the last character / a span near usize::MAX
     lb  entry labels: address 0 / one past the end / usize::MAX / missing
     df  definitions: as in the world / every name twice / none at all / field types naming
         undefined structs and enums / `never`-typed fields / an enum with duplicate variants /
         a struct that contains itself, directly or through an option (the compiler rejects
         cyclic definitions, a hand-built module can carry one)
     en  entry: raw run / call_action (good and bad arguments) / call_command_policy /
         call_seal / call_open

   `EntryOutcome` is what the entry phase (context check, definition and argument checks,
   label lookup, first fetch) yields before any instruction of the program executes; "runs"
   means the program starts (its outcome is then predicted by the first part only when the
   world's definitions are unchanged).  The code map never changes an outcome: it is only
   consulted to decorate errors.  SpecMod enumerates the cells; `vh-vmtable module` executes them. *)
ModCodemaps == {"none", "ok", "empty-at-end", "whole", "oob", "nonboundary", "last-char", "huge"}
ModLabels   == {"zero", "end", "max", "missing"}
ModDefs     == {"ok", "dup", "none", "dangling", "never", "enumdup", "recursive", "recursive-opt"}
ModEntries  == {"raw", "action", "action-badargs", "policy", "seal", "open"}
(* full products code map x entry (default labels/defs) and labels x defs x entry (two code maps) *)
ModCells == {c \in [cm : ModCodemaps, lb : ModLabels, df : ModDefs, en : ModEntries] :
               (c.lb = "zero" /\ c.df = "ok") \/ c.cm \in {"none", "empty-at-end"}}

AfterEntry(c) == IF c.lb \in {"end", "max"} THEN "err:InvalidAddress" ELSE "runs"
EntryOutcome(c) ==
  CASE c.en = "raw" -> "runs"
    [] c.en = "action-badargs" -> (IF c.df = "none" THEN "err:NotDefined" ELSE "err:Unknown")
    [] c.en = "action" -> (IF c.df = "none" THEN "err:NotDefined"
                           ELSE IF c.lb = "missing" THEN "err:InvalidAddress" ELSE AfterEntry(c))
    [] c.en = "policy" -> (IF c.lb = "missing" THEN "err:InvalidAddress"
                           ELSE IF c.df = "none" THEN "err:NotDefined" ELSE AfterEntry(c))
    [] c.en \in {"seal", "open"} -> (IF c.lb = "missing" THEN "err:InvalidAddress" ELSE AfterEntry(c))

InitMod ==
  /\ \E c \in ModCells : m = [cell |-> c, st |-> EntryOutcome(c)]
  /\ prog = <<>> /\ len = 0 /\ init = <<>> /\ ctx0 = "unset" /\ io = "unset" /\ n = 0
SpecMod == InitMod /\ [][FALSE]_vars
ModOutcomeDefined == m.st \in Outcomes \cup {"runs"}
EmitMod == PrintT("REPLAY " \o ToJson(m))

(* the tables, printed once, so the driver can turn indices into self-describing cases *)
ASSUME PrintT("PRINT TABLES " \o ToJson([cells |-> CellTable, inits |-> InitTable]))
=================================================================================
