\* C21 thorough tier: full operation alphabet (all thresholds, all coverage/longest pairs,
\* max cuts up to 4 through cover_up_to), at most 3 entries, no history.
SPECIFICATION Spec
CONSTANTS
  Segs = {0, 1, 2}
  Mcs = {1, 2, 3}
  Thresholds = {0, 1, 2, 3, 4}
  CoverMcs = {1, 2, 3}
  LongMcs = {1, 2, 3, 4}
  Record = FALSE
  MaxEntries = 3
  SimDepth = 0
ACTION_CONSTRAINT Bound
VIEW View
INVARIANTS TypeOK PartitionSep DedupUnique
PROPERTIES C21
CHECK_DEADLOCK FALSE
