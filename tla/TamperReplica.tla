------------------------------ MODULE TamperReplica ------------------------------
(* C35 — a replica whose policy verifies signatures in its `open` blocks accepts a synced
   command only if payload, command name, parent, author and id match a valid signature by the
   author's registered key (aranya-runtime vm_policy.rs call_rule/open_command, protocol.rs,
   aranya-crypto-ffi verify, aranya-envelope-ffi).

   Two replicas.  A is honest and authors a linear history with actions (`Act`): the signing
   policy's commands init -> add_device_keys -> create -> increment ... .  The environment takes
   A's commands in order, may tamper with the wire form of the one in flight (`Tamper`) and hands
   it to B's `add_commands` + `commit` (`Deliver`).  After a rejection the environment may drop the
   forged copy and deliver the honest one (`Restore`), which must then be accepted as if nothing
   had happened.

   Wire form of a command (VmProtocol + VmProtocolData):
        id, priority, parent = (parent id, parent max cut), policy,
        data = postcard(author_id, kind, serialized_fields, signature)

   Signature model (as CryptoBinding.tla, scheme cmdsig): the signature is a term over
   (author's registered key, kind, parent id, payload); the id is a function of that term and the
   signature bytes.  The receiver recomputes the term from what the *runtime* feeds the policy:
   kind and payload from `data`, parent id from the wire parent address, the key registered for
   `author_id` in B's facts (or, for the self-certifying init/add_device_keys commands, the key
   inside the payload), and compares the derived id with the wire id.

   Fields the property names (signed): payload, kind, parent id, author, id, signature.
   Fields it does not name (`Unsigned`): priority (checked against the policy's attribute),
   parent max cut (an index hint), the policy field, trailing bytes after `data`.  For those the
   spec allows either outcome; the engine records what the code does.

   Invariants: AuthenticOnly, RejectLeavesNoTrace, HonestAccepted.                              *)
EXTENDS Integers, Sequences, FiniteSets, TLC, Json

CONSTANTS NCmds,       \* number of commands A authors after init and add_device_keys
          MaxTamper,   \* tamper steps applied to one in-flight command
          MaxForged    \* deliveries of tampered copies per behaviour

\* A's history: 1 = Init, 2 = AddDeviceKeys (registers A's signing key), 3.. = Create, Increment, ...
Kind(i) == CASE i = 1 -> "Init" [] i = 2 -> "AddDeviceKeys" [] i = 3 -> "Create" [] OTHER -> "Increment"
Total == 2 + NCmds

Signed == {"payload", "kind", "parent", "author", "id", "sig"}
Unsigned == {"priority", "maxcut", "policyfield", "trailing"}

(* tamper variants per field:
   payload   value (a field value changed, still well-formed) | malformed (does not deserialize)
             | noncanonical (other bytes that decode to the same field values: over-long varint)
   kind      sibling (another command with the same field schema: Create <-> Increment) | unknown
   parent    known (id of another command B already holds) | unknown (random id)
   author    registered (another device registered on the graph) | unknown (random id)
   id        other (random id)
   sig       flip (one byte changed) | trunc (last byte removed)
   priority  other ; maxcut  plus/minus ; policyfield  set ; trailing  byte appended            *)
Variants(f) ==
  CASE f = "payload" -> {"value", "malformed", "noncanonical"}
    [] f = "kind" -> {"sibling", "unknown"}
    [] f = "parent" -> {"known", "unknown"}
    [] f = "author" -> {"registered", "unknown"}
    [] f = "id" -> {"other"}
    [] f = "sig" -> {"flip", "trunc"}
    [] f = "priority" -> {"other"}
    [] f = "maxcut" -> {"plus", "minus"}
    [] f = "policyfield" -> {"set"}
    [] f = "trailing" -> {"byte"}

VARIABLES alog,      \* number of commands A has authored (they are 1..alog)
          bacc,      \* set of commands B has accepted and stored (their honest indices)
          wire,      \* 0, or the index of the command in flight
          tampers,   \* tamper steps applied to it: sequence of [f, v]
          last,      \* outcome of the last Deliver: "none" | "accepted" | "rejected" | "either"
          bsnap,     \* B's state before the last Deliver
          nforged,   \* tampered copies put in flight so far
          hist

vars == <<alog, bacc, wire, tampers, last, bsnap, nforged, hist>>

\* tamper steps on one copy are applied in this order (they commute; avoids permutations)
FieldOrder == <<"payload", "kind", "parent", "author", "id", "sig", "priority", "maxcut", "policyfield", "trailing">>
Rank(f) == CHOOSE i \in 1..Len(FieldOrder) : FieldOrder[i] = f

TamperedFields == {tampers[i].f : i \in 1..Len(tampers)}
IsForged == TamperedFields \cap Signed # {}
OnlyUnsigned == TamperedFields # {} /\ ~IsForged

(* the verification the receiving replica performs (vm_policy.rs + crypto FFI verify) *)
ParentPresent(c) == c = 1 \/ (c - 1) \in bacc
Verifies(c) == ParentPresent(c) /\ ~IsForged

Init == /\ alog = 0 /\ bacc = {} /\ wire = 0 /\ tampers = <<>>
        /\ last = "none" /\ bsnap = {} /\ nforged = 0 /\ hist = <<>>

(* ClientState::new_graph / action on A: seal signs with A's key over (kind, head, payload) *)
Act ==
  /\ wire = 0 /\ alog < Total
  /\ alog' = alog + 1
  /\ hist' = Append(hist, [act |-> "act", c |-> alog + 1, f |-> "", v |-> "", expect |-> "accepted"])
  /\ last' = "none"
  /\ UNCHANGED <<bacc, wire, tampers, bsnap, nforged>>

(* the environment picks the next command B lacks (A has finished acting) *)
Send(c) ==
  /\ wire = 0 /\ alog = Total /\ c \in 1..alog /\ c \notin bacc /\ ParentPresent(c)
  /\ wire' = c /\ tampers' = <<>>
  /\ hist' = Append(hist, [act |-> "send", c |-> c, f |-> "", v |-> "", expect |-> "none"])
  /\ last' = "none"
  /\ UNCHANGED <<alog, bacc, bsnap, nforged>>

Applicable(c, f, v) ==
  /\ (f = "kind" /\ v = "sibling") => c >= 3              \* Create <-> Increment share a schema
  /\ (f = "parent" /\ v = "known") => c >= 3              \* needs another command B holds
  /\ (f = "parent") => c >= 2                              \* init has no parent
  /\ (f = "maxcut") => c >= 2
  /\ (f = "maxcut" /\ v = "minus") => c >= 3
  /\ (f = "author" /\ v = "registered") => c >= 3         \* B's own device key is registered by then

Tamper(f, v) ==
  /\ wire # 0 /\ last = "none" /\ Len(tampers) < MaxTamper
  /\ \A i \in 1..Len(tampers) : Rank(tampers[i].f) < Rank(f)
  /\ v \in Variants(f) /\ Applicable(wire, f, v)
  /\ IF tampers = <<>> THEN nforged < MaxForged /\ nforged' = nforged + 1 ELSE UNCHANGED nforged
  /\ tampers' = Append(tampers, [f |-> f, v |-> v])
  /\ hist' = Append(hist, [act |-> "tamper", c |-> wire, f |-> f, v |-> v, expect |-> "none"])
  /\ UNCHANGED <<alog, bacc, wire, last, bsnap>>

(* B: transaction, add_commands([wire]), commit *)
Deliver ==
  /\ wire # 0 /\ last = "none"
  /\ bsnap' = bacc
  /\ LET out == IF IsForged THEN "rejected"
                ELSE IF OnlyUnsigned THEN "either"
                ELSE IF Verifies(wire) THEN "accepted" ELSE "rejected"
     IN /\ last' = out
        /\ bacc' = IF out = "accepted" THEN bacc \cup {wire} ELSE bacc
        /\ hist' = Append(hist, [act |-> "deliver", c |-> wire, f |-> "", v |-> "", expect |-> out])
  /\ UNCHANGED <<alog, wire, tampers, nforged>>

(* after a verdict the in-flight copy is dropped; after a rejection (or an "either") the honest
   copy may be delivered next through Send *)
Drop ==
  /\ wire # 0 /\ last # "none"
  /\ wire' = 0 /\ tampers' = <<>> /\ last' = "none"
  /\ UNCHANGED <<alog, bacc, bsnap, nforged, hist>>

Next == \/ Act
        \/ \E c \in 1..Total : Send(c)
        \/ \E f \in Signed \cup Unsigned : \E v \in Variants(f) : Tamper(f, v)
        \/ Deliver
        \/ Drop

Spec == Init /\ [][Next]_vars

----------------------------------------------------------------------------------
(* a forged command is never stored *)
AuthenticOnly == (last = "accepted") => (~IsForged /\ wire \in bacc)
(* a rejected delivery leaves B exactly as it was *)
RejectLeavesNoTrace == (last = "rejected") => bacc = bsnap
(* the untampered command whose parent B holds is accepted — also right after a forged copy of
   it was rejected *)
HonestAccepted == (last # "none" /\ tampers = <<>> /\ ParentPresent(wire)) => last = "accepted"
(* B only ever holds a prefix of A's history *)
Prefix == \A c \in bacc : c <= alog /\ (c = 1 \/ (c - 1) \in bacc)

----------------------------------------------------------------------------------
Done == alog = Total /\ wire = 0 /\ bacc = 1..Total
Emit == Done => PrintT("REPLAY " \o ToJson([n |-> NCmds, steps |-> hist]))
=================================================================================
