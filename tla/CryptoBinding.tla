------------------------------ MODULE CryptoBinding ------------------------------
(* C34, C36, C37, C38 — symbolic binding model of the crypto layer (aranya-crypto).

   A signature / ciphertext / wrapped key / derived channel key is a *term* over the exact
   context it was made in.  Verification / opening / unwrapping / peer derivation recomputes the
   term from the context the other side presents and succeeds iff the two terms are equal and
   the artifact bytes (signature, nonce, body, tag, encapsulation, claimed id ...) are untouched.
   The terms are written as the code builds them (crates/aranya-crypto):

     cmdsig      Sign(sk, H("SignPolicyCommand-v1", id(pk), name, parent, data)); id = H(digest, sig)
                                                    policy.rs Cmd::digest, aranya.rs sign_cmd/verify_cmd
     wrap        AEAD(engine key, ad = H("DefaultEngine", alg(kind), id)), variant = kind
                                                    default.rs wrap_secret/unwrap_secret
     groupkey    AEAD(KDF(seed, info), ad = info), info = H("GroupKey", label, parent, id(author))
                                                    groupkey.rs seal/open/derive_key
     sealedgk    HPKE-base(recipient, info = ad = "GroupKey-v1" || group)        aranya.rs
     pskseed     HPKE-auth(sender, recipient, info = ad = "PskSeed-v1" || group) tls/psk.rs
     topicmsg    AEAD(KDF(seed, version, topic), ad = H("apq msg", version, topic, id(enc), id(sign)))
     sealedtopic HPKE-auth(sender, receiver, info = ad = "TopicKeyRotation-v1" || version || topic)
                                                    apq.rs
     afcuni      HPKE-auth(author, peer, info = "AfcUniKey-v1" || parent || seal_id || open_id || label)
                                                    afc/uni.rs

   H over a *tuple* is injective in the tuple (tuple_hash length-prefixes every field); fixed
   layout structs concatenate fixed-size fields, which is injective too.  `HashModel = "concat"`
   replaces H by plain concatenation of the variable-length fields: TLC then finds the boundary
   shift that collides — the sensitivity self-test of this module.

   The environment tampers with the presented context and with the artifact:
     replace c k   component c gets a different value (alternative k; for `kind`: the other kinds;
                   for cmdsig `data`: 1 different, 2 truncated, 3/4 the SHA-256 / SHA-512 digest of
                   the original, 5 its 32-byte prefix — values *related* to what was signed;
                   for ids / topics: 1 unrelated, 2 differs only in the last byte, 3 only in the
                   first byte; for versions: 1 next, 2 differs only in the most significant byte)
     move m        a boundary shift: bytes move between neighbouring fields so that the
                   concatenation is unchanged (through a fixed-size field in the middle if needed)
     swap w        two components exchange their values (w = "ids": seal/open device ids)
     alias w       the second component of the pair gets the value of the first (open_id := seal_id)
     flip r p      artifact region r, byte position class p (1 first / 2 middle / 3 last) is modified
     trunc r / ext r   last byte of region r removed / one byte appended
   Multi-point modifications are sequences of these; some sequences restore the original
   (move + inverse move, swap twice, ext + trunc) and must be accepted again.

   Checked by TLC: AcceptIffUnchanged, IdAgreement.  Every behaviour is emitted and applied to
   real `DefaultEngine` objects by `vh-crypto` (TABLE pattern): the spec is enumerator and oracle. *)
EXTENDS Integers, Sequences, FiniteSets, TLC, Json

CONSTANTS Schemes,     \* which primitives (set of strings, see above)
          MaxTamper,   \* maximal number of tamper steps
          HashModel,   \* "tuple" (the code) | "concat" (sensitivity self-test)
          PLens,       \* plaintext length classes (used by the schemes that encrypt caller data)
          DataLens     \* cmdsig: command data length classes (0 = small, seeded unit widths; else bytes)

VARIABLES scheme,  \* the primitive of this behaviour
          phase,   \* "tamper" | "checked"
          plen,    \* plaintext length class
          pres,    \* presented context: component name -> sequence of symbolic bytes
          art,     \* artifact: region name -> sequence of symbolic bytes
          hist,    \* tamper steps so far
          accept   \* outcome of the check

vars == <<scheme, phase, plen, pres, art, hist, accept>>

----------------------------------------------------------------------------------
(* scheme tables *)

\* components: name, symbolic length, number of replacement alternatives
C(n, l, a) == [n |-> n, len |-> l, alts |-> a]

CompsOf(s) ==
  CASE s = "cmdsig"      -> <<C("key", 1, 1), C("name", 2, 2), C("parent", 2, 3), C("data", 2, 5)>>
    [] s = "wrap"        -> <<C("engine", 1, 1), C("kind", 1, 5), C("id", 1, 1)>>
    [] s = "groupkey"    -> <<C("key", 1, 1), C("label", 2, 2), C("parent", 2, 3), C("author", 1, 1)>>
    [] s = "sealedgk"    -> <<C("recipient", 1, 1), C("group", 1, 3)>>
    [] s = "pskseed"     -> <<C("sender", 1, 1), C("recipient", 1, 1), C("group", 1, 3)>>
    [] s = "topicmsg"    -> <<C("key", 1, 1), C("version", 1, 2), C("topic", 1, 3), C("senc", 1, 1), C("ssign", 1, 1)>>
    [] s = "sealedtopic" -> <<C("sender", 1, 1), C("receiver", 1, 1), C("version", 1, 2), C("topic", 1, 3)>>
    [] s = "afcuni"      -> <<C("parent", 1, 3), C("label", 1, 3), C("seal_id", 1, 3), C("open_id", 1, 3),
                              C("author", 1, 1), C("peer", 1, 1)>>

\* artifact regions: name, symbolic length (3 = first/mid/last), truncatable/extendable
R(n, v) == [n |-> n, var |-> v]
RegionsOf(s) ==
  CASE s = "cmdsig"      -> <<R("sig", TRUE), R("id", FALSE)>>
    [] s = "wrap"        -> <<R("wid", FALSE), R("nonce", FALSE), R("variant", FALSE), R("body", FALSE), R("tag", FALSE)>>
    [] s = "groupkey"    -> <<R("nonce", FALSE), R("body", FALSE), R("tag", TRUE)>>
    [] s = "sealedgk"    -> <<R("encap", TRUE), R("body", FALSE), R("tag", FALSE)>>
    [] s = "pskseed"     -> <<R("encap", TRUE), R("body", FALSE), R("tag", FALSE)>>
    [] s = "topicmsg"    -> <<R("nonce", FALSE), R("body", FALSE), R("tag", TRUE)>>
    [] s = "sealedtopic" -> <<R("encap", TRUE), R("body", FALSE), R("tag", TRUE)>>
    [] s = "afcuni"      -> <<R("encap", TRUE)>>

(* boundary shifts: each is a sequence of elementary moves <<from, fromEnd, to, toEnd>>, ends
   "h"ead / "t"ail *)
MovesOf(s) ==
  CASE s = "cmdsig" ->
         [ data_to_name |-> << <<"data", "t", "name", "h">> >>,
           name_to_data |-> << <<"name", "h", "data", "t">> >>,
           name_thru_parent |-> << <<"name", "t", "parent", "h">>, <<"parent", "t", "data", "h">> >>,
           data_thru_parent |-> << <<"data", "h", "parent", "t">>, <<"parent", "h", "name", "t">> >> ]
    \* (groupkey: label is the only variable-length field of its tuple and the others are
    \* fixed-size, so no concatenation-preserving shift exists)
    [] OTHER -> [x \in {} |-> <<>>]

SwapsOf(s) == IF s = "afcuni" THEN [ids |-> <<"seal_id", "open_id">>] ELSE [x \in {} |-> <<>>]

Comps == CompsOf(scheme)
Regions == RegionsOf(scheme)
Moves == MovesOf(scheme)
CompNames == {Comps[i].n : i \in 1..Len(Comps)}
RegionNames == {Regions[i].n : i \in 1..Len(Regions)}
CompIdx(n) == CHOOSE i \in 1..Len(Comps) : Comps[i].n = n
RegIdx(n) == CHOOSE i \in 1..Len(Regions) : Regions[i].n = n

\* original values: distinct symbolic bytes
Orig == [n \in CompNames |-> [j \in 1..Comps[CompIdx(n)].len |-> CompIdx(n) * 100 + j]]
OrigArt == [r \in RegionNames |-> [j \in 1..3 |-> 5000 + RegIdx(r) * 100 + j]]
\* replacement k of component n: one fresh symbolic byte
Fresh(n, k) == << -(CompIdx(n) * 10 + k) >>

----------------------------------------------------------------------------------
(* the terms, as the code builds them *)
Flatten(t) == LET RECURSIVE F(_) F(i) == IF i = 0 THEN <<>> ELSE F(i - 1) \o t[i] IN F(Len(t))
H(t) == IF HashModel = "tuple" THEN t ELSE <<Flatten(t)>>

Term(p) ==
  CASE scheme = "cmdsig"      -> <<p.key, H(<<p.key, p.name, p.parent, p.data>>)>>
    [] scheme = "wrap"        -> <<p.engine, H(<<p.kind, p.id>>), p.kind>>
    [] scheme = "groupkey"    -> LET info == H(<<p.label, p.parent, p.author>>) IN <<p.key, info, info>>
    [] scheme = "sealedgk"    -> <<p.recipient, p.group>>
    [] scheme = "pskseed"     -> <<p.sender, p.recipient, p.group>>
    [] scheme = "topicmsg"    -> <<p.key, p.version, p.topic, H(<<p.version, p.topic, p.senc, p.ssign>>)>>
    [] scheme = "sealedtopic" -> <<p.sender, p.receiver, p.version, p.topic>>
    [] scheme = "afcuni"      -> <<p.author, p.peer, p.parent, p.seal_id, p.open_id, p.label>>

\* afc/uni.rs refuses seal_id = open_id on both sides (Error::same_device_id)
Refused(p) == scheme = "afcuni" /\ p.seal_id = p.open_id

Verify(p, a) == ~Refused(p) /\ Term(p) = Term(Orig) /\ a = OrigArt

\* C34: the id the signer derives and the id the verifier derives
IdOf(p, a) == <<Term(p), a["sig"]>>

----------------------------------------------------------------------------------
(* tamper operations *)
Op(o, a, b) == [op |-> o, a |-> a, b |-> b]

TakeHead(s) == SubSeq(s, 2, Len(s))
TakeTail(s) == SubSeq(s, 1, Len(s) - 1)

\* apply one elementary move to a context
Move1(p, m) ==
  LET from == m[1]  fe == m[2]  to == m[3]  te == m[4]
      b == IF fe = "h" THEN Head(p[from]) ELSE p[from][Len(p[from])]
      p1 == [p EXCEPT ![from] = IF fe = "h" THEN TakeHead(@) ELSE TakeTail(@)]
  IN [p1 EXCEPT ![to] = IF te = "h" THEN <<b>> \o @ ELSE Append(@, b)]

RECURSIVE MoveAll(_, _, _)
MoveAll(p, ms, i) == IF i > Len(ms) THEN p ELSE MoveAll(Move1(p, ms[i]), ms, i + 1)

\* a composite move is possible when every source is non-empty at its turn
RECURSIVE MoveOk(_, _, _)
MoveOk(p, ms, i) == IF i > Len(ms) THEN TRUE
                    ELSE Len(p[ms[i][1]]) > 0 /\ MoveOk(Move1(p, ms[i]), ms, i + 1)

\* byte position classes of a region: 1 first, 2 middle, 3 last
Ops ==
  {Op("replace", Comps[i].n, k) : i \in 1..Len(Comps), k \in 1..5} \cup
  {Op("move", m, 0) : m \in DOMAIN Moves} \cup
  {Op(o, w, 0) : w \in DOMAIN SwapsOf(scheme), o \in {"swap", "alias"}} \cup
  {Op("flip", Regions[i].n, k) : i \in 1..Len(Regions), k \in 1..3} \cup
  {Op(o, Regions[i].n, 0) : i \in 1..Len(Regions), o \in {"trunc", "ext"}}

Enabled(o) ==
  CASE o.op = "replace" -> o.b <= Comps[CompIdx(o.a)].alts /\ pres[o.a] # Fresh(o.a, o.b)
    [] o.op = "move" -> MoveOk(pres, Moves[o.a], 1)
    [] o.op = "swap" -> TRUE
    [] o.op = "alias" -> pres[SwapsOf(scheme)[o.a][1]] # pres[SwapsOf(scheme)[o.a][2]]
    [] o.op = "flip" -> Len(art[o.a]) = 3 /\ art[o.a][o.b] > 0
    [] o.op = "trunc" -> Regions[RegIdx(o.a)].var /\ Len(art[o.a]) >= 3
    [] o.op = "ext" -> Regions[RegIdx(o.a)].var /\ Len(art[o.a]) <= 3

Apply(o) ==
  CASE o.op = "replace" -> /\ pres' = [pres EXCEPT ![o.a] = Fresh(o.a, o.b)] /\ UNCHANGED art
    [] o.op = "move" -> /\ pres' = MoveAll(pres, Moves[o.a], 1) /\ UNCHANGED art
    [] o.op = "swap" -> LET x == SwapsOf(scheme)[o.a][1]  y == SwapsOf(scheme)[o.a][2]
                        IN /\ pres' = [pres EXCEPT ![x] = pres[y], ![y] = pres[x]] /\ UNCHANGED art
    [] o.op = "alias" -> LET x == SwapsOf(scheme)[o.a][1]  y == SwapsOf(scheme)[o.a][2]
                         IN /\ pres' = [pres EXCEPT ![y] = pres[x]] /\ UNCHANGED art
    [] o.op = "flip" -> /\ art' = [art EXCEPT ![o.a][o.b] = -@] /\ UNCHANGED pres
    [] o.op = "trunc" -> /\ art' = [art EXCEPT ![o.a] = TakeTail(@)] /\ UNCHANGED pres
    [] o.op = "ext" -> /\ art' = [art EXCEPT ![o.a] = Append(@, -9999)] /\ UNCHANGED pres

----------------------------------------------------------------------------------
\* plaintext lengths only matter for the schemes that encrypt caller data; for cmdsig `plen` is
\* the length class of the command data (values straddling any internal size threshold)
Encrypts(s) == s \in {"groupkey", "topicmsg"}
LensOf(s) == IF Encrypts(s) THEN PLens ELSE IF s = "cmdsig" THEN DataLens ELSE {0}

Init == /\ scheme \in Schemes
        /\ phase = "tamper"
        /\ plen \in LensOf(scheme)
        /\ pres = Orig
        /\ art = OrigArt
        /\ hist = <<>>
        /\ accept = FALSE

Tamper(o) ==
  /\ phase = "tamper"
  /\ Len(hist) < MaxTamper
  /\ Enabled(o)
  /\ Apply(o)
  /\ hist' = Append(hist, o)
  /\ UNCHANGED <<scheme, phase, plen, accept>>

(* verify_cmd / Engine::unwrap / open / from_peer_encap + open of the author's message *)
Check ==
  /\ phase = "tamper"
  /\ accept' = Verify(pres, art)
  /\ phase' = "checked"
  /\ UNCHANGED <<scheme, plen, pres, art, hist>>

(* C38, "a device never derives both ends of one channel" (afc-util handler.rs, afc/uni.rs).
   Who holds what: the author its encryption key and — until `uni_channel_created` consumed it
   (`remove_key`) — the channel's author secret; the peer its encryption key; an outsider its own.
   The seal end needs the author secret and the author's key, the open end the peer's key (and the
   public encapsulation).  The handlers refuse `uni_channel_created` on the opening device and
   `uni_channel_received` on the sealing device (AuthorMustBeSealer). *)
Devices == {"author", "peer", "outsider"}
Needs(e) == IF e = "seal" THEN {"author_sk", "secret"} ELSE {"peer_sk"}
Holds(d, used) == CASE d = "author" -> {"author_sk"} \cup (IF used THEN {} ELSE {"secret"})
                    [] d = "peer" -> {"peer_sk"}
                    [] d = "outsider" -> {"outsider_sk"}
HandlerAllows(d, e) == IF e = "seal" THEN d # "peer" ELSE d # "author"
CanDerive(d, e, used) == Needs(e) \subseteq Holds(d, used) /\ HandlerAllows(d, e)

IsRole == Len(hist) > 0 /\ hist[1].op = "role"

(* device d attempts to obtain end e of the untouched channel; used = 1: after the author's
   handler already produced the seal key once *)
Role(d, e, used) ==
  /\ scheme = "afcuni" /\ phase = "tamper" /\ hist = <<>>
  /\ hist' = <<Op("role", d \o "_" \o e, used)>>
  /\ accept' = CanDerive(d, e, used = 1)
  /\ phase' = "checked"
  /\ UNCHANGED <<scheme, plen, pres, art>>

Next == \/ \E o \in Ops : Tamper(o)
        \/ Check
        \/ \E d \in Devices, e \in {"seal", "open"}, u \in 0..1 : Role(d, e, u)

Spec == Init /\ [][Next]_vars

----------------------------------------------------------------------------------
(* Properties *)
Unchanged == pres = Orig /\ art = OrigArt

(* the primitive succeeds iff nothing at all is different — context and artifact *)
AcceptIffUnchanged == (phase = "checked" /\ ~IsRole) => (accept <=> (Unchanged /\ ~Refused(pres)))

(* C38: no device can obtain both ends; only the author gets the seal end (once), only the peer
   the open end *)
NoBothEnds == \A d \in Devices : ~(CanDerive(d, "seal", FALSE) /\ CanDerive(d, "open", FALSE))
OnlyRightful == \A d \in Devices, u \in BOOLEAN :
                   /\ CanDerive(d, "seal", u) => (d = "author" /\ ~u)
                   /\ CanDerive(d, "open", u) => d = "peer"

(* C34: signer and verifier derive the same command id exactly when verification succeeds on
   the untouched signature; any other presentation derives a different id *)
IdAgreement ==
  (scheme = "cmdsig" /\ phase = "checked") =>
     ((IdOf(pres, art) = IdOf(Orig, OrigArt)) <=> (Term(pres) = Term(Orig) /\ art["sig"] = OrigArt["sig"]))

(* a tamper sequence that really changed something exists at every depth (vacuity) *)
----------------------------------------------------------------------------------
Hist == [scheme |-> scheme, plen |-> plen, ops |-> hist, accept |-> accept,
         unchanged |-> Unchanged]
Emit == phase = "checked" => PrintT("REPLAY " \o ToJson(Hist))
=================================================================================
