--------------------------- MODULE MC_SessionOverlay ---------------------------
(* Bounds and constant definitions for model checking SessionOverlay. *)
EXTENDS SessionOverlay
CONSTANTS MaxCommits, MaxLog, MaxOut, MaxUps, ActorsOnly1, SimDepth

MCKeys == {<<"a">>, <<"a", "">>}
AllKeys == LET P == {"", "a", "b"} IN {<<>>} \cup {<<a>> : a \in P} \cup {<<a, b>> : a \in P, b \in P}
MCPartOrd(p) == CASE p = "" -> 0 [] p = "a" -> 1 [] p = "b" -> 2

UpSeqs == UNION {[1..n -> FK \X {0, 1}] : n \in 0..MaxUps}
MCPrograms == {[ups |-> u, chk |-> c] : u \in UpSeqs, c \in FK \cup {NoFK}}

(* simulation: single-update programs with three possible checks plus a few two-update ones *)
SimChecks == {NoFK, <<"x", <<"a">>>>, <<"y", <<"", "b">>>>}
TwoUps == LET a == <<"x", <<"a">>>> b == <<"x", <<"a", "">>>> c == <<"y", <<>>>> IN
          {<<<<a, 1>>, <<a, 0>>>>, <<<<a, 0>>, <<a, 1>>>>, <<<<a, 1>>, <<b, 1>>>>, <<<<c, 1>>, <<c, 1>>>>,
           <<<<b, 0>>, <<c, 1>>>>}
SimPrograms == {[ups |-> u, chk |-> c] : u \in UNION {[1..n -> FK \X {0, 1}] : n \in 0..1} \cup TwoUps,
                                        c \in SimChecks}

Bound == /\ ncommit' <= MaxCommits
         /\ \A s \in 1..nsess' : Len(slog'[s]) <= MaxLog
         /\ Len(out') <= MaxOut
         /\ (ActorsOnly1 /\ last'.o = "action" => last'.s = 1)    \* session 2 only receives
EmitBounded == Bound /\ EmitStep
(* C13 quick tier: only the failing operations (checkpoint + revert inside action / receive) *)
EmitFail == Bound /\ (last'.r = "err" => EmitStep)
(* simulation: keep the walk inside the bounds; open both sessions before using them *)
SimBound == /\ ncommit' <= MaxCommits
            /\ \A s \in 1..nsess' : Len(slog'[s]) <= MaxLog
            /\ Len(out') <= MaxOut
            /\ (IsSessOp(last'.o) => nsess = MaxSessions)
EmitSim == Len(hist) = SimDepth => PrintT("REPLAY " \o ToJson([h |-> hist, e |-> last]))
================================================================================
