\* exhaustive, effects mode, statement forms over atoms
SPECIFICATION Spec
CONSTANTS
  MaxDepth = 0
  StmtDepth = 1
  Effects = TRUE
  Focus = "all"
  Quirks = FALSE
  EnvCap = 8
  RetTypes <- MC_RetInt
INVARIANTS Emit
CHECK_DEADLOCK FALSE
