SPECIFICATION Spec
CONSTANTS
  NIds = 2
  MaxOps = 4
  GoneTail = 1
  SymBreak = TRUE
  SeekOnGet = FALSE
  ReadThenUnlink = FALSE
  UnlinkOnDrop = TRUE
  CreateErrIsExist = TRUE
INVARIANTS TypeOK Refines DirIsMap NothingLeftBehind OccupiedIffInserted ReadsReturnStored GoneIsError

CHECK_DEADLOCK FALSE
