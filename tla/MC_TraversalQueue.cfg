\* C21 quick tier: the complete concrete state graph with at most MaxEntries entries (every
\* operation sequence of ANY length that stays within it); all invariants and the action
\* property C21 on every transition; one S2I behaviour emitted per transition.
SPECIFICATION Spec
CONSTANTS
  Segs = {0, 1, 2}
  Mcs = {1, 2, 3}
  Thresholds = {1, 2}
  CoverMcs = {1, 2}
  LongMcs = {2, 4}
  Record = TRUE
  MaxEntries = 3
  SimDepth = 0
ACTION_CONSTRAINT EmitBounded
VIEW View
INVARIANTS TypeOK PartitionSep DedupUnique
PROPERTIES C21
CHECK_DEADLOCK FALSE
