\* C44 thorough: lender thread with 4 lends, three loan threads.
SPECIFICATION Spec
CONSTANTS
  Loans = {1, 2, 3}
  Lends = 4
  Gets = 2
  FreeWhenOld = FALSE
INVARIANTS AtMostOneLoan ExclusiveUse NoUseAfterFree Revoked RevokedState FreedOnce NoEarlyFree FreedAtEnd
