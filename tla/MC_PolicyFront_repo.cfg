\* C27: token mutations of the repository's policy documents (positions sampled with a stride)
SPECIFICATION Spec
CONSTANTS
  Families = {"repo"}
  GrowDepth = 0
  Stride = 23
  MutStride = 1
  DocEols = {"lf"}
  DocBefores = {"none"}
INVARIANTS WellFormed Emit
CHECK_DEADLOCK FALSE
