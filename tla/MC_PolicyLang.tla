--------------------------- MODULE MC_PolicyLang ---------------------------
(* Model-checking instance of PolicyLang: constants that a .cfg cannot hold, and the lemma
   that ties the derivation (actions) to the set-valued grammar `Exprs`.                    *)
EXTENDS PolicyLang

MC_RetQuick == {TInt, TBool, TOpt(TInt), TP, TE, TS}
MC_RetAll   == AllTypes
MC_RetInt   == {TInt}
MC_RetIntBool == {TInt, TBool}
MC_RetQuirks == MC_RetQuick \cup {TStruct("Wb"), TStruct("Wt"), TStruct("Wp"), TStruct("Wr")}
MC_RetOptInt == {TOpt(TInt)}
MC_RetP == {TP}
MC_RetOps == {TBool}
MC_RetRet == {TInt, TP}

(* Exprs(MaxDepth, t) for every root type; evaluated once (constant level).  Only meaningful
   for the exhaustive configurations (MaxDepth <= 1): deeper sets exceed TLC's set limits.   *)
ExprsTable == IF MaxDepth <= 1 THEN [t \in RetTypes |-> Exprs(MaxDepth, t, Ctx0, t, "f")]
              ELSE [t \in RetTypes |-> {}]

(* every finished derivation of the form `return e` is an element of Exprs, and (checked by the
   driver from the counts printed below) there are exactly as many of them                    *)
DerivationInExprs ==
  (Done /\ MaxDepth <= 1 /\ Len(Body) = 1 /\ Body[1][1] = "ret") => Body[1][3][1] \in ExprsTable[rt]

ExprsCount == LET RECURSIVE Sum(_)
                  Sum(S) == IF S = {} THEN 0 ELSE LET t == CHOOSE t \in S : TRUE IN
                                                   Cardinality(ExprsTable[t]) + Sum(S \ {t})
              IN Sum(RetTypes)

(* ---- untyped programs (C24): `return e` for every e in AnyExprs(AnyDepth), no type filter.
   The return type is the type the expression has (never -> int) or, for an expression the spec's
   type system rejects, int and bool: the real compiler decides; what it accepts must not go
   wrong in the VM.  Run with Quirks = TRUE (ill-typed programs are expected here).            *)
RECURSIVE Concretize(_)
Concretize(t) == CASE t = TNever -> TInt
                   [] t[1] = "opt" -> TOpt(Concretize(t[2]))
                   [] t[1] = "res" -> TRes(Concretize(t[2]), Concretize(t[3]))
                   [] OTHER -> t
AnyRetTypes(e) == LET t0 == TypeOf(e, Ctx0, TNever) IN
                  IF t0 = TErr
                  THEN (IF e[1] \in {"substruct", "cast"} THEN {TStruct(e[2])} ELSE {TInt, TBool})
                  ELSE {Concretize(t0)}
AnySmallAtoms == {Lit(I(0)), Lit(MAXI), Lit(VT), Lit(VStr("ab")), Lit(VEnum("Color", "Red")), Lit(VNone),
                  Var("x"), Var("p"), Var("s"), Var("c"), Var("o"), Var("r"), Var("u"), Var("w"), Var("k"), Var("g")}
AnyInit ==
  /\ phase = "done" /\ pick = "none"
  /\ \E e \in AnyExprs(MaxDepth) : \E t \in AnyRetTypes(e) : rt = t /\ ast = Stmts(<<RetS(e)>>)
AnySpec == AnyInit /\ [][FALSE]_vars

ASSUME PreludeLine
ASSUME PrintT("PRINT EXPRS " \o ToString(ExprsCount))
=============================================================================
