\* C21 thorough tier: seeded simulation of long operation sequences over the full alphabet
\* (queues of up to 8 entries); each behaviour of SimDepth steps is emitted for S2I replay.
SPECIFICATION Spec
CONSTANTS
  Segs = {0, 1, 2, 3}
  Mcs = {1, 2, 3, 4}
  Thresholds = {0, 1, 2, 3, 4}
  CoverMcs = {1, 2, 3, 4}
  LongMcs = {2, 5}
  Record = TRUE
  MaxEntries = 8
  SimDepth = 40
ACTION_CONSTRAINT Bound
INVARIANTS TypeOK PartitionSep DedupUnique EmitSim
CHECK_DEADLOCK FALSE
