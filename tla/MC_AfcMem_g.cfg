\* Schedule graph for memory::State: the 3-call scripts, two readers with 2 calls each.
SPECIFICATION Spec
CONSTANTS
  Readers = {1, 2}
  WScripts <- ScriptsG
  Mutant = "none"
  ROps = 2
INVARIANTS SeqsOk SingleContext RemovalEffective NoLostChannel NoResurrection NoUseAfterFree FreedOnce NoEarlyFree
CHECK_DEADLOCK FALSE
