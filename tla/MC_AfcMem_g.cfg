\* Schedule graph for memory::State: the same scripts, two readers with 2 calls each.
SPECIFICATION Spec
CONSTANTS
  Readers = {1, 2}
  WScripts <- Scripts
  ROps = 2
INVARIANTS SeqsOk SingleContext RemovalEffective NoLostChannel NoUseAfterFree FreedOnce NoEarlyFree
CHECK_DEADLOCK FALSE
