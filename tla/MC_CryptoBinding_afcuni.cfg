SPECIFICATION Spec
CONSTANTS
  Schemes = {"afcuni"}
  MaxTamper = 2
  HashModel = "tuple"
  PLens = {0}
INVARIANTS AcceptIffUnchanged IdAgreement NoBothEnds OnlyRightful Emit
CHECK_DEADLOCK FALSE
