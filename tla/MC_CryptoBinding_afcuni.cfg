SPECIFICATION Spec
CONSTANTS
  Schemes = {"afcuni"}
  MaxTamper = 2
  HashModel = "tuple"
  PLens = {0}
INVARIANTS AcceptIffUnchanged IdAgreement Emit
CHECK_DEADLOCK FALSE
