SPECIFICATION Spec
CONSTANTS
  Classes = {"missing", "unparsable", "uncompilable", "invalid", "valid"}
  Negate = FALSE
INVARIANTS TypeOK SuccessOnlyIfAcceptable WrittenOnlyIfSuccess InvalidFails AcceptableSucceeds Emit
CHECK_DEADLOCK FALSE
