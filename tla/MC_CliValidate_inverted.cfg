SPECIFICATION Spec
CONSTANTS
  Classes = {"missing", "unparsable", "uncompilable", "invalid", "valid"}
  Negate = TRUE
INVARIANTS TypeOK SuccessOnlyIfAcceptable WrittenOnlyIfSuccess InvalidFails AcceptableSucceeds
CHECK_DEADLOCK FALSE
