---------------------------- MODULE Trace_LinearFile ----------------------------
(* C15, I2S half — the I/O log recorded from the real `Writer` (hook
   `storage/linear/libc/verif.rs`) must be a behaviour of LinearFile.tla with the code's
   constants: every event is matched by the action the spec allows at that point, with the
   logged offsets, lengths and decoded root fields bound to the spec's state:

     * appends go to `free_offset`, length prefix first, inside the preallocated region
       (`fallocate` + `fsync` first when it is too small, grown in Chunk steps);
     * a root is written only after the fdatasync that covers every record below its
       `free_offset` (Sync1 is taken whenever data is dirty), into the slot `next_root`,
       with generation + 1, heads = the head-set record just appended, free = the frontier;
     * the second fdatasync follows, slots alternate, also across close/open;
     * on open a slot without a valid root is zeroed and synced before any other write;
     * when a committing API call returns no commit is half-done.

   All invariants of LinearFile (DurableRootsSound, CleanReopen, NothingNewerVisible,
   WithinAlloc) are evaluated in every state of the trace.

   Events (ndjson, IOEnv.TRACE): [ev |-> "create"|"open"|"close"|"fallocate"|"fsync"|"sync"|
   "write"|"ret", off, n, len, gen, heads, free, k] (unused fields 0).                      *)
EXTENDS LinearFile, Json, IOUtils

Rec == ndJsonDeserialize(IOEnv.TRACE)

VARIABLE idx
tvars == <<vars, idx>>

Ev == Rec[idx]

TInit == Init /\ idx = 1

Match ==
  CASE Ev.ev = "create" -> Create
    [] Ev.ev = "fallocate" ->
         \/ Fallocate /\ Ev.len = cur.want
         \/ /\ idx + 2 <= Len(Rec) /\ Rec[idx + 2].ev = "write"
            /\ \E c \in BOOLEAN : AppendGrow(Rec[idx + 2].len, c)
            /\ Ev.len = cur'.want
    [] Ev.ev = "fsync" -> Fsync
    [] Ev.ev = "sync" -> Sync1 \/ Sync2 \/ ScrubSync
    [] Ev.ev = "write" ->
         \/ /\ pc = "idle" /\ Ev.n = HdrLen /\ Ev.off = mem.free
            /\ \E c \in BOOLEAN : AppendHdr(Ev.len, c)
         \/ /\ pc = "hdr" /\ Ev.n = HdrLen /\ Ev.off = mem.free /\ Ev.len = cur.n
            /\ AppendHdrAfterGrow
         \/ /\ pc = "body" /\ Ev.n = cur.n /\ Ev.off = mem.free + HdrLen
            /\ AppendBody
         \/ /\ Ev.n = HdrLen
            /\ RootHdr(Ev.len)
            /\ Ev.off = cur'.slot
         \/ /\ pc = "scrub" /\ Ev.n = ScrubLen /\ Ev.off = cur.slot
            /\ Scrub
         \/ /\ pc = "rootbody" /\ Ev.n = cur.n /\ Ev.off = cur.slot + HdrLen
            /\ Ev.gen = mem.gen /\ Ev.heads = mem.heads /\ Ev.free = mem.free
            /\ RootBody
    [] Ev.ev = "close" -> Close
    [] Ev.ev = "open" -> Open /\ pc' # "failed"
    [] Ev.ev = "ret" -> pc = "idle" /\ inprog = 0 /\ done # <<>> /\ UNCHANGED vars
    [] OTHER -> FALSE

TNext == /\ idx <= Len(Rec)
         /\ idx' = idx + 1
         /\ Match

TSpec == TInit /\ [][TNext]_tvars

Accepted == TLCGet("stats").diameter - 1 = Len(Rec)

Post == IF Accepted THEN PrintT("TRACE-ACCEPTED")
        ELSE PrintT("TRACE-REJECTED at " \o ToString(TLCGet("stats").diameter))
=================================================================================
