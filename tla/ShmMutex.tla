------------------------------- MODULE ShmMutex -------------------------------
(* C43 — the futex mutex that lives inside the AFC shared memory
   (`crates/aranya-fast-channels/src/mutex.rs`, `Mutex::sys_lock` / `sys_unlock`; the
   algorithm is the one of the Go runtime's `lock_futex.go`).

   `key`: 0 unlocked, 1 locked, 2 locked with (possible) sleepers.

   Implementation-shaped: ONE LABEL PER ATOMIC ACCESS of the code, in the code's order, so
   that a behaviour of this spec is a schedule for the real code under the yield-point
   scheduler (one yield point per label, DESIGN §2.1 SCHED):

     cas1  compare_exchange(0 -> 1)                         fast path
     spin  load in `while key.load() == 0`                  passive spin, iteration `spins`
     scas  compare_exchange(0 -> wait)                      inside the spin loop
     swp   swap(2)                                          "could not grab the lock; go to sleep"
     fw    futex_wait(key, 2): atomically compare-and-block
     slp   asleep in the kernel; leaves when woken (wake token) or spuriously
     cs    critical section enter   (monitor: `holder`)
     cs2   critical section exit
     unl   swap(0)
     wk    futex_wake(key, 1): moves at most one sleeper to the woken set

   The code spins `PASSIVE_SPIN = 5` times (5 loads that see a non-zero key; a load that sees
   0 is followed by the CAS and, when that fails, by another load of the same iteration);
   the constant `PassiveSpin` keeps that count (5 for schedules that are replayed 1:1, 1 for
   the larger design-level runs).

   `WakeOn` is the key value on which `unl` issues the wake-up: 2 in the code.  The
   configuration MC_ShmMutex_mutant sets it to 1 ("unlock wakes only when it saw LOCKED"):
   TLC must then report the lost wake-up — the self-test that the liveness half is not
   vacuous.                                                                              *)
EXTENDS Naturals, FiniteSets, TLC

CONSTANTS Threads,      \* set of thread ids (1..N)
          Rounds,       \* lock/unlock rounds per thread (>= 1)
          MoreRounds,   \* threads that do one round more (a thread that comes back on the fast path
                        \* while the others are still queued, without doubling everybody's rounds)
          PassiveSpin,  \* PASSIVE_SPIN of the code
          Spurious,     \* BOOLEAN: futex_wait may return without a wake-up
          WakeOn        \* 2 = the code; 1 = the lost-wake-up mutant

MyRounds(th) == Rounds + (IF th \in MoreRounds THEN 1 ELSE 0)

(* --algorithm ShmMutex {
  variables key = 0,
            sleepers = {},    \* threads blocked in futex_wait
            wakeTok = {},     \* sleepers a futex_wake has selected; they have not run yet
            holder = {},      \* monitor: threads inside the critical section
            bug = FALSE;      \* `sys_unlock` found the mutex unlocked ("unlock of unlocked mutex")
  fair process (t \in Threads)
    variables wait = 0, spins = 0, rounds = 0;
  {
  cas1:   if (key = 0) { key := 1; goto cs; } else { wait := key; spins := 0; };
  spin:   if (key = 0) { goto scas; }
          else { spins := spins + 1;
                 if (spins >= PassiveSpin) { goto swp; } else { goto spin; } };
  scas:   if (key = 0) { key := wait; goto cs; } else { goto spin; };
  swp:    if (key = 0) { key := 2; goto cs; } else { key := 2; wait := 2; };
  fw:     spins := 0;
          if (key = 2) { sleepers := sleepers \cup {self}; } else { goto spin; };
  slp:    await (self \in wakeTok) \/ (Spurious /\ self \in sleepers);
          sleepers := sleepers \ {self}; wakeTok := wakeTok \ {self};
          goto spin;
  cs:     holder := holder \cup {self};
  cs2:    holder := holder \ {self};
  unl:    if (key = WakeOn) { key := 0; goto wk; }
          else { if (key = 0) { bug := TRUE; };
                 key := 0; rounds := rounds + 1;
                 if (rounds < MyRounds(self)) { goto cas1; } else { goto Done; } };
  wk:     if (sleepers # {}) {
             with (s \in sleepers) { wakeTok := wakeTok \cup {s}; sleepers := sleepers \ {s}; };
          };
          rounds := rounds + 1;
          if (rounds < MyRounds(self)) { goto cas1; } else { goto Done; };
  }
} *)
\* BEGIN TRANSLATION
VARIABLES pc, key, sleepers, wakeTok, holder, bug, wait, spins, rounds

vars == << pc, key, sleepers, wakeTok, holder, bug, wait, spins, rounds >>

ProcSet == (Threads)

Init == (* Global variables *)
        /\ key = 0
        /\ sleepers = {}
        /\ wakeTok = {}
        /\ holder = {}
        /\ bug = FALSE
        (* Process t *)
        /\ wait = [self \in Threads |-> 0]
        /\ spins = [self \in Threads |-> 0]
        /\ rounds = [self \in Threads |-> 0]
        /\ pc = [self \in ProcSet |-> "cas1"]

cas1(self) == /\ pc[self] = "cas1"
              /\ IF key = 0
                    THEN /\ key' = 1
                         /\ pc' = [pc EXCEPT ![self] = "cs"]
                         /\ UNCHANGED << wait, spins >>
                    ELSE /\ wait' = [wait EXCEPT ![self] = key]
                         /\ spins' = [spins EXCEPT ![self] = 0]
                         /\ pc' = [pc EXCEPT ![self] = "spin"]
                         /\ key' = key
              /\ UNCHANGED << sleepers, wakeTok, holder, bug, rounds >>

spin(self) == /\ pc[self] = "spin"
              /\ IF key = 0
                    THEN /\ pc' = [pc EXCEPT ![self] = "scas"]
                         /\ spins' = spins
                    ELSE /\ spins' = [spins EXCEPT ![self] = spins[self] + 1]
                         /\ IF spins'[self] >= PassiveSpin
                               THEN /\ pc' = [pc EXCEPT ![self] = "swp"]
                               ELSE /\ pc' = [pc EXCEPT ![self] = "spin"]
              /\ UNCHANGED << key, sleepers, wakeTok, holder, bug, wait, 
                              rounds >>

scas(self) == /\ pc[self] = "scas"
              /\ IF key = 0
                    THEN /\ key' = wait[self]
                         /\ pc' = [pc EXCEPT ![self] = "cs"]
                    ELSE /\ pc' = [pc EXCEPT ![self] = "spin"]
                         /\ key' = key
              /\ UNCHANGED << sleepers, wakeTok, holder, bug, wait, spins, 
                              rounds >>

swp(self) == /\ pc[self] = "swp"
             /\ IF key = 0
                   THEN /\ key' = 2
                        /\ pc' = [pc EXCEPT ![self] = "cs"]
                        /\ wait' = wait
                   ELSE /\ key' = 2
                        /\ wait' = [wait EXCEPT ![self] = 2]
                        /\ pc' = [pc EXCEPT ![self] = "fw"]
             /\ UNCHANGED << sleepers, wakeTok, holder, bug, spins, rounds >>

fw(self) == /\ pc[self] = "fw"
            /\ spins' = [spins EXCEPT ![self] = 0]
            /\ IF key = 2
                  THEN /\ sleepers' = (sleepers \cup {self})
                       /\ pc' = [pc EXCEPT ![self] = "slp"]
                  ELSE /\ pc' = [pc EXCEPT ![self] = "spin"]
                       /\ UNCHANGED sleepers
            /\ UNCHANGED << key, wakeTok, holder, bug, wait, rounds >>

slp(self) == /\ pc[self] = "slp"
             /\ (self \in wakeTok) \/ (Spurious /\ self \in sleepers)
             /\ sleepers' = sleepers \ {self}
             /\ wakeTok' = wakeTok \ {self}
             /\ pc' = [pc EXCEPT ![self] = "spin"]
             /\ UNCHANGED << key, holder, bug, wait, spins, rounds >>

cs(self) == /\ pc[self] = "cs"
            /\ holder' = (holder \cup {self})
            /\ pc' = [pc EXCEPT ![self] = "cs2"]
            /\ UNCHANGED << key, sleepers, wakeTok, bug, wait, spins, rounds >>

cs2(self) == /\ pc[self] = "cs2"
             /\ holder' = holder \ {self}
             /\ pc' = [pc EXCEPT ![self] = "unl"]
             /\ UNCHANGED << key, sleepers, wakeTok, bug, wait, spins, rounds >>

unl(self) == /\ pc[self] = "unl"
             /\ IF key = WakeOn
                   THEN /\ key' = 0
                        /\ pc' = [pc EXCEPT ![self] = "wk"]
                        /\ UNCHANGED << bug, rounds >>
                   ELSE /\ IF key = 0
                              THEN /\ bug' = TRUE
                              ELSE /\ TRUE
                                   /\ bug' = bug
                        /\ key' = 0
                        /\ rounds' = [rounds EXCEPT ![self] = rounds[self] + 1]
                        /\ IF rounds'[self] < MyRounds(self)
                              THEN /\ pc' = [pc EXCEPT ![self] = "cas1"]
                              ELSE /\ pc' = [pc EXCEPT ![self] = "Done"]
             /\ UNCHANGED << sleepers, wakeTok, holder, wait, spins >>

wk(self) == /\ pc[self] = "wk"
            /\ IF sleepers # {}
                  THEN /\ \E s \in sleepers:
                            /\ wakeTok' = (wakeTok \cup {s})
                            /\ sleepers' = sleepers \ {s}
                  ELSE /\ TRUE
                       /\ UNCHANGED << sleepers, wakeTok >>
            /\ rounds' = [rounds EXCEPT ![self] = rounds[self] + 1]
            /\ IF rounds'[self] < MyRounds(self)
                  THEN /\ pc' = [pc EXCEPT ![self] = "cas1"]
                  ELSE /\ pc' = [pc EXCEPT ![self] = "Done"]
            /\ UNCHANGED << key, holder, bug, wait, spins >>

t(self) == cas1(self) \/ spin(self) \/ scas(self) \/ swp(self) \/ fw(self)
              \/ slp(self) \/ cs(self) \/ cs2(self) \/ unl(self)
              \/ wk(self)

(* Allow infinite stuttering to prevent deadlock on termination. *)
Terminating == /\ \A self \in ProcSet: pc[self] = "Done"
               /\ UNCHANGED vars

Next == (\E self \in Threads: t(self))
           \/ Terminating

Spec == /\ Init /\ [][Next]_vars
        /\ \A self \in Threads : WF_vars(t(self))

Termination == <>(\A self \in ProcSet: pc[self] = "Done")

\* END TRANSLATION

-----------------------------------------------------------------------------
(* Properties (C43) *)

TypeOK == /\ key \in {0, 1, 2}
          /\ sleepers \subseteq Threads /\ wakeTok \subseteq Threads
          /\ sleepers \cap wakeTok = {}
          /\ \A th \in sleepers \cup wakeTok : pc[th] = "slp"

(* never two holders *)
MutualExclusion == Cardinality(holder) <= 1

(* the lock word is non-zero while somebody is between acquisition and `unl` *)
HeldImpliesLocked == (\E th \in Threads : pc[th] \in {"cs", "cs2", "unl"}) => key # 0

(* `sys_unlock` never finds an unlocked mutex *)
NoUnlockBug == ~bug

(* a thread asleep without a wake token is covered by key = 2 or by a pending unlock/wake:
   the inductive reason why no wake-up is lost *)
SleeperCovered ==
  (sleepers # {}) => \/ key = 2
                     \/ \E th \in Threads : pc[th] = "wk"
                     \/ wakeTok # {}
                     \/ \E th \in Threads : pc[th] \in {"spin", "scas", "swp", "fw"} /\ wait[th] = 2

Locking == {"cas1", "spin", "scas", "swp", "fw", "slp"}

(* no lost wake-up: under weak fairness of every thread (and no spurious wake-ups to paper
   over a lost one) whoever tries to lock eventually is in the critical section, and all
   threads finish their rounds *)
NoLostWakeup == \A th \in Threads : (pc[th] \in Locking) ~> (pc[th] = "cs")
AllDone      == <>(\A th \in Threads : pc[th] = "Done")
=============================================================================
