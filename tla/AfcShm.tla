--------------------------------- MODULE AfcShm ---------------------------------
(* C40 / C41 / C42 — the AFC channel tables in shared memory
   (`crates/aranya-fast-channels/src/shm/{shared,write,read}.rs`).

   Shared state: two mirrored channel lists ("sides" A and B), each with a futex mutex, an
   atomic `generation` and a list of channels; `read_off` / `write_off` say which side readers /
   the writer use; `next_chan_id`.  ONE writer (`WriteState`, the Aranya daemon) and any number
   of readers (`ReadState`, AFC clients) with a per-context cache (channel id, generation, key
   with its sequence number).

   Implementation-shaped: one label per yield point of the code under the SCHED binding, i.e.
   per access to shared memory that another thread can observe:

   writer (per operation add / remove / remove_if / remove_all):
     wop   (harness) the call is invoked; `add` draws its id (`next_chan_id.fetch_add`,
           before the capacity check, so a failed add still consumes an id)
     wl1   lock the list at `write_off`; early returns (OutOfSpace, nothing to remove) unlock
           and return here
     wb1   `generation.fetch_add`, then the list is changed (push / swap_remove / truncate)
           and the lock released
     ws    `read_off.swap(write_off)`: readers now use the updated list
     wl2   lock the former read list
     wb2   `generation.fetch_add`, same change (by *index* for add/remove), unlock,
           `write_off.store`, the call returns
   reader:
     rop   (harness) the call is invoked: setup_seal_ctx/setup_open_ctx(id), or seal/open on
           the context it holds
     s1/e1 `read_off.load`
     e2    unsynchronised `generation.load` of that list: equal to the cached generation =>
           cache hit, the cached key is used and the call returns
     s2/e3 lock the list (one atomic step: readers change nothing but their own cache): find
           the channel; NotFound, or derive the key at the *cached* sequence number, use it and
           refresh the cache on success

   The property monitors are history variables over call/return events (`removalStarted`,
   `removedDone`, `ever`, per-call `after`), see the invariants at the end.

   `Mutant` selects spec-level mutations used as self-tests (must be rejected by TLC):
     "none"            the code
     "bump_first_only" remove/remove_if/remove_all/add bump the generation of the first list only
     "seq_zero"        a reader that misses its cache re-derives the key at sequence number 0
     "seq_zero_if_moved"  ... only when swap_remove moved the channel to another list slot
     "rm_bump_first"   remove(id) bumps the write list's generation before it looks the id up, so
                       removing an absent id leaves the two generations one apart
     "open_hint_unchecked"  open's lookup trusts the cached slot without comparing the id       *)
EXTENDS Naturals, Sequences, FiniteSets, TLC

CONSTANTS Readers,     \* reader thread ids (1..N)
          Cap,         \* capacity of a channel list (max_chans)
          WScripts,    \* set of writer scripts: sequences of <<"add">>, <<"rm", id>>,
                       \*   <<"rmif", set of ids>>, <<"clear">>
          ROps,        \* calls per reader
          Mutant

NOID == 99
NONE == 0          \* lock owner: nobody
W    == 100        \* lock owner / process id of the writer
Sides == {"A", "B"}

SeqSet(q) == {q[i] : i \in 1..Len(q)}
IndexOf(q, x) == CHOOSE i \in 1..Len(q) : q[i] = x /\ \A j \in 1..(i-1) : q[j] # x
(* ChanListData::swap_remove *)
SwapRemove(q, i) == IF i = Len(q) THEN SubSeq(q, 1, Len(q) - 1)
                    ELSE [j \in 1..(Len(q) - 1) |-> IF j = i THEN q[Len(q)] ELSE q[j]]
(* ChanListData::remove_if: scan from the front, swap_remove matches without advancing *)
RECURSIVE RemoveIfFrom(_, _, _)
RemoveIfFrom(q, S, i) == IF i > Len(q) THEN q
                         ELSE IF q[i] \in S THEN RemoveIfFrom(SwapRemove(q, i), S, i)
                         ELSE RemoveIfFrom(q, S, i + 1)
RemoveIf(q, S) == RemoveIfFrom(q, S, 1)
(* the harness adds seal channels under even and open channels under odd ids *)
Dir(id) == IF id % 2 = 0 THEN "seal" ELSE "open"
Targets(o, present) == CASE o[1] = "rm" -> {o[2]}
                         [] o[1] = "rmif" -> o[2]
                         [] o[1] = "clear" -> present
                         [] OTHER -> {}

(* the lookup under the lock: `find(id, hint)` — the hinted slot is only used when it holds the id,
   otherwise the list is searched; (mutant: `open` trusts a hinted slot that holds an open channel) *)
Found(list, id, what, hint) ==
   \/ id \in SeqSet(list)
   \/ /\ Mutant = "open_hint_unchecked" /\ what = "open"
      /\ hint >= 1 /\ hint <= Len(list) /\ Dir(list[hint]) = "open"

SlotOf(list, id, hint) == IF id \in SeqSet(list) THEN IndexOf(list, id) ELSE hint

(* the sequence number a reader's re-derived key starts at after a cache miss: the cached one *)
ResumeAt(cached, oldIdx, newIdx) ==
   CASE Mutant = "seq_zero" -> 0
     [] Mutant = "seq_zero_if_moved" -> IF oldIdx = newIdx THEN cached ELSE 0
     [] OTHER -> cached

(* --algorithm AfcShm {
  variables gen = [s \in Sides |-> 0],
            chans = [s \in Sides |-> <<>>],
            lock = [s \in Sides |-> NONE],
            read_off = "A", write_off = "B",
            next_id = 0,
            script \in WScripts,
            \* ---- history / monitor variables
            ever = {},             \* ids returned by add
            removalStarted = {},   \* ids targeted by a removal that has been invoked
            removedDone = {},      \* ids targeted by a removal that has returned
            table = {},            \* abstract table after the last completed writer call
            wres = <<>>,           \* results of the writer's calls so far
            bad = {};              \* names of violated call-level predicates
  process (w = W)
    variables k = 1, op = <<"none">>, id = NOID, off = "A", roff = "A", idx = 0, victims = {};
  {
  wop:    op := script[k];
          if (op[1] = "add") { id := next_id; next_id := next_id + 1; }
          else { removalStarted := removalStarted \cup Targets(op, table); };
  wl1:    await lock[write_off] = NONE;
          off := write_off;
          if (op[1] = "add") {
             if (Len(chans[off]) >= Cap) {
                \* OutOfSpace: the lock is released again, the call returns
                if (Cardinality(table) # Cap) { bad := bad \cup {"oos_not_full"}; };
                wres := Append(wres, "oos"); k := k + 1;
                if (k <= Len(script)) { goto wop; } else { goto Done; };
             } else { idx := Len(chans[off]) + 1; lock[off] := W; };
          } else if (op[1] = "rm") {
             if (op[2] \notin SeqSet(chans[off])) {
                \* (mutant: the generation of a non-empty list is bumped before the lookup)
                if (Mutant = "rm_bump_first" /\ Len(chans[off]) > 0) { gen[off] := gen[off] + 1; };
                removedDone := removedDone \cup {op[2]};
                wres := Append(wres, "ok"); k := k + 1;
                if (k <= Len(script)) { goto wop; } else { goto Done; };
             } else { idx := IndexOf(chans[off], op[2]); victims := {op[2]}; lock[off] := W; };
          } else if (op[1] = "rmif") {
             if (Len(chans[off]) = 0) {
                removedDone := removedDone \cup op[2];
                wres := Append(wres, "ok"); k := k + 1;
                if (k <= Len(script)) { goto wop; } else { goto Done; };
             } else {
                victims := op[2] \cap SeqSet(chans[off]);
                \* no match: nothing is bumped, the lists are swapped all the same
                if (victims = {}) { goto ws; } else { lock[off] := W; };
             };
          } else {
             victims := SeqSet(chans[off]); lock[off] := W;
          };
  wb1:    gen[off] := gen[off] + 1;
          chans[off] := CASE op[1] = "add" -> Append(chans[off], id)
                          [] op[1] = "rm" -> SwapRemove(chans[off], idx)
                          [] op[1] = "rmif" -> RemoveIf(chans[off], op[2])
                          [] OTHER -> <<>>;
          lock[off] := NONE;
  ws:     roff := read_off; read_off := off;
  wl2:    await lock[roff] = NONE;
          if (op[1] = "rmif" /\ op[2] \cap SeqSet(chans[roff]) = {}) {
             \* no match on the second list either
             write_off := roff;
             removedDone := removedDone \cup op[2]; table := table \ op[2];
             wres := Append(wres, "ok"); k := k + 1;
             if (k <= Len(script)) { goto wop; } else { goto Done; };
          } else { lock[roff] := W; };
  wb2:    if (Mutant # "bump_first_only") { gen[roff] := gen[roff] + 1; };
          bad := bad \cup (IF op[1] = "add" /\ Len(chans[roff]) # idx - 1 THEN {"sides_out_of_sync"} ELSE {})
                     \cup (IF op[1] = "rm" /\ (idx > Len(chans[roff]) \/ chans[roff][idx] # op[2]) THEN {"sides_out_of_sync"} ELSE {})
                     \cup (IF op[1] = "add" /\ Cardinality(table) = Cap THEN {"add_on_full"} ELSE {})
                     \cup (IF op[1] = "add" /\ (id \in ever \/ id \in table) THEN {"id_reused"} ELSE {});
          chans[roff] := CASE op[1] = "add" -> Append(chans[roff], id)
                           [] op[1] = "rm" -> IF idx <= Len(chans[roff]) THEN SwapRemove(chans[roff], idx) ELSE chans[roff]
                           [] op[1] = "rmif" -> RemoveIf(chans[roff], op[2])
                           [] OTHER -> <<>>;
          lock[roff] := NONE;
          write_off := roff;
          \* the call returns
          if (op[1] = "add") {
             ever := ever \cup {id}; table := table \cup {id};
          } else {
             removedDone := removedDone \cup Targets(op, table);
             table := table \ Targets(op, table);
          };
          wres := Append(wres, "ok");
          k := k + 1;
          if (k <= Len(script)) { goto wop; } else { goto Done; };
  }
  process (r \in Readers)
    variables n = 0, what = "none", ctx = "none", tid = NOID, cid = NOID, cgen = 0, cseq = 0, cidx = 0,
              so = "A", after = FALSE, rfail = FALSE, seqs = <<>>, res = "none";
  {
  rop:    \* the next call is invoked
          either {
             \* setup_seal_ctx / setup_open_ctx for an id some add returned
             await ctx \in {"none", "expired"};
             with (c \in ever) { tid := c; };
             what := "setup";
          } or {
             await ctx \in {"seal", "open"};
             tid := cid; what := ctx;
             if (ctx = "seal") { with (f \in BOOLEAN) { rfail := f; }; } else { rfail := FALSE; };
          };
          after := tid \in removedDone;
          n := n + 1; res := "none";
  l1:     so := read_off;                                 \* read_off.load
          if (what = "setup") { goto lk; };
  e2:     if (gen[so] = cgen) {                           \* generation.load: cache hit
             if (after) { bad := bad \cup {"used_after_remove"}; };
             if (~rfail) {
                res := "ok";
                if (what = "seal") { seqs := Append(seqs, cseq); cseq := cseq + 1; };
             } else { res := "fail"; };
             if (n < ROps) { goto rop; } else { goto Done; };
          };
  lk:     await lock[so] = NONE;                          \* lock, look up, unlock
          if (Found(chans[so], tid, what, cidx)) {
             if (after) { bad := bad \cup {"used_after_remove"}; };
             if (what = "setup") {
                ctx := Dir(tid); cid := tid; cgen := gen[so]; cseq := 0; seqs := <<>>; res := "ok";
                cidx := IndexOf(chans[so], tid);             \* Cache::idx, the lookup hint
             } else if (~rfail) {
                \* key re-derived at the cached sequence number; the cache is refreshed
                if (what = "seal") {
                   seqs := Append(seqs, ResumeAt(cseq, cidx, SlotOf(chans[so], tid, cidx)));
                   cseq := ResumeAt(cseq, cidx, SlotOf(chans[so], tid, cidx)) + 1;
                };
                \* the hint only speeds the lookup up: the channel may have been moved by swap_remove
                cgen := gen[so]; cidx := SlotOf(chans[so], tid, cidx); res := "ok";
             } else { res := "fail"; };
          } else {
             if (tid \notin removalStarted) { bad := bad \cup {"lost_channel"}; };
             if (what = "seal") { ctx := "expired"; };
             res := "notfound";
          };
          if (n < ROps) { goto rop; };
  }
} *)
\* BEGIN TRANSLATION
VARIABLES pc, gen, chans, lock, read_off, write_off, next_id, script, ever, 
          removalStarted, removedDone, table, wres, bad, k, op, id, off, roff, 
          idx, victims, n, what, ctx, tid, cid, cgen, cseq, cidx, so, after, 
          rfail, seqs, res

vars == << pc, gen, chans, lock, read_off, write_off, next_id, script, ever, 
           removalStarted, removedDone, table, wres, bad, k, op, id, off, 
           roff, idx, victims, n, what, ctx, tid, cid, cgen, cseq, cidx, so, 
           after, rfail, seqs, res >>

ProcSet == {W} \cup (Readers)

Init == (* Global variables *)
        /\ gen = [s \in Sides |-> 0]
        /\ chans = [s \in Sides |-> <<>>]
        /\ lock = [s \in Sides |-> NONE]
        /\ read_off = "A"
        /\ write_off = "B"
        /\ next_id = 0
        /\ script \in WScripts
        /\ ever = {}
        /\ removalStarted = {}
        /\ removedDone = {}
        /\ table = {}
        /\ wres = <<>>
        /\ bad = {}
        (* Process w *)
        /\ k = 1
        /\ op = <<"none">>
        /\ id = NOID
        /\ off = "A"
        /\ roff = "A"
        /\ idx = 0
        /\ victims = {}
        (* Process r *)
        /\ n = [self \in Readers |-> 0]
        /\ what = [self \in Readers |-> "none"]
        /\ ctx = [self \in Readers |-> "none"]
        /\ tid = [self \in Readers |-> NOID]
        /\ cid = [self \in Readers |-> NOID]
        /\ cgen = [self \in Readers |-> 0]
        /\ cseq = [self \in Readers |-> 0]
        /\ cidx = [self \in Readers |-> 0]
        /\ so = [self \in Readers |-> "A"]
        /\ after = [self \in Readers |-> FALSE]
        /\ rfail = [self \in Readers |-> FALSE]
        /\ seqs = [self \in Readers |-> <<>>]
        /\ res = [self \in Readers |-> "none"]
        /\ pc = [self \in ProcSet |-> CASE self = W -> "wop"
                                        [] self \in Readers -> "rop"]

wop == /\ pc[W] = "wop"
       /\ op' = script[k]
       /\ IF op'[1] = "add"
             THEN /\ id' = next_id
                  /\ next_id' = next_id + 1
                  /\ UNCHANGED removalStarted
             ELSE /\ removalStarted' = (removalStarted \cup Targets(op', table))
                  /\ UNCHANGED << next_id, id >>
       /\ pc' = [pc EXCEPT ![W] = "wl1"]
       /\ UNCHANGED << gen, chans, lock, read_off, write_off, script, ever, 
                       removedDone, table, wres, bad, k, off, roff, idx, 
                       victims, n, what, ctx, tid, cid, cgen, cseq, cidx, so, 
                       after, rfail, seqs, res >>

wl1 == /\ pc[W] = "wl1"
       /\ lock[write_off] = NONE
       /\ off' = write_off
       /\ IF op[1] = "add"
             THEN /\ IF Len(chans[off']) >= Cap
                        THEN /\ IF Cardinality(table) # Cap
                                   THEN /\ bad' = (bad \cup {"oos_not_full"})
                                   ELSE /\ TRUE
                                        /\ bad' = bad
                             /\ wres' = Append(wres, "oos")
                             /\ k' = k + 1
                             /\ IF k' <= Len(script)
                                   THEN /\ pc' = [pc EXCEPT ![W] = "wop"]
                                   ELSE /\ pc' = [pc EXCEPT ![W] = "Done"]
                             /\ UNCHANGED << lock, idx >>
                        ELSE /\ idx' = Len(chans[off']) + 1
                             /\ lock' = [lock EXCEPT ![off'] = W]
                             /\ pc' = [pc EXCEPT ![W] = "wb1"]
                             /\ UNCHANGED << wres, bad, k >>
                  /\ UNCHANGED << gen, removedDone, victims >>
             ELSE /\ IF op[1] = "rm"
                        THEN /\ IF op[2] \notin SeqSet(chans[off'])
                                   THEN /\ IF Mutant = "rm_bump_first" /\ Len(chans[off']) > 0
                                              THEN /\ gen' = [gen EXCEPT ![off'] = gen[off'] + 1]
                                              ELSE /\ TRUE
                                                   /\ gen' = gen
                                        /\ removedDone' = (removedDone \cup {op[2]})
                                        /\ wres' = Append(wres, "ok")
                                        /\ k' = k + 1
                                        /\ IF k' <= Len(script)
                                              THEN /\ pc' = [pc EXCEPT ![W] = "wop"]
                                              ELSE /\ pc' = [pc EXCEPT ![W] = "Done"]
                                        /\ UNCHANGED << lock, idx, victims >>
                                   ELSE /\ idx' = IndexOf(chans[off'], op[2])
                                        /\ victims' = {op[2]}
                                        /\ lock' = [lock EXCEPT ![off'] = W]
                                        /\ pc' = [pc EXCEPT ![W] = "wb1"]
                                        /\ UNCHANGED << gen, removedDone, wres, 
                                                        k >>
                        ELSE /\ IF op[1] = "rmif"
                                   THEN /\ IF Len(chans[off']) = 0
                                              THEN /\ removedDone' = (removedDone \cup op[2])
                                                   /\ wres' = Append(wres, "ok")
                                                   /\ k' = k + 1
                                                   /\ IF k' <= Len(script)
                                                         THEN /\ pc' = [pc EXCEPT ![W] = "wop"]
                                                         ELSE /\ pc' = [pc EXCEPT ![W] = "Done"]
                                                   /\ UNCHANGED << lock, 
                                                                   victims >>
                                              ELSE /\ victims' = (op[2] \cap SeqSet(chans[off']))
                                                   /\ IF victims' = {}
                                                         THEN /\ pc' = [pc EXCEPT ![W] = "ws"]
                                                              /\ lock' = lock
                                                         ELSE /\ lock' = [lock EXCEPT ![off'] = W]
                                                              /\ pc' = [pc EXCEPT ![W] = "wb1"]
                                                   /\ UNCHANGED << removedDone, 
                                                                   wres, k >>
                                   ELSE /\ victims' = SeqSet(chans[off'])
                                        /\ lock' = [lock EXCEPT ![off'] = W]
                                        /\ pc' = [pc EXCEPT ![W] = "wb1"]
                                        /\ UNCHANGED << removedDone, wres, k >>
                             /\ UNCHANGED << gen, idx >>
                  /\ bad' = bad
       /\ UNCHANGED << chans, read_off, write_off, next_id, script, ever, 
                       removalStarted, table, op, id, roff, n, what, ctx, tid, 
                       cid, cgen, cseq, cidx, so, after, rfail, seqs, res >>

wb1 == /\ pc[W] = "wb1"
       /\ gen' = [gen EXCEPT ![off] = gen[off] + 1]
       /\ chans' = [chans EXCEPT ![off] = CASE op[1] = "add" -> Append(chans[off], id)
                                            [] op[1] = "rm" -> SwapRemove(chans[off], idx)
                                            [] op[1] = "rmif" -> RemoveIf(chans[off], op[2])
                                            [] OTHER -> <<>>]
       /\ lock' = [lock EXCEPT ![off] = NONE]
       /\ pc' = [pc EXCEPT ![W] = "ws"]
       /\ UNCHANGED << read_off, write_off, next_id, script, ever, 
                       removalStarted, removedDone, table, wres, bad, k, op, 
                       id, off, roff, idx, victims, n, what, ctx, tid, cid, 
                       cgen, cseq, cidx, so, after, rfail, seqs, res >>

ws == /\ pc[W] = "ws"
      /\ roff' = read_off
      /\ read_off' = off
      /\ pc' = [pc EXCEPT ![W] = "wl2"]
      /\ UNCHANGED << gen, chans, lock, write_off, next_id, script, ever, 
                      removalStarted, removedDone, table, wres, bad, k, op, id, 
                      off, idx, victims, n, what, ctx, tid, cid, cgen, cseq, 
                      cidx, so, after, rfail, seqs, res >>

wl2 == /\ pc[W] = "wl2"
       /\ lock[roff] = NONE
       /\ IF op[1] = "rmif" /\ op[2] \cap SeqSet(chans[roff]) = {}
             THEN /\ write_off' = roff
                  /\ removedDone' = (removedDone \cup op[2])
                  /\ table' = table \ op[2]
                  /\ wres' = Append(wres, "ok")
                  /\ k' = k + 1
                  /\ IF k' <= Len(script)
                        THEN /\ pc' = [pc EXCEPT ![W] = "wop"]
                        ELSE /\ pc' = [pc EXCEPT ![W] = "Done"]
                  /\ lock' = lock
             ELSE /\ lock' = [lock EXCEPT ![roff] = W]
                  /\ pc' = [pc EXCEPT ![W] = "wb2"]
                  /\ UNCHANGED << write_off, removedDone, table, wres, k >>
       /\ UNCHANGED << gen, chans, read_off, next_id, script, ever, 
                       removalStarted, bad, op, id, off, roff, idx, victims, n, 
                       what, ctx, tid, cid, cgen, cseq, cidx, so, after, rfail, 
                       seqs, res >>

wb2 == /\ pc[W] = "wb2"
       /\ IF Mutant # "bump_first_only"
             THEN /\ gen' = [gen EXCEPT ![roff] = gen[roff] + 1]
             ELSE /\ TRUE
                  /\ gen' = gen
       /\ bad' = (bad \cup (IF op[1] = "add" /\ Len(chans[roff]) # idx - 1 THEN {"sides_out_of_sync"} ELSE {})
                      \cup (IF op[1] = "rm" /\ (idx > Len(chans[roff]) \/ chans[roff][idx] # op[2]) THEN {"sides_out_of_sync"} ELSE {})
                      \cup (IF op[1] = "add" /\ Cardinality(table) = Cap THEN {"add_on_full"} ELSE {})
                      \cup (IF op[1] = "add" /\ (id \in ever \/ id \in table) THEN {"id_reused"} ELSE {}))
       /\ chans' = [chans EXCEPT ![roff] = CASE op[1] = "add" -> Append(chans[roff], id)
                                             [] op[1] = "rm" -> IF idx <= Len(chans[roff]) THEN SwapRemove(chans[roff], idx) ELSE chans[roff]
                                             [] op[1] = "rmif" -> RemoveIf(chans[roff], op[2])
                                             [] OTHER -> <<>>]
       /\ lock' = [lock EXCEPT ![roff] = NONE]
       /\ write_off' = roff
       /\ IF op[1] = "add"
             THEN /\ ever' = (ever \cup {id})
                  /\ table' = (table \cup {id})
                  /\ UNCHANGED removedDone
             ELSE /\ removedDone' = (removedDone \cup Targets(op, table))
                  /\ table' = table \ Targets(op, table)
                  /\ ever' = ever
       /\ wres' = Append(wres, "ok")
       /\ k' = k + 1
       /\ IF k' <= Len(script)
             THEN /\ pc' = [pc EXCEPT ![W] = "wop"]
             ELSE /\ pc' = [pc EXCEPT ![W] = "Done"]
       /\ UNCHANGED << read_off, next_id, script, removalStarted, op, id, off, 
                       roff, idx, victims, n, what, ctx, tid, cid, cgen, cseq, 
                       cidx, so, after, rfail, seqs, res >>

w == wop \/ wl1 \/ wb1 \/ ws \/ wl2 \/ wb2

rop(self) == /\ pc[self] = "rop"
             /\ \/ /\ ctx[self] \in {"none", "expired"}
                   /\ \E c \in ever:
                        tid' = [tid EXCEPT ![self] = c]
                   /\ what' = [what EXCEPT ![self] = "setup"]
                   /\ rfail' = rfail
                \/ /\ ctx[self] \in {"seal", "open"}
                   /\ tid' = [tid EXCEPT ![self] = cid[self]]
                   /\ what' = [what EXCEPT ![self] = ctx[self]]
                   /\ IF ctx[self] = "seal"
                         THEN /\ \E f \in BOOLEAN:
                                   rfail' = [rfail EXCEPT ![self] = f]
                         ELSE /\ rfail' = [rfail EXCEPT ![self] = FALSE]
             /\ after' = [after EXCEPT ![self] = tid'[self] \in removedDone]
             /\ n' = [n EXCEPT ![self] = n[self] + 1]
             /\ res' = [res EXCEPT ![self] = "none"]
             /\ pc' = [pc EXCEPT ![self] = "l1"]
             /\ UNCHANGED << gen, chans, lock, read_off, write_off, next_id, 
                             script, ever, removalStarted, removedDone, table, 
                             wres, bad, k, op, id, off, roff, idx, victims, 
                             ctx, cid, cgen, cseq, cidx, so, seqs >>

l1(self) == /\ pc[self] = "l1"
            /\ so' = [so EXCEPT ![self] = read_off]
            /\ IF what[self] = "setup"
                  THEN /\ pc' = [pc EXCEPT ![self] = "lk"]
                  ELSE /\ pc' = [pc EXCEPT ![self] = "e2"]
            /\ UNCHANGED << gen, chans, lock, read_off, write_off, next_id, 
                            script, ever, removalStarted, removedDone, table, 
                            wres, bad, k, op, id, off, roff, idx, victims, n, 
                            what, ctx, tid, cid, cgen, cseq, cidx, after, 
                            rfail, seqs, res >>

e2(self) == /\ pc[self] = "e2"
            /\ IF gen[so[self]] = cgen[self]
                  THEN /\ IF after[self]
                             THEN /\ bad' = (bad \cup {"used_after_remove"})
                             ELSE /\ TRUE
                                  /\ bad' = bad
                       /\ IF ~rfail[self]
                             THEN /\ res' = [res EXCEPT ![self] = "ok"]
                                  /\ IF what[self] = "seal"
                                        THEN /\ seqs' = [seqs EXCEPT ![self] = Append(seqs[self], cseq[self])]
                                             /\ cseq' = [cseq EXCEPT ![self] = cseq[self] + 1]
                                        ELSE /\ TRUE
                                             /\ UNCHANGED << cseq, seqs >>
                             ELSE /\ res' = [res EXCEPT ![self] = "fail"]
                                  /\ UNCHANGED << cseq, seqs >>
                       /\ IF n[self] < ROps
                             THEN /\ pc' = [pc EXCEPT ![self] = "rop"]
                             ELSE /\ pc' = [pc EXCEPT ![self] = "Done"]
                  ELSE /\ pc' = [pc EXCEPT ![self] = "lk"]
                       /\ UNCHANGED << bad, cseq, seqs, res >>
            /\ UNCHANGED << gen, chans, lock, read_off, write_off, next_id, 
                            script, ever, removalStarted, removedDone, table, 
                            wres, k, op, id, off, roff, idx, victims, n, what, 
                            ctx, tid, cid, cgen, cidx, so, after, rfail >>

lk(self) == /\ pc[self] = "lk"
            /\ lock[so[self]] = NONE
            /\ IF Found(chans[so[self]], tid[self], what[self], cidx[self])
                  THEN /\ IF after[self]
                             THEN /\ bad' = (bad \cup {"used_after_remove"})
                             ELSE /\ TRUE
                                  /\ bad' = bad
                       /\ IF what[self] = "setup"
                             THEN /\ ctx' = [ctx EXCEPT ![self] = Dir(tid[self])]
                                  /\ cid' = [cid EXCEPT ![self] = tid[self]]
                                  /\ cgen' = [cgen EXCEPT ![self] = gen[so[self]]]
                                  /\ cseq' = [cseq EXCEPT ![self] = 0]
                                  /\ seqs' = [seqs EXCEPT ![self] = <<>>]
                                  /\ res' = [res EXCEPT ![self] = "ok"]
                                  /\ cidx' = [cidx EXCEPT ![self] = IndexOf(chans[so[self]], tid[self])]
                             ELSE /\ IF ~rfail[self]
                                        THEN /\ IF what[self] = "seal"
                                                   THEN /\ seqs' = [seqs EXCEPT ![self] = Append(seqs[self], ResumeAt(cseq[self], cidx[self], SlotOf(chans[so[self]], tid[self], cidx[self])))]
                                                        /\ cseq' = [cseq EXCEPT ![self] = ResumeAt(cseq[self], cidx[self], SlotOf(chans[so[self]], tid[self], cidx[self])) + 1]
                                                   ELSE /\ TRUE
                                                        /\ UNCHANGED << cseq, 
                                                                        seqs >>
                                             /\ cgen' = [cgen EXCEPT ![self] = gen[so[self]]]
                                             /\ cidx' = [cidx EXCEPT ![self] = SlotOf(chans[so[self]], tid[self], cidx[self])]
                                             /\ res' = [res EXCEPT ![self] = "ok"]
                                        ELSE /\ res' = [res EXCEPT ![self] = "fail"]
                                             /\ UNCHANGED << cgen, cseq, cidx, 
                                                             seqs >>
                                  /\ UNCHANGED << ctx, cid >>
                  ELSE /\ IF tid[self] \notin removalStarted
                             THEN /\ bad' = (bad \cup {"lost_channel"})
                             ELSE /\ TRUE
                                  /\ bad' = bad
                       /\ IF what[self] = "seal"
                             THEN /\ ctx' = [ctx EXCEPT ![self] = "expired"]
                             ELSE /\ TRUE
                                  /\ ctx' = ctx
                       /\ res' = [res EXCEPT ![self] = "notfound"]
                       /\ UNCHANGED << cid, cgen, cseq, cidx, seqs >>
            /\ IF n[self] < ROps
                  THEN /\ pc' = [pc EXCEPT ![self] = "rop"]
                  ELSE /\ pc' = [pc EXCEPT ![self] = "Done"]
            /\ UNCHANGED << gen, chans, lock, read_off, write_off, next_id, 
                            script, ever, removalStarted, removedDone, table, 
                            wres, k, op, id, off, roff, idx, victims, n, what, 
                            tid, so, after, rfail >>

r(self) == rop(self) \/ l1(self) \/ e2(self) \/ lk(self)

(* Allow infinite stuttering to prevent deadlock on termination. *)
Terminating == /\ \A self \in ProcSet: pc[self] = "Done"
               /\ UNCHANGED vars

Next == w
           \/ (\E self \in Readers: r(self))
           \/ Terminating

Spec == Init /\ [][Next]_vars

Termination == <>(\A self \in ProcSet: pc[self] = "Done")

\* END TRANSLATION

-----------------------------------------------------------------------------
WriterIdle == pc[W] \in {"wop", "Done"}

TypeOK == /\ read_off \in Sides /\ write_off \in Sides
          /\ \A s \in Sides : lock[s] \in {NONE, W}

(* C40: within one seal context the successful seals carry 0, 1, 2, ... *)
SeqsOk == \A rr \in Readers : \A i \in 1..Len(seqs[rr]) : seqs[rr][i] = i - 1

(* C41: a seal/open/setup invoked after a removal of its channel returned never finds the
   channel; a channel no removal was invoked for is never lost *)
RemovalEffective == "used_after_remove" \notin bad
NoLostChannel    == "lost_channel" \notin bad
(* removed ids never reappear in a list once the removal returned and the writer is idle *)
NoResurrection == WriterIdle => \A s \in Sides : SeqSet(chans[s]) \cap removedDone = {}

(* C42 *)
SidesEqualWhenIdle == WriterIdle => (chans["A"] = chans["B"] /\ gen["A"] = gen["B"] /\ read_off # write_off)
TableIsModel       == WriterIdle => SeqSet(chans[read_off]) = table
NoDuplicates       == \A s \in Sides : Cardinality(SeqSet(chans[s])) = Len(chans[s])
WithinCap          == \A s \in Sides : Len(chans[s]) <= Cap
(* a list a reader may lock holds the table before or after the writer call in progress *)
Produced == {table} \cup (IF WriterIdle THEN {} ELSE
               {IF op[1] = "add" THEN table \cup {id} ELSE table \ Targets(op, table)})
ReaderSeesProduced == \A s \in Sides : lock[s] = NONE => SeqSet(chans[s]) \in Produced
OutOfSpaceIffFull == {"oos_not_full", "add_on_full"} \cap bad = {}
IdsNeverReused    == "id_reused" \notin bad
InSync            == "sides_out_of_sync" \notin bad
=============================================================================
