--------------------------- MODULE MC_TraversalQueue ---------------------------
(* Bounds for model checking TraversalQueue (the base module is unbounded). *)
EXTENDS TraversalQueue
CONSTANTS MaxEntries,   \* transitions into a queue with more entries are cut
          SimDepth      \* simulation: history length at which the behaviour is emitted
Bound == Len(q') <= MaxEntries                       \* ACTION_CONSTRAINT
EmitBounded == Bound /\ EmitStep                     \* ACTION_CONSTRAINT (S2I emission)
EmitSim == Len(hist) = SimDepth => PrintT("REPLAY " \o ToJson([h |-> hist]))
================================================================================
