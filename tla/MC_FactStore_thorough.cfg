\* C12 thorough tier: compaction limit 3, up to 4 commands / 4 updates over 4 segments; all
\* refinement invariants in every state (design level, no history).
SPECIFICATION Spec
CONSTANTS
  Names = {"x"}
  Keys <- MCKeys
  ValChoice <- MCVal
  OpenCands <- Locs
  MergeCands <- AllPairs
  MaxDepth = 3
  Record = FALSE
  Fat = FALSE
  MaxSegs = 4
  MaxCmds = 2
  MaxCur = 1
  MaxCps = 0
  MaxTotCmds = 4
  MaxTotUps = 4
  MaxFUps = 0
  MaxIdx = 7
  NoErr = TRUE
  SimDepth = 0
ACTION_CONSTRAINT Bound
VIEW View
INVARIANTS SegRefines MidRefines PerspRefines FactPerspRefines ChainOK PriorFactsOK
PROPERTIES RevertExact
CHECK_DEADLOCK FALSE
