\* C40/C41 on memory::State: 5 writer scripts of 3 calls, two readers with 3 calls each (also the schedule graph).
SPECIFICATION Spec
CONSTANTS
  Readers = {1, 2}
  WScripts <- Scripts
  Mutant = "none"
  ROps = 3
INVARIANTS SeqsOk SingleContext RemovalEffective NoLostChannel NoResurrection NoUseAfterFree FreedOnce NoEarlyFree
CHECK_DEADLOCK FALSE
