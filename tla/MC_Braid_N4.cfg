\* N=4 exhaustive (58 789 DAGs), one in 6 emitted for replay
SPECIFICATION Spec
CONSTANTS
  MergeTag = 2
  N = 4
  Kinds = {"b0", "b1", "fin"}
  Ops = {"n"}
  EmitEvery = 6
  EmitSalt = 0
INVARIANTS InvAlgEqRef InvLcaWalk InvFoldWalk InvFinalize InvOnce InvDominator InvFinalizeFirst Emit
CHECK_DEADLOCK FALSE
