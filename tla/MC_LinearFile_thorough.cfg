SPECIFICATION Spec
CONSTANTS
  HdrLen = 1
  SlotA = 0
  SlotB = 4
  FreeStart = 8
  Chunk = 6
  BodySizes = {1, 2}
  RootSizes = {2, 3}
  ScrubLen = 4
  MaxCommits = 3
  MaxAppends = 1
  MaxCrashes = 1
  MaxCloses = 1
  PostCommits = 1
  Mutant = "none"
INVARIANTS TypeOK Recoverable CleanReopen DurableRootsSound NothingNewerVisible WithinAlloc FailOnlyBeforeFirstCommit
CHECK_DEADLOCK FALSE
