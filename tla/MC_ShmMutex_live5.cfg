\* C43: liveness with the code's PASSIVE_SPIN = 5: 2 threads x 2 rounds, no spurious wake-ups.
SPECIFICATION Spec
CONSTANTS
  Threads = {1, 2}
  Rounds = 2
  MoreRounds = {}
  PassiveSpin = 5
  Spurious = FALSE
  WakeOn = 2
INVARIANTS TypeOK MutualExclusion HeldImpliesLocked NoUnlockBug SleeperCovered
PROPERTIES NoLostWakeup AllDone
