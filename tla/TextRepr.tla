-------------------------------- MODULE TextRepr --------------------------------
(* C32 — `aranya_policy_text::{Text, Identifier}` and their storage `repr::Repr`.

   TABLE binding (DESIGN §2.1).  Two tables, each enumerated cell by cell by TLC:

   (1) construction:  kind x content class x length x construction path.
       A constructor is modelled as the pipeline the code runs,
            decode (carrier -> str)  ->  validate (kind)  ->  store (choose the storage form)
       one action per stage; a failing stage yields "error".  The invariant `ExistsIffValid`
       says a value exists iff the content is valid for the kind — whatever the path.
       `SkipValidate` is the set of paths on which the design forgets to validate (empty in
       the property's design; MC_TextRepr_skip.cfg puts the rkyv path in it to show the
       invariant notices).

   (2) comparison:  kind x content class x relation of the two contents x the two paths
       (hence storage forms: static / inline / heap / archived) x length.
       `Eq`, `Ord` (and `Hash`, `const_eq`, `Borrow<str>`) must be those of the contents.
       `OrdByForm` is the design switch for the derived-`Ord`-on-the-enum mistake (compare the
       storage discriminant first); MC_TextRepr_ordform.cfg shows `CompareByContent` notices.
       `HeapLenFirst` is the switch for a length-first shortcut between two heap values
       (MC_TextRepr_lenfirst.cfg).

   Content classes (bytes are chosen by the harness inside the class, seeded):
     empty     ""                               ident     [a-zA-Z][a-zA-Z0-9_]*
     digit0    starts with a digit               under0    starts with '_'
     punct     an ASCII byte outside [a-zA-Z0-9_] at a later position (space, '-', '.')
     nonascii0 / nonascii   a multi-byte UTF-8 scalar at the first / a later position
     nul0 / nulmid / nullast   a NUL byte at the first / a middle / the last position
     badutf8   not UTF-8 (only carriers made of bytes can hold it)
   Lengths in bytes: 0, 1, 3, 21, 22, 23, 1024 — `Repr` stores up to MAX_INLINE = 22 bytes
   inline and allocates a reference-counted heap string above that.                          *)
EXTENDS Naturals, Sequences, FiniteSets, TLC, Json

CONSTANTS MaxInline,      \* 22
          Lens,           \* byte lengths to try
          StaticLens,     \* lengths for which the harness has `text!`/`ident!` literals
          SkipValidate,   \* design switch: paths that skip validation
          OrdByForm,      \* design switch: Ord compares the storage form first
          HeapLenFirst    \* design switch: two heap values of different length compare by length

Kinds == {"text", "ident"}
Classes == {"empty", "ident", "digit0", "under0", "punct", "nonascii0", "nonascii",
            "nul0", "nulmid", "nullast", "badutf8"}

(* construction paths and the carrier that brings the content to them *)
StrPaths   == {"from_str", "try_from_string", "try_from_text"}   \* &str / String / Text
BytePaths  == {"json", "postcard", "rkyv_access", "rkyv_from_bytes", "rkyv_archived_deserialize"}
CStrPaths  == {"cstr"}
ValuePaths == {"static", "add", "from_ident", "clone", "default"} \* built from values that exist
Paths == StrPaths \cup BytePaths \cup CStrPaths \cup ValuePaths

MinLen(cl) == CASE cl = "empty" -> 0
                [] cl \in {"ident", "digit0", "under0", "nul0", "badutf8"} -> 1
                [] cl \in {"punct", "nullast"} -> 2
                [] OTHER -> 3        \* nonascii0, nonascii, nulmid (a 2-byte scalar + 1)
Contents == { c \in [class : Classes, len : Lens] :
                /\ (c.class = "empty") = (c.len = 0)
                /\ c.len >= MinLen(c.class) }

TextValid(c)  == c.class \notin {"nul0", "nulmid", "nullast", "badutf8"}
IdentValid(c) == c.class = "ident"
Valid(k, c)   == IF k = "text" THEN TextValid(c) ELSE IdentValid(c)

(* which (kind, path, content) combinations can be presented at all *)
Applicable(k, p, c) ==
  /\ p \in StrPaths => c.class # "badutf8"                    \* a &str is UTF-8 by type
  /\ p = "try_from_text" => (k = "ident" /\ TextValid(c))     \* needs a Text to start from
  /\ p = "rkyv_archived_deserialize" => k = "ident"           \* ArchivedIdentifier::deserialize
  /\ p \in CStrPaths => (k = "text" /\ c.class \notin {"nul0", "nulmid", "nullast"})
  /\ p \in ValuePaths => Valid(k, c)                           \* macros reject at compile time
  /\ p = "static" => c.len \in StaticLens
  /\ p = "add" => (k = "text" /\ c.len >= 2)
  /\ p = "from_ident" => (k = "text" /\ IdentValid(c))
  /\ p = "default" => (k = "text" /\ c.class = "empty")

Form(p, c) == IF p \in {"static", "default"} THEN "static"
              ELSE IF c.len <= MaxInline THEN "inline" ELSE "heap"

----------------------------------------------------------------------------------
(* comparison table *)
(* longer_lt / shorter_gt: the lengths differ and the content order is the opposite of the
   length order (a longer but smaller; a shorter but greater) — a length-first "fast path"
   gets exactly these wrong *)
Rels == {"same", "a_prefix_of_b", "b_prefix_of_a", "first_lt", "first_gt", "last_lt", "last_gt",
         "longer_lt", "shorter_gt"}
CmpPaths == {"static", "from_str", "json", "postcard", "rkyv_from_bytes", "clone", "archived"}
CmpClasses == {"ident", "nonascii"}            \* nonascii: byte order vs signed/char order

Expected(rel) == CASE rel = "same" -> "eq"
                   [] rel \in {"a_prefix_of_b", "first_lt", "last_lt", "longer_lt"} -> "lt"
                   [] OTHER -> "gt"

Pairs == { q \in [kind : Kinds, class : CmpClasses, len : Lens \ {0}, rel : Rels,
                  pa : CmpPaths, pb : CmpPaths] :
             /\ Valid(q.kind, [class |-> q.class, len |-> q.len])
             /\ q.len >= 3
             /\ (q.pa = "archived") = (q.pb = "archived")      \* archived values compare with each other
             /\ (q.pa = "static" \/ q.pb = "static") => q.len \in StaticLens
             /\ (q.pa = "static" /\ q.pb = "static") => q.rel = "same" }

FormRank(f) == CASE f = "static" -> 0 [] f = "inline" -> 1 [] f = "heap" -> 2 [] OTHER -> 3
PairForm(p, len) == IF p = "archived" THEN "archived" ELSE Form(p, [class |-> "ident", len |-> len])

(* the comparison the design computes *)
Compare(q) ==
  LET fa == FormRank(PairForm(q.pa, q.len))
      fb == FormRank(PairForm(q.pb, q.len))
      lenrel == CASE q.rel \in {"a_prefix_of_b", "shorter_gt"} -> "shorter"
                  [] q.rel \in {"b_prefix_of_a", "longer_lt"} -> "longer"
                  [] OTHER -> "same"
  IN IF OrdByForm /\ fa # fb THEN (IF fa < fb THEN "lt" ELSE "gt")
     ELSE IF HeapLenFirst /\ fa = 2 /\ fb = 2 /\ lenrel # "same"
          THEN (IF lenrel = "shorter" THEN "lt" ELSE "gt")
     ELSE Expected(q.rel)

----------------------------------------------------------------------------------
VARIABLES mode,    \* "construct" | "compare"
          cell,    \* the cell of the table being evaluated
          pc,      \* stage
          result   \* "pending" | "value" | "error" | "eq" | "lt" | "gt"

vars == <<mode, cell, pc, result>>

Init ==
  \/ /\ mode = "construct"
     /\ cell \in { x \in [kind : Kinds, path : Paths, content : Contents] :
                      Applicable(x.kind, x.path, x.content) }
     /\ pc = "decode" /\ result = "pending"
  \/ /\ mode = "compare"
     /\ cell \in Pairs
     /\ pc = "compare" /\ result = "pending"

Fail == pc' = "done" /\ result' = "error" /\ UNCHANGED <<mode, cell>>

(* carrier -> str: serde / rkyv `ArchivedString` CheckBytes / CStr::to_str reject non-UTF-8 *)
Decode == /\ mode = "construct" /\ pc = "decode"
          /\ IF cell.content.class = "badutf8" THEN Fail
             ELSE pc' = "validate" /\ UNCHANGED <<mode, cell, result>>

(* Text::validate / Identifier::validate (bytecheck::Verify on the rkyv paths) *)
Validate == /\ mode = "construct" /\ pc = "validate"
            /\ IF cell.path \notin SkipValidate /\ ~Valid(cell.kind, cell.content) THEN Fail
               ELSE pc' = "store" /\ UNCHANGED <<mode, cell, result>>

(* Repr::from_str / Repr::from_static *)
Store == /\ mode = "construct" /\ pc = "store"
         /\ pc' = "done" /\ result' = "value" /\ UNCHANGED <<mode, cell>>

CompareStep == /\ mode = "compare" /\ pc = "compare"
               /\ pc' = "done" /\ result' = Compare(cell) /\ UNCHANGED <<mode, cell>>

Next == Decode \/ Validate \/ Store \/ CompareStep
Spec == Init /\ [][Next]_vars

----------------------------------------------------------------------------------
(* Properties (C32) *)
Done == pc = "done"

(* every value, however produced, satisfies its invariant: it exists iff the content is valid *)
ExistsIffValid ==
  (Done /\ mode = "construct") => ((result = "value") <=> Valid(cell.kind, cell.content))

(* equality / ordering depend only on the content, not on the storage form *)
CompareByContent == (Done /\ mode = "compare") => result = Expected(cell.rel)

----------------------------------------------------------------------------------
Emit ==
  Done => PrintT("REPLAY " \o ToJson(
            IF mode = "construct"
            THEN [mode |-> mode, kind |-> cell.kind, path |-> cell.path,
                  class |-> cell.content.class, len |-> cell.content.len,
                  exists |-> result = "value", form |-> Form(cell.path, cell.content)]
            ELSE [mode |-> mode, kind |-> cell.kind, class |-> cell.class, len |-> cell.len,
                  rel |-> cell.rel, pa |-> cell.pa, pb |-> cell.pb, expect |-> result,
                  fa |-> PairForm(cell.pa, cell.len), fb |-> PairForm(cell.pb, cell.len)]))
=================================================================================
