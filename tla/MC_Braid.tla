------------------------------- MODULE MC_Braid -------------------------------
(* Exhaustive growth of command DAGs and design-level check of the braid (C02, C03, C05,
   parts of C04/C09/C11), plus S2I emission: every reachable DAG is one replay case for the
   `graph` engine (`vh-graph braid`): the DAG is delivered into a real replica and committed,
   and the real fact state / error is compared with RefBraid's.                             *)
EXTENDS Braid, Json

CONSTANTS N,          \* commands beyond init
          Kinds,      \* subset of {"b0", "b1", "fin"}
          Ops,        \* subset of {"n", "s", "d", "x"}
          EmitEvery,  \* emit one REPLAY line for one state in EmitEvery (deterministic checksum)
          EmitSalt    \* which residue class is emitted (the driver passes VERIF_SEED)

UsedRanks == {dag[c].rank : c \in Nodes}

Init == dag = << [par |-> <<>>, kind |-> "init", prio |-> 0, rank |-> 0, lca |-> 1, op |-> "n"] >>

AddBasic ==
  /\ Len(dag) < N + 1
  /\ \E p \in Nodes, k \in Kinds, r \in (1..N) \ UsedRanks, o \in Ops :
       /\ AcceptedAtOrigin(p, o)
       /\ dag' = Append(dag, [par |-> <<p>>, kind |-> IF k = "fin" THEN "fin" ELSE "b",
                              prio |-> IF k = "b1" THEN 1 ELSE 0, rank |-> r, lca |-> 1, op |-> o])

AddMerge ==
  /\ Len(dag) < N + 1
  /\ \E l \in Nodes, r \in Nodes :
       /\ l < r /\ Concurrent(l, r)
       /\ ~RefBraid({l, r}).err
       /\ ~\E m \in Nodes : IsMerge(m) /\ ParSet(m) = {l, r}
       /\ dag' = Append(dag, [par |-> IF IdLess(l, r) THEN <<l, r>> ELSE <<r, l>>, kind |-> "merge",
                              prio |-> 0, rank |-> 0, lca |-> Lca({l, r}), op |-> "n"])

Next == AddBasic \/ AddMerge
Spec == Init /\ [][Next]_dag

--------------------------------------------------------------------------------
AllAntichains == {H \in SUBSET Nodes : Cardinality(H) \in 2..3 /\ IsAntichain(H)}
(* only antichains containing the newest node: older ones were checked in the predecessor *)
Antichains == {H \in AllAntichains : Len(dag) \in H}

(* the braid of the code equals the reference braid (C03 design level) *)
InvAlgEqRef == \A H \in Antichains : AlgBraid(H) = RefBraid(H)
(* the pairwise walk finds the deepest common chain element, in any fold order *)
InvLcaWalk == \A a \in Nodes : Walk(a, Len(dag)) = Lca({a, Len(dag)}) /\ Walk(Len(dag), a) = Lca({a, Len(dag)})
InvFoldWalk == \A H \in Antichains : LET s == SortedById(H) IN FoldWalk(s[1], Tail(s)) = Lca(H)
(* C05 *)
InvFinalize == \A H \in Antichains :
  RefBraid(H).err <=> (\E f \in Region(H, Lca(H)), g \in Region(H, Lca(H)) : IsFin(f) /\ IsFin(g) /\ Concurrent(f, g))
(* C02: every non-merge ancestor exactly once, ancestors first, no merge *)
InvOnce == \A H \in Antichains : ~RefBraid(H).err =>
  LET s == BraidOrder(H) IN
    /\ Len(s) = Cardinality(SeqSet(s))
    /\ SeqSet(s) = NonMerge(AncSelfSet(H))
    /\ \A i \in 1..Len(s), j \in 1..Len(s) : s[i] \in Anc(s[j]) => i < j
(* soundness of the max_cut cut-off *)
InvDominator == \A H \in Antichains : \A c \in AncSelfSet(H) :
  Mc(c) <= Mc(Lca(H)) => c \in AncSelf(Lca(H))
(* finalize first: a finalize command precedes everything concurrent with it *)
InvFinalizeFirst == \A H \in Antichains : ~RefBraid(H).err =>
  LET s == BraidOrder(H) IN
  \A i \in 1..Len(s), j \in 1..Len(s) : (IsFin(s[i]) /\ Concurrent(s[i], s[j])) => i < j

--------------------------------------------------------------------------------
(* S2I emission *)
Frontier == HeadsOf(Nodes)
Cmd(c) == [n |-> c, par |-> Par(c), kind |-> dag[c].kind, prio |-> dag[c].prio, id |-> IdOf(c),
           op |-> dag[c].op, mc |-> Mc(c)]
Case ==
  LET H == Frontier
      multi == Cardinality(H) >= 2
      rb == IF multi THEN RefBraid(H) ELSE [order |-> <<>>, err |-> FALSE]
      hs == SortedById(H)
  IN [cmds  |-> [c \in Nodes |-> Cmd(c)],
      heads |-> hs,
      err   |-> rb.err,
      push  |-> rb.order,
      seq   |-> IF rb.err THEN <<>> ELSE (IF multi THEN BraidOrder(H) ELSE OrderAt(hs[1])),
      facts |-> IF rb.err THEN EmptyFacts ELSE FactsOf(H),
      hello |-> HelloId(H)]
RECURSIVE Checksum(_)
Checksum(c) == IF c = 0 THEN 0
               ELSE Checksum(c - 1) + c * (dag[c].rank + 3 * dag[c].prio + 5 * Len(Par(c))
                                            + (IF Par(c) = <<>> THEN 0 ELSE 7 * Par(c)[1])
                                            + (IF IsFin(c) THEN 11 ELSE 0))
(* every DAG with three or more heads is emitted (N-way LCA fold, N-way braid): they are the
   minority and the interesting ones; the others are sampled *)
Emit == (EmitEvery = 1 \/ Cardinality(Frontier) >= 3 \/ (Checksum(Len(dag)) + EmitSalt) % EmitEvery = 0)
           => PrintT("REPLAY " \o ToJson(Case))
=================================================================================
